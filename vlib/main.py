import argparse
import sys

from vlib.core import run_check


def main():
    ap = argparse.ArgumentParser()
    ap.add_argument("prop")
    ap.add_argument("tier", nargs="?", default=None, choices=["quick", "thorough"])
    ap.add_argument("--replay")
    a = ap.parse_args()
    import os

    tier = a.tier or os.environ.get("VERIF_TIER") or "quick"
    sys.exit(run_check(a.prop, tier, replay_path=a.replay))


if __name__ == "__main__":
    main()
