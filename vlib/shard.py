import sys

from vlib.core import shard_main

if __name__ == "__main__":
    sys.exit(shard_main(sys.argv[1:]))
