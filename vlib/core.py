"""Shared runtime for every property check.

A check is `props/cNN.py`, a module with

    ID, LEVEL, RULE, ASSUMPTIONS           constants for the evidence file
    REQUIRED_CLAUSES                       clause names that must be evaluated > 0 times
    REQUIRED_FEATURES                      {feature: minimum count}, else inconclusive
    BUDGET = {"quick": {...}, "thorough": {...}}   keys: cases (total), seconds (per shard), shards
    run_shard(ctx)                         generate workload, run real code, call monitors
    classify(witness) -> key | None        mechanism classifier for known findings
    replay(ctx, witness)                   optional: re-run one recorded witness

The parent process (`run_check`) starts one fresh interpreter per shard with
subprocess.run(timeout=...), merges what they observed, writes the evidence file
and prints the verdict lines. Verdicts are three-valued: held (exit 0), violated
(exit 1 + VIOLATION line), inconclusive (exit 2, never a VIOLATION line).
"""
from __future__ import annotations

import hashlib
import importlib
import json
import os
import random
import shutil
import struct
import subprocess
import sys
import tempfile
import time
import traceback
from pathlib import Path

VERIF = Path(__file__).resolve().parent.parent
EVIDENCE = VERIF / "evidence"
REPLAY = EVIDENCE / "replay"
FINDINGS = Path(os.environ.get("VERIF_FINDINGS_DEV") or VERIF / "known_findings.txt")  # the override is for development of a classifier only
PY = "/venv/bin/python"

MAX_SAMPLES = 6
MAX_VIOLATIONS_PER_KEY = 3


def jsonable(o, depth=0):
    """Best-effort conversion of witness / sample objects to JSON."""
    if depth > 40:
        return repr(o)[:200]
    if o is None or isinstance(o, (bool, int, str)):
        return o
    if isinstance(o, float):
        if o != o or o in (float("inf"), float("-inf")):
            return repr(o)
        return o
    if isinstance(o, bytes):
        try:
            return {"bytes": o.decode("utf-8")}
        except UnicodeDecodeError:
            return {"hex": o.hex()}
    if isinstance(o, dict):
        return {str(k): jsonable(v, depth + 1) for k, v in o.items()}
    if isinstance(o, (list, tuple, set, frozenset)):
        seq = list(o)
        if isinstance(o, (set, frozenset)):
            try:
                seq = sorted(seq)
            except TypeError:
                seq = sorted(seq, key=repr)
        return [jsonable(v, depth + 1) for v in seq]
    return repr(o)[:400]


def digest64(canon) -> int:
    if not isinstance(canon, (bytes, str)):
        canon = json.dumps(jsonable(canon), sort_keys=True, separators=(",", ":"))
    if isinstance(canon, str):
        canon = canon.encode("utf-8", "surrogatepass")
    return struct.unpack("<Q", hashlib.blake2b(canon, digest_size=8).digest())[0]


class Ctx:
    """Handed to run_shard(); everything a monitor reports goes through it."""

    def __init__(self, prop_id, tier, seed, shard, nshards, budget, scratch, classify=None):
        self.prop_id = prop_id
        self.tier = tier
        self.seed = seed
        self.shard = shard
        self.nshards = nshards
        self.budget = dict(budget)
        self.scratch = Path(scratch)
        self._classify = classify
        self.rng = self.case_rng("shard")
        self.t0 = time.monotonic()
        self.deadline = self.t0 + float(self.budget.get("seconds", 40))
        total = int(self.budget.get("cases", 1000))
        self.quota = max(1, (total + nshards - 1) // nshards)
        self.evaluations = 0
        self.digests: set[int] = set()
        self.sets: dict[str, set[int]] = {}
        self.clauses: dict[str, int] = {}
        self.features: dict[str, int] = {}
        self.samples: list = []
        self._fallback_sample = None
        self._sample_tags: set[str] = set()
        self.violations: list[dict] = []
        self._viol_per_key: dict[str, int] = {}
        self.viol_counts: dict[str, int] = {}
        self.notes: list[str] = []
        self.inconclusive: list[str] = []
        self.exhaustive: dict[str, bool] = {}

    # -- randomness -------------------------------------------------------
    def case_rng(self, idx) -> random.Random:
        return random.Random(f"{self.seed}:{self.prop_id}:{self.shard}:{idx}")

    # -- budget -----------------------------------------------------------
    def time_left(self) -> float:
        return self.deadline - time.monotonic()

    def more(self, done=None) -> bool:
        """True while the shard should produce further cases."""
        n = self.evaluations if done is None else done
        return n < self.quota and time.monotonic() < self.deadline

    # -- observations -----------------------------------------------------
    def clause(self, name, n=1):
        self.clauses[name] = self.clauses.get(name, 0) + n

    def feature(self, name, n=1):
        self.features[name] = self.features.get(name, 0) + n

    def case(self, canon, nontrivial=True, features=()):
        self.evaluations += 1
        if self._fallback_sample is None and not self.samples:
            # a property module that never calls sample() still shows one actual case (cut to a readable size)
            try:
                txt = json.dumps(jsonable(canon))
                self._fallback_sample = json.loads(txt) if len(txt) <= 3000 else {"case (truncated)": txt[:3000]}
            except Exception:
                self._fallback_sample = {"case (repr)": repr(canon)[:3000]}
        if nontrivial:
            self.digests.add(digest64(canon))
        for f in features:
            self.feature(f)

    def distinct(self, set_name, canon):
        self.sets.setdefault(set_name, set()).add(digest64(canon))

    def sample(self, obj, tag=None):
        """Keep a handful of actual cases; one per tag first, so samples show variety."""
        if tag is not None:
            if tag in self._sample_tags or len(self.samples) >= 3 * MAX_SAMPLES:
                return
            self._sample_tags.add(tag)
        elif len(self.samples) >= MAX_SAMPLES:
            return
        self.samples.append(jsonable(obj))

    def note(self, text):
        if len(self.notes) < 20:
            self.notes.append(text)

    def mark_inconclusive(self, reason):
        if len(self.inconclusive) < 20:
            self.inconclusive.append(reason)

    def violation(self, clause, witness, msg=""):
        w = jsonable(witness)
        key = None
        if self._classify is not None:
            try:
                key = self._classify({"clause": clause, "witness": w, "msg": msg})
            except Exception:  # a broken classifier must never hide a violation
                key = None
        k = key or f"!{clause}"
        self.viol_counts[k] = self.viol_counts.get(k, 0) + 1
        if self._viol_per_key.get(k, 0) >= MAX_VIOLATIONS_PER_KEY:
            return
        self._viol_per_key[k] = self._viol_per_key.get(k, 0) + 1
        self.violations.append(
            {
                "property": self.prop_id,
                "clause": clause,
                "key": key,
                "msg": msg,
                "witness": w,
                "seed": self.seed,
                "tier": self.tier,
                "shard": self.shard,
                "nshards": self.nshards,
            }
        )

    # -- serialisation ----------------------------------------------------
    def result(self):
        return {
            "shard": self.shard,
            "evaluations": self.evaluations,
            "digests": sorted(self.digests),
            "sets": {k: sorted(v) for k, v in self.sets.items()},
            "clauses": self.clauses,
            "features": self.features,
            "samples": self.samples or ([self._fallback_sample] if self._fallback_sample is not None else []),
            "violations": self.violations,
            "viol_counts": self.viol_counts,
            "notes": self.notes,
            "inconclusive": self.inconclusive,
            "exhaustive": self.exhaustive,
            "wall_s": time.monotonic() - self.t0,
        }


# ------------------------------------------------------------------------
def load_prop(prop_id):
    sys.path.insert(0, str(VERIF))
    return importlib.import_module(f"props.{prop_id.lower()}")


def read_findings():
    """known_findings.txt -> {(property, key): text} for `finding:` lines only."""
    out = {}
    if not FINDINGS.exists():
        return out
    for line in FINDINGS.read_text().splitlines():
        line = line.strip()
        if not line.startswith("finding:"):
            continue
        fields = dict(tok.split("=", 1) for tok in line.split()[1:3] if "=" in tok)
        text = line.split(None, 3)[3] if len(line.split(None, 3)) > 3 else ""
        out[(fields.get("property"), fields.get("key"))] = text
    return out


def shard_main(argv):
    prop_id, tier, seed, shard, nshards, scratch, out = argv
    seed, shard, nshards = int(seed), int(shard), int(nshards)
    mod = load_prop(prop_id)
    budget = dict(mod.BUDGET[tier])
    if os.environ.get("VERIF_SECONDS"):
        budget["seconds"] = float(os.environ["VERIF_SECONDS"])
    if os.environ.get("VERIF_CASES"):
        budget["cases"] = int(os.environ["VERIF_CASES"])
    ctx = Ctx(prop_id, tier, seed, shard, nshards, budget, scratch, getattr(mod, "classify", None))
    try:
        mod.run_shard(ctx)
    except BaseException as e:  # harness failure: inconclusive, never a verdict
        ctx.mark_inconclusive(f"shard {shard} harness error: {type(e).__name__}: {e}\n{traceback.format_exc()[-1500:]}")
    with open(out, "w") as f:
        json.dump(ctx.result(), f)
    return 0


def _env(scratch):
    env = dict(os.environ)
    env["PYTHONHASHSEED"] = env.get("PYTHONHASHSEED", "0")
    env["ELASTIC_RALLY_VERIF"] = "1"
    env["RALLY_HOME"] = str(scratch / "home")
    env["HOME"] = str(scratch / "home")
    env["TMPDIR"] = str(scratch / "tmp")
    deps = VERIF / ".deps"
    pp = [str(VERIF)] + ([str(deps)] if deps.exists() else [])
    if env.get("PYTHONPATH"):
        pp.append(env["PYTHONPATH"])
    env["PYTHONPATH"] = os.pathsep.join(pp)
    env["PYTHONDONTWRITEBYTECODE"] = "1"
    return env


def run_check(prop_id, tier, seed=None, replay_path=None):
    t0 = time.monotonic()
    prop_id = prop_id.upper()
    mod = load_prop(prop_id)
    seed = int(os.environ.get("VERIF_SEED", "0")) if seed is None else seed
    base = os.environ.get("VERIF_SCRATCH") or tempfile.gettempdir()
    scratch = Path(tempfile.mkdtemp(prefix=f"verif-{prop_id}-", dir=base))
    (scratch / "home").mkdir()
    (scratch / "tmp").mkdir()
    try:
        if replay_path:
            return _replay(mod, prop_id, replay_path, scratch)
        return _run(mod, prop_id, tier, seed, scratch, t0)
    finally:
        shutil.rmtree(scratch, ignore_errors=True)


def _replay(mod, prop_id, replay_path, scratch):
    rec = json.loads(Path(replay_path).read_text())
    os.environ.update({k: v for k, v in _env(scratch).items() if k in ("RALLY_HOME", "HOME", "TMPDIR", "ELASTIC_RALLY_VERIF")})
    tier = rec.get("tier", "quick")
    ctx = Ctx(prop_id, tier, rec.get("seed", 0), rec.get("shard", 0), rec.get("nshards", 1), mod.BUDGET[tier], scratch, getattr(mod, "classify", None))
    if not hasattr(mod, "replay"):
        print(f"INCONCLUSIVE property={prop_id} no replay function")
        return 2
    mod.replay(ctx, rec)
    findings = read_findings()
    bad = [v for v in ctx.violations if (prop_id, v["key"]) not in findings]
    for v in ctx.violations:
        print(("VIOLATION-REPRODUCED" if v in bad else "KNOWN-FINDING-REPRODUCED"), f"property={prop_id} clause={v['clause']} {v['msg'][:300]}")
    if bad:
        print(f"VIOLATION property={prop_id} replay={replay_path}")
        return 1
    print(f"replay: no violation reproduced for property={prop_id}")
    return 0


def _run(mod, prop_id, tier, seed, scratch, t0):
    budget = mod.BUDGET[tier]
    nshards = int(os.environ.get("VERIF_SHARDS", budget.get("shards", min(16, os.cpu_count() or 4))))
    seconds = float(os.environ.get("VERIF_SECONDS", budget.get("seconds", 40)))
    watchdog = seconds * 3 + 120
    procs = []
    env = _env(scratch)
    for s in range(nshards):
        sdir = scratch / f"s{s}"
        sdir.mkdir()
        out = scratch / f"result-{s}.json"
        log = open(scratch / f"log-{s}.txt", "w")
        p = subprocess.Popen(
            [PY, "-m", "vlib.shard", prop_id, tier, str(seed), str(s), str(nshards), str(sdir), str(out)],
            cwd=str(VERIF), env=env, stdout=log, stderr=subprocess.STDOUT,
        )
        procs.append((s, p, out, log))
    results, inconclusive = [], []
    for s, p, out, log in procs:
        try:
            p.wait(timeout=max(1.0, watchdog - (time.monotonic() - t0)))
        except subprocess.TimeoutExpired:
            p.kill()
            p.wait()
            inconclusive.append(f"shard {s}: watchdog fired after {watchdog:.0f}s (wall clock, not a verdict)")
        log.close()
        if out.exists():
            results.append(json.loads(out.read_text()))
        else:
            tail = (scratch / f"log-{s}.txt").read_text()[-1200:]
            inconclusive.append(f"shard {s}: no result (exit {p.returncode}): {tail}")

    # ---- merge
    evaluations = sum(r["evaluations"] for r in results)
    digests = set()
    sets, clauses, features, samples, violations, notes = {}, {}, {}, [], [], []
    viol_counts, exhaustive = {}, {}
    for r in results:
        digests.update(r["digests"])
        for k, v in r["sets"].items():
            sets.setdefault(k, set()).update(v)
        for k, v in r["clauses"].items():
            clauses[k] = clauses.get(k, 0) + v
        for k, v in r["features"].items():
            features[k] = features.get(k, 0) + v
        for k, v in r["viol_counts"].items():
            viol_counts[k] = viol_counts.get(k, 0) + v
        for k, v in r.get("exhaustive", {}).items():
            exhaustive[k] = exhaustive.get(k, True) and v
        samples.extend(r["samples"][:2] if len(results) > 3 else r["samples"])
        violations.extend(r["violations"])
        notes.extend(r["notes"])
        inconclusive.extend(r["inconclusive"])
    samples = samples[: 2 * MAX_SAMPLES]

    for c in getattr(mod, "REQUIRED_CLAUSES", []):
        if clauses.get(c, 0) == 0:
            inconclusive.append(f"clause '{c}' was never evaluated")
    req = getattr(mod, "REQUIRED_FEATURES", {})
    if tier in req and isinstance(req[tier], dict):
        req = req[tier]
    for f, need in req.items():
        if isinstance(need, dict):
            continue
        if features.get(f, 0) < need:
            inconclusive.append(f"feature '{f}' seen {features.get(f, 0)} times, need {need}")
    if len(digests) < 2:
        inconclusive.append(f"only {len(digests)} distinct non-trivial cases")

    findings = read_findings()
    known, real = {}, []
    for v in violations:
        if v["key"] and (prop_id, v["key"]) in findings:
            known.setdefault(v["key"], v)
        else:
            real.append(v)

    REPLAY.mkdir(parents=True, exist_ok=True)
    for old in REPLAY.glob(f"{prop_id}-*.json"):
        old.unlink()
    replay_files = []
    for i, v in enumerate(real[:10]):
        path = REPLAY / f"{prop_id}-{tier}-{seed}-{i}.json"
        path.write_text(json.dumps(v, indent=1))
        replay_files.append(path)

    verdict = "violated" if real else ("inconclusive" if inconclusive else "held")
    coverage = {
        "evaluations": evaluations,
        "distinct_nontrivial": len(digests),
        "rule": mod.RULE,
        "samples": samples,
        "clause_evaluations": dict(sorted(clauses.items())),
        "features_seen": dict(sorted(features.items())),
        "distinct_observed": {k: len(v) for k, v in sorted(sets.items())},
        "shards": nshards,
        "shards_reporting": len(results),
    }
    if exhaustive:
        coverage["exhaustive_parts"] = exhaustive
        coverage["exhaustive"] = all(exhaustive.values()) and bool(getattr(mod, "EXHAUSTIVE_WHOLE", False))
    ev = {
        "property_id": prop_id,
        "tier": tier,
        "seed": seed,
        "level": mod.LEVEL,
        "coverage": coverage,
        "assumptions": list(getattr(mod, "ASSUMPTIONS", [])),
        "wall_s": round(time.monotonic() - t0, 2),
        "violations": len(real),
        "verdict": verdict,
        "known_findings_reproduced": {k: {"count": viol_counts.get(k, 0), "text": findings[(prop_id, k)], "example": v["witness"]} for k, v in known.items()},
        "violation_counts_by_key": viol_counts,
        "inconclusive_reasons": inconclusive[:20],
        "notes": notes[:20],
    }
    EVIDENCE.mkdir(exist_ok=True)
    (EVIDENCE / f"{prop_id}.json").write_text(json.dumps(ev, indent=1, sort_keys=False) + "\n")

    print(f"[{prop_id}] tier={tier} seed={seed} shards={len(results)}/{nshards} evaluations={evaluations} distinct_nontrivial={len(digests)} wall={ev['wall_s']}s")
    print(f"[{prop_id}] clauses: " + ", ".join(f"{k}={v}" for k, v in sorted(clauses.items())))
    if features:
        print(f"[{prop_id}] features: " + ", ".join(f"{k}={v}" for k, v in sorted(features.items())))
    if sets:
        print(f"[{prop_id}] distinct observed: " + ", ".join(f"{k}={len(v)}" for k, v in sorted(sets.items())))
    for k, v in known.items():
        print(f"KNOWN-FINDING: property={prop_id} {findings[(prop_id, k)]} [key={k}, seen {viol_counts.get(k, 0)}x]")
    if real:
        for v, path in zip(real, replay_files):
            print(f"VIOLATION property={prop_id} replay={path}")
            print(f"    clause={v['clause']} {v['msg'][:400]}")
        return 1
    if inconclusive:
        for r in inconclusive[:10]:
            print(f"INCONCLUSIVE property={prop_id} {r[:600]}")
        return 2
    print(f"[{prop_id}] HELD on everything explored")
    return 0
