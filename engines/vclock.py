"""Virtual time: an asyncio loop whose clock only moves when nothing is runnable, and module-level `time` shims.

Nothing here knows about rally. The real code (asyncio.sleep, gather, semaphores, aiohttp timers) runs unmodified on
VirtualLoop; time.perf_counter()/time.time()/time.sleep() of selected rally modules are answered by a TimeShim.
"""
import asyncio
import heapq
import time as _real_time


class VClock:
    def __init__(self, epoch=1_700_000_000.0):
        self.now = 0.0
        self.epoch = epoch

    def advance_to(self, t):
        if t > self.now:
            self.now = t


class TimeShim:
    """Stands in for the `time` module inside a rally module. perf_counter origin and wall-clock skew are callables so that the
    actor simulation can give every simulated process / host its own."""

    def __init__(self, clock, pc_offset=None, wall_skew=None, sleeper=None):
        self._clock = clock
        self._pc_offset = pc_offset or (lambda: 0.0)
        self._wall_skew = wall_skew or (lambda: 0.0)
        self._sleeper = sleeper

    def perf_counter(self):
        return self._clock.now + self._pc_offset()

    def monotonic(self):
        return self._clock.now + self._pc_offset()

    def time(self):
        return self._clock.epoch + self._clock.now + self._wall_skew()

    def sleep(self, secs):
        if self._sleeper is not None:
            self._sleeper(secs)
        else:
            self._clock.advance_to(self._clock.now + max(0.0, secs))

    def __getattr__(self, name):
        return getattr(_real_time, name)


class BudgetExceeded(BaseException):
    """Raised out of run_until_complete when a run exceeds its virtual-time / iteration budget (=> inconclusive, never a verdict)."""


class VirtualLoop(asyncio.SelectorEventLoop):
    """SelectorEventLoop on a VClock. When no callback is ready the loop asks `idle(next_timer_time)`: the default jumps the
    clock to the next timer; the actor kernel replaces it with "hand the baton back until virtual time reaches that timer"."""

    def __init__(self, clock, idle=None, max_vt=None, max_iterations=None):
        super().__init__()
        self.vclock = clock
        self._idle = idle
        self.iterations = 0
        self.max_vt = max_vt
        self.max_iterations = max_iterations

    def time(self):
        return self.vclock.now

    def _run_once(self):
        self.iterations += 1
        if (self.max_vt is not None and self.vclock.now > self.max_vt) or (self.max_iterations is not None and self.iterations > self.max_iterations):
            raise BudgetExceeded(f"virtual loop budget exceeded: vt={self.vclock.now} iterations={self.iterations}")
        if not self._ready and not self._stopping:
            while self._scheduled and self._scheduled[0]._cancelled:
                h = heapq.heappop(self._scheduled)
                h._scheduled = False
                self._timer_cancelled_count -= 1
            if self._scheduled:
                when = self._scheduled[0]._when
                if when > self.vclock.now:
                    if self._idle is not None:
                        self._idle(when)
                    else:
                        self.vclock.advance_to(when)
            elif self._idle is not None:
                # nothing scheduled and nothing ready: only another thread can wake this loop up
                self._idle(None)
        super()._run_once()


class VirtualLoopPolicy(asyncio.DefaultEventLoopPolicy):
    def __init__(self, factory):
        super().__init__()
        self._factory = factory

    def new_event_loop(self):
        return self._factory()


class _StrictlyIncreasing:
    """The node pool keeps dead nodes in a priority queue of (time.time() + timeout, node) tuples; two nodes marked dead in the same virtual
    instant would be ordered by comparing the node objects (TypeError). A real clock practically never returns the same value twice, so this
    one does not either: every reading is ten microseconds later than the last."""

    def __init__(self, shim):
        self._shim = shim
        self._n = 0

    def time(self):
        self._n += 1
        return self._shim.time() + self._n * 1e-5  # (a double near 1.7e9 resolves about 2.4e-7)

    def __getattr__(self, name):
        return getattr(self._shim, name)


def install_time_shims(shim, modules=None):
    """Installs `shim` as the `time` attribute of the rally modules that read the clock on the load-generation path.
    Returns an undo callable."""
    import esrally.client.context
    import esrally.driver.driver
    import esrally.driver.runner
    import esrally.time
    import esrally.track.params

    targets = modules or [esrally.driver.driver, esrally.client.context, esrally.driver.runner, esrally.track.params, esrally.time]
    saved = [(m, m.time) for m in targets]
    for m in targets:
        m.time = shim
    extra = []
    if modules is None:
        # Third-party code under the client reads the wall clock as well: aiohttp's connector stamps pooled connections with time.monotonic()
        # (keep-alive expiry after 15 s) and elastic-transport's node pool stamps dead nodes with time.time(). Left on the real clock, a
        # simulated race that takes longer than 15 REAL seconds starts to close and re-create pooled connections at moments that depend on the
        # speed of the machine, which re-orders same-instant events of the clients of a worker: the trace of a case would no longer be a
        # function of its seed. On the virtual clock a connection expires after 15 virtual seconds of idleness, as in a real race.
        import aiohttp.connector
        import elastic_transport._node_pool

        extra.append((aiohttp.connector, "monotonic", aiohttp.connector.monotonic))
        aiohttp.connector.monotonic = shim.monotonic
        extra.append((elastic_transport._node_pool, "time", elastic_transport._node_pool.time))
        elastic_transport._node_pool.time = _StrictlyIncreasing(shim)

    def undo():
        for m, t in saved:
            m.time = t
        for m, name, orig in extra:
            setattr(m, name, orig)

    return undo
