"""A deterministic, single-threaded stand-in for Thespian that hosts rally's REAL actor classes.

Rally's actors reach Thespian only through `self._myRef` (address, actor_send, createActor, wakeupAfter,
notifyOnSystemRegistrationChanges). The kernel instantiates the unmodified classes and binds `_myRef` to its own
reference object. Semantics follow thespian/system/actorManager.py + systemCommon.py (the trusted model):

  * one mailbox per actor, a handler runs to completion, one at a time per actor;
  * FIFO per (sender, receiver) pair, arbitrary order otherwise: every send is pickled at send time (as the
    multi-process bases do) and stamped with a delivery time = now + delay(profile), clamped monotone per channel;
  * wakeupAfter(period, payload) delivers WakeupMessage(period, payload) from the actor to itself at now + period;
  * a handler raising Exception is retried once with a deep copy; a second failure sends PoisonMessage(msg, details)
    to the sender; ActorExitRequest is never retried;
  * ActorExitRequest: the handler runs, then the actor only accepts ActorExitRequest / ChildActorExited, forwards the
    exit to its children and, once they are gone, sends ChildActorExited to its parent; kill() = process death:
    ChildActorExited without running any handler;
  * createActor(cls, targetActorRequirements) places the actor on a simulated actor system (host) whose capabilities
    satisfy cls.actorSystemCapabilityCheck; none => ChildActorExited to the parent;
  * convention: remote systems join / leave; listeners get ActorSystemConventionUpdate;
  * ask(): runs the simulation until a message reaches the external requester, the system stalls or a budget ends.

Executor threads (Worker.pool, TaskExecutionActor.pool) become *virtual threads*: the kernel substitutes
concurrent.futures.ThreadPoolExecutor as seen by esrally.driver.driver. An AsyncIoAdapter submitted to the pool runs its real
`run()` coroutine on a stepped virtual-time event loop whose bursts (everything runnable at one virtual instant) are kernel
events like message deliveries; any other callable runs at a kernel event after a scripted virtual duration. Exactly one of
{actor handler, executor burst} runs at any time, so a run is a deterministic function of the seed.
"""
import asyncio
import concurrent.futures
import copy
import datetime
import heapq
import pickle
import sys
import time as _time
import traceback
import types as pytypes

import thespian.actors as ta

from engines import vclock


class Address(ta.ActorAddress):
    """A real thespian ActorAddress (Actor.send() insists on the type) and, like it, NOT hashable."""

    def __init__(self, n, label=""):
        super().__init__(("sim", n))
        self.n = n
        self.label = label

    def __eq__(self, o):
        return isinstance(o, Address) and o.n == self.n

    def __ne__(self, o):
        return not self.__eq__(o)

    __hash__ = None

    def __repr__(self):
        return f"A{self.n}:{self.label}"

    __str__ = __repr__

    def __getstate__(self):
        return (self.n, self.label)

    def __setstate__(self, s):
        self.n, self.label = s
        self._aaddr = ("sim", self.n)


class System:
    """One simulated actor system (= one host running `esrallyd` or the coordinator)."""

    def __init__(self, name, capabilities, wall_skew=0.0):
        self.name = name
        self.capabilities = dict(capabilities)
        self.wall_skew = wall_skew
        self.joined = True
        self.admin = None


class Rec:
    def __init__(self, addr, cls, parent, system, proc_offset):
        self.addr = addr
        self.cls = cls
        self.inst = None
        self.parent = parent
        self.system = system
        self.children = []
        self.exiting = False
        self.dead = False
        self.blocked = False
        self.proc_offset = proc_offset
        self.inbox = []  # only for the external requester


class Ref:
    """What rally's actors see as self._myRef."""

    def __init__(self, kernel, rec):
        self._k = kernel
        self._rec = rec
        self.address = rec.addr
        self.globalName = None

    def actor_send(self, target, msg):
        self._k.send(self._rec, target, msg)

    def createActor(self, cls, targetActorRequirements=None, globalName=None, sourceHash=None):
        return self._k.create(cls, self._rec, targetActorRequirements)

    def wakeupAfter(self, period, payload=None):
        self._k.wakeup(self._rec, period, payload)

    def notifyOnSystemRegistrationChanges(self, addr, start=True):
        self._k.convention_listener(self._rec, start)

    def handleDeadLetters(self, addr, start=True):
        pass

    def __getattr__(self, name):
        raise NotImplementedError(f"simactor does not model Actor.{name}")


class Stall(Exception):
    pass


class Budget(Exception):
    pass


class VThread:
    """A virtual executor thread running one AsyncIoAdapter."""

    def __init__(self, kernel, owner, adapter, future):
        self.k = kernel
        self.owner = owner
        self.adapter = adapter
        self.future = future
        self.loop = None
        self.task = None
        self.finished = False
        self.bursts = 0

    def burst(self):
        k = self.k
        if self.finished:
            return
        prev_proc = k.current_proc
        k.current_proc = self.owner
        prev_thread = k.current_thread
        k.current_thread = self
        try:
            if self.loop is None:
                self.future.set_running_or_notify_cancel()
                self.loop = vclock.VirtualLoop(k.clock, idle=self._must_not_idle)
                self.loop.set_exception_handler(self.adapter._logging_exception_handler)
            loop = self.loop
            old_hooks = sys.get_asyncgen_hooks()
            sys.set_asyncgen_hooks(firstiter=loop._asyncgen_firstiter_hook, finalizer=loop._asyncgen_finalizer_hook)
            asyncio.events._set_running_loop(loop)
            try:
                if self.task is None:
                    self.task = loop.create_task(self.adapter.run())
                n = 0
                while (loop._ready or self._timer_due()) and not self.task.done():
                    loop._run_once()
                    n += 1
                    if n > 200000:
                        raise Budget("executor burst did not settle")
                if self.task.done():
                    # let callbacks scheduled by completion run (e.g. session close)
                    while loop._ready:
                        loop._run_once()
            finally:
                asyncio.events._set_running_loop(None)
                sys.set_asyncgen_hooks(*old_hooks)
            self.bursts += 1
            if self.task.done():
                self.finished = True
                exc = self.task.exception() if not self.task.cancelled() else asyncio.CancelledError()
                loop.close()
                if exc is not None:
                    self.future.set_exception(exc)
                else:
                    self.future.set_result(None)
                k.thread_done(self)
            else:
                when = self._next_timer()
                if when is None:
                    self.finished = True
                    self.future.set_exception(RuntimeError("simactor: executor has nothing scheduled and is not done (deadlock)"))
                    k.note("executor deadlock")
                    k.thread_done(self)
                else:
                    k.post(max(when, k.clock.now), "burst", self)
        finally:
            k.current_proc = prev_proc
            k.current_thread = prev_thread

    def reap(self):
        """End of the race: a virtual thread that never finished (abandoned race: budget, stall, killed worker) still holds suspended
        coroutines. Left to the garbage collector they would be closed at an arbitrary later moment - inside a LATER race of the same
        process - and the `finally` of AsyncIoAdapter.run() (`asyncio.get_event_loop().shutdown_asyncgens()`) would then act on whatever
        loop is running at that moment and close the schedule generators of the later race. So they are cancelled and run to their end
        here, on their own loop, while this race's environment is still installed."""
        loop = self.loop
        if loop is None or loop.is_closed():
            return
        self.finished = True
        old_hooks = sys.get_asyncgen_hooks()
        sys.set_asyncgen_hooks(firstiter=loop._asyncgen_firstiter_hook, finalizer=loop._asyncgen_finalizer_hook)
        asyncio.events._set_running_loop(loop)
        try:
            for _ in range(50):
                pending = [t for t in asyncio.all_tasks(loop) if not t.done()]
                if not pending:
                    break
                for t in pending:
                    t.cancel()
                n = 0
                while loop._ready and n < 10000:
                    loop._run_once()
                    n += 1
                if not loop._ready and any(not t.done() for t in pending):
                    # a coroutine swallowed the cancellation and waits for a timer: fire the timers without moving the clock
                    for h in list(loop._scheduled):
                        if not h._cancelled:
                            h.cancel()
                            loop._ready.append(asyncio.Handle(h._callback, h._args, loop, h._context))
        except BaseException:  # noqa - teardown only
            pass
        finally:
            asyncio.events._set_running_loop(None)
            sys.set_asyncgen_hooks(*old_hooks)
            try:
                loop.close()
            except BaseException:  # noqa
                pass

    def _must_not_idle(self, when):
        raise RuntimeError("stepped loop asked to idle")

    def _timer_due(self):
        w = self._next_timer()
        return w is not None and w <= self.k.clock.now

    def _next_timer(self):
        s = self.loop._scheduled
        while s and s[0]._cancelled:
            h = heapq.heappop(s)
            h._scheduled = False
            self.loop._timer_cancelled_count -= 1
        return s[0]._when if s else None


class SimPool:
    """Stands in for concurrent.futures.ThreadPoolExecutor inside esrally.driver.driver."""

    def __init__(self, max_workers=None, **kw):
        self.k = Kernel.current
        self.threads = []
        self.pending_calls = []
        self._shutdown = False

    def submit(self, fn, *args, **kwargs):
        k = self.k
        if self._shutdown:
            raise RuntimeError("cannot schedule new futures after shutdown")
        fut = concurrent.futures.Future()
        owner = k.current_proc
        if hasattr(fn, "run") and asyncio.iscoroutinefunction(getattr(fn, "run")) and not args and not kwargs:
            vt = VThread(k, owner, fn, fut)
            self.threads.append(vt)
            k.threads.append(vt)
            k.post(k.clock.now + k.thread_start_delay(owner), "burst", vt)
        else:
            call = {"fn": fn, "args": args, "kwargs": kwargs, "future": fut, "owner": owner, "done": False}
            self.pending_calls.append(call)
            k.post(k.clock.now + k.sync_call_duration(owner, fn), "synccall", call)
        return fut

    def shutdown(self, wait=True, **kw):
        self._shutdown = True
        if wait:
            k = self.k
            k.run_nested(lambda: all(t.finished for t in self.threads) and all(c["done"] for c in self.pending_calls), blocked=k.current_proc)


class _FuturesShim:
    def __init__(self):
        self.ThreadPoolExecutor = SimPool

    def __getattr__(self, name):
        return getattr(concurrent.futures, name)


class _ConcurrentShim:
    def __init__(self):
        self.futures = _FuturesShim()


class Kernel:
    current = None

    def __init__(self, rng, delay_profile=None, epsilon=0.0, max_steps=400000, max_vt=50000.0, stall_horizon=400.0, shuffle=True):
        self.rng = rng
        self.clock = vclock.VClock()
        self.delay_profile = delay_profile or (lambda sender, receiver, msg, rng: 0.0)
        self.epsilon = epsilon
        self.shuffle = shuffle
        self.max_steps = max_steps
        self.max_vt = max_vt
        self.stall_horizon = stall_horizon
        self.heap = []
        self.seq = 0
        self.steps = 0
        self.recs = {}
        self.naddr = 0
        self.systems = []
        self.listeners = []
        self.channel_last = {}
        self.current_proc = None
        self.threads = []
        self.ext = self._new_rec(None, None, None, label="external")
        self.admin = self._new_rec(None, None, None, label="admin")  # sender of system notices; whatever is sent to it is lost
        self.deliveries = []  # (vt, receiver label, msg class, sender label)
        self.fingerprint = []
        self.observers = []  # callables(kernel, rec, msg, sender) -> None | "drop"
        self.stalled = False
        self.stall_reason = None
        self.budget_exceeded = False
        self.budget_reason = None
        self.max_delay = 0.0
        self.distinct_switch_points = set()
        self.current_msg = None
        self.current_thread = None  # the virtual executor thread whose burst is running, if any
        self.pre_step_hooks = []
        self.deliver_count = 0
        self.wall_deadline = None  # generous wall-clock watchdog; firing makes the run inconclusive, never a verdict
        self.notes = []
        self.last_progress = 0.0
        self.proc_offset_fn = lambda cls, system: 0.0
        self.thread_start_delay = lambda owner: 0.0
        self.sync_call_duration = lambda owner, fn: 0.0
        self.wakeup_jitter = lambda rec, period: 0.0
        self.handler_errors = []
        self.undeliverable = []
        self.time_shim = vclock.TimeShim(self.clock, pc_offset=self._pc_offset, wall_skew=self._wall_skew)
        self.inflight_kinds = {}

    # ------------------------------------------------------------------ time
    def _pc_offset(self):
        r = self.current_proc
        return r.proc_offset if r is not None else 0.0

    def _wall_skew(self):
        r = self.current_proc
        return r.system.wall_skew if (r is not None and r.system is not None) else 0.0

    def note(self, text):
        if len(self.notes) < 50:
            self.notes.append(f"{self.clock.now:.3f}: {text}")

    # ------------------------------------------------------------------ topology
    def add_system(self, name, capabilities, wall_skew=0.0, joined=True):
        s = System(name, capabilities, wall_skew)
        s.joined = joined
        self.systems.append(s)
        return s

    def _new_rec(self, cls, parent, system, label=None):
        self.naddr += 1
        addr = Address(self.naddr, label or (cls.__name__ if cls else "?"))
        rec = Rec(addr, cls, parent, system, self.proc_offset_fn(cls, system) if cls else 0.0)
        self.recs[addr.n] = rec
        return rec

    def create(self, cls, parent_rec, requirements=None):
        """Returns the new address; the actor is instantiated immediately on a matching system."""
        reqs = requirements or {}
        home = parent_rec.system if (parent_rec is not None and parent_rec.system is not None) else (self.systems[0] if self.systems else None)
        candidates = [home] + [s for s in self.systems if s is not home and s.joined]
        chosen = None
        check = getattr(cls, "actorSystemCapabilityCheck", None)
        for s in candidates:
            if s is None:
                continue
            if check is None or check(s.capabilities, reqs):
                chosen = s
                break
        rec = self._new_rec(cls, parent_rec.addr if parent_rec is not None and parent_rec is not self.ext else None, chosen)
        if parent_rec is not None and parent_rec is not self.ext:
            parent_rec.children.append(rec.addr)
        if chosen is None:
            rec.dead = True
            self.note(f"no compatible system for {cls.__name__} {reqs}")
            if rec.parent is not None:
                self._post_delivery(rec, self.recs[rec.parent.n], ta.ChildActorExited(rec.addr), system_msg=True)
            return rec.addr
        prev = self.current_proc
        self.current_proc = rec
        try:
            inst = cls()
            inst._myRef = Ref(self, rec)
            rec.inst = inst
        finally:
            self.current_proc = prev
        return rec.addr

    def convention_listener(self, rec, start):
        if start:
            if rec not in self.listeners:
                self.listeners.append(rec)
                # Thespian tells a new listener about the systems that are already registered
                for s in self.systems[1:]:
                    if s.joined:
                        self._post_delivery(self.admin, rec, ta.ActorSystemConventionUpdate(Address(-1, s.name), dict(s.capabilities), True), system_msg=True)
        elif rec in self.listeners:
            self.listeners.remove(rec)

    def system_joins(self, system):
        system.joined = True
        for rec in list(self.listeners):
            self._post_delivery(self.admin, rec, ta.ActorSystemConventionUpdate(Address(-1, system.name), dict(system.capabilities), True), system_msg=True)

    def system_leaves(self, system):
        system.joined = False
        for rec in list(self.listeners):
            self._post_delivery(self.admin, rec, ta.ActorSystemConventionUpdate(Address(-1, system.name), dict(system.capabilities), False), system_msg=True)
        for rec in list(self.recs.values()):
            if rec.system is system and not rec.dead:
                self.kill(rec.addr)

    # ------------------------------------------------------------------ sending
    def post(self, when, kind, data, channel=None):
        self.seq += 1
        heapq.heappush(self.heap, (when, self.seq, kind, data, channel))

    def send(self, sender_rec, target, msg):
        if not isinstance(target, Address):
            raise TypeError(f"send() to a non-address: {target!r}")
        trec = self.recs.get(target.n)
        if trec is None:
            return
        self._post_delivery(sender_rec, trec, msg)

    def _post_delivery(self, sender_rec, trec, msg, system_msg=False):
        try:
            blob = pickle.dumps(msg)
        except Exception as e:  # Thespian would fail to transmit; surface loudly, the harness decides what that means
            self.handler_errors.append(("unpicklable", type(msg).__name__, repr(e)))
            raise
        delay = 0.0 if system_msg else max(0.0, self.delay_profile(sender_rec, trec, msg, self.rng))
        if delay > self.max_delay:
            self.max_delay = delay
        ch = (sender_rec.addr.n, trec.addr.n)
        when = max(self.clock.now + delay, self.channel_last.get(ch, 0.0))
        self.channel_last[ch] = when
        self.post(when, "deliver", (trec, sender_rec.addr, blob, type(msg).__name__), channel=ch)

    def wakeup(self, rec, period, payload):
        secs = period.total_seconds() if isinstance(period, datetime.timedelta) else float(period)
        secs = max(0.0, secs) + max(0.0, self.wakeup_jitter(rec, secs))
        msg = ta.WakeupMessage(period, payload)
        self.post(self.clock.now + secs, "deliver", (rec, rec.addr, pickle.dumps(msg), "WakeupMessage"), channel=None)

    def kill(self, addr):
        """Process death: no handler runs, the parent hears ChildActorExited."""
        rec = self.recs[addr.n]
        if rec.dead:
            return
        rec.dead = True
        for t in self.threads:
            if t.owner is rec:
                t.finished = True
        if rec.parent is not None:
            self._post_delivery(rec, self.recs[rec.parent.n], ta.ChildActorExited(rec.addr), system_msg=True)

    # ------------------------------------------------------------------ running
    def _pop_next(self, blocked=None):
        """Chooses the next event: among events within epsilon of the earliest eligible one, honouring FIFO per channel."""
        if not self.heap:
            return None
        window, skipped = [], []
        t_min = None
        while self.heap:
            ev = self.heap[0]
            if t_min is not None and ev[0] > t_min + self.epsilon:
                break
            if ev[2] == "call":
                # harness actions (topology changes, fault injection) are not messages: they happen exactly in time order
                if window:
                    break
                for sk in skipped:
                    heapq.heappush(self.heap, sk)
                return heapq.heappop(self.heap)
            ev = heapq.heappop(self.heap)
            if blocked is not None and ev[2] == "deliver" and ev[3][0] is blocked:
                skipped.append(ev)
                continue
            if t_min is None:
                t_min = ev[0]
            window.append(ev)
        chosen = None
        if window:
            if len(window) == 1:
                chosen = window[0]
            else:
                heads = {}
                free = []
                for ev in window:
                    ch = ev[4]
                    if ch is None:
                        free.append(ev)
                    elif ch not in heads or ev[1] < heads[ch][1]:
                        heads[ch] = ev
                eligible = free + list(heads.values())
                eligible.sort(key=lambda e: e[1])
                chosen = eligible[self.rng.randrange(len(eligible))] if self.shuffle else eligible[0]
            for ev in window:
                if ev is not chosen:
                    heapq.heappush(self.heap, ev)
        for ev in skipped:
            heapq.heappush(self.heap, ev)
        return chosen

    def step(self, blocked=None):
        ev = self._pop_next(blocked)
        if ev is None:
            return False
        when, _, kind, data, _ = ev
        self.clock.advance_to(when)
        self.steps += 1
        if self.steps > self.max_steps or self.clock.now > self.max_vt or (self.wall_deadline is not None and self.steps % 500 == 0 and _time.monotonic() > self.wall_deadline):
            self.budget_exceeded = True
            self.budget_reason = "steps" if self.steps > self.max_steps else ("virtual-time" if self.clock.now > self.max_vt else "wall-clock")
            raise Budget(f"steps={self.steps} vt={self.clock.now}")
        if kind == "deliver":
            self._deliver(*data)
        elif kind == "burst":
            self.last_progress = self.clock.now
            data.burst()
        elif kind == "synccall":
            self.last_progress = self.clock.now
            self._sync_call(data)
        elif kind == "call":
            data(self)
        if self.clock.now - self.last_progress > self.stall_horizon:
            self.stalled = True
            self.stall_reason = f"no progress since vt={self.last_progress:.1f} (only housekeeping wake-ups for {self.stall_horizon}s)"
            raise Stall(self.stall_reason)
        return True

    def _sync_call(self, call):
        prev = self.current_proc
        self.current_proc = call["owner"]
        try:
            if call["owner"] is not None and call["owner"].dead:
                call["done"] = True
                return
            call["future"].set_running_or_notify_cancel()
            try:
                res = call["fn"](*call["args"], **call["kwargs"])
            except BaseException as e:
                call["future"].set_exception(e)
            else:
                call["future"].set_result(res)
            call["done"] = True
        finally:
            self.current_proc = prev

    def thread_done(self, vt):
        pass

    def _deliver(self, rec, sender, blob, cls_name):
        if rec is self.ext:
            try:
                msg = pickle.loads(blob)
            except Exception as e:  # see below
                self.undeliverable.append((cls_name, "external", repr(e)))
                return
            rec.inbox.append(msg)
            self.deliveries.append((self.clock.now, "external", cls_name, sender.label))
            self.last_progress = self.clock.now
            return
        if rec.dead or rec.inst is None:
            return
        try:
            msg = pickle.loads(blob)
        except Exception as e:
            # A message that pickles at the sender but cannot be re-created at the receiver (an exception instance whose constructor takes more than
            # its args, a class from a module the receiving process has not loaded): Thespian's multi-process transports log it and drop it; neither
            # side is told.
            self.undeliverable.append((cls_name, rec.addr.label, repr(e)))
            return
        if rec.exiting and not isinstance(msg, (ta.ActorExitRequest, ta.ChildActorExited)):
            return
        for ob in self.observers:
            if ob(self, rec, msg, sender) == "drop":
                return
        self.deliver_count += 1
        housekeeping = isinstance(msg, ta.WakeupMessage) and rec.cls.__name__ in ("DriverActor", "NodeMechanicActor")  # 1 s tick / 30 s metrics flush
        if not housekeeping:
            self.last_progress = self.clock.now
        self.deliveries.append((self.clock.now, rec.addr.label, cls_name, sender.label))
        self.fingerprint.append((rec.addr.label, cls_name))
        prev = self.current_proc
        self.current_proc = rec
        self.current_msg = cls_name
        try:
            try:
                rec.inst.receiveMessage(msg, sender)
            except SystemExit:
                # sys.exit() inside a message handler that nobody catches ends the actor's process: no retry, no poison message - the parent
                # hears ChildActorExited (multiprocess bases)
                self.handler_errors.append((rec.addr.label, cls_name, "SystemExit escaped the handler: actor process ends"))
                self.kill(rec.addr)
                return
            except Exception:
                if not isinstance(msg, ta.ActorExitRequest):
                    self.handler_errors.append((rec.addr.label, cls_name, traceback.format_exc()[-800:]))
                    try:
                        rec.inst.receiveMessage(copy.deepcopy(msg), sender)
                    except Exception:
                        if not isinstance(msg, ta.PoisonMessage):
                            srec = self.recs.get(sender.n)
                            if srec is not None:
                                self._post_delivery(rec, srec, ta.PoisonMessage(msg, traceback.format_exc()))
        finally:
            self.current_proc = prev
        if isinstance(msg, ta.ActorExitRequest):
            self._actor_exit(rec)
        elif isinstance(msg, ta.ChildActorExited):
            self._child_exited(rec, msg.childAddress)

    def _actor_exit(self, rec):
        if rec.exiting:
            return
        rec.exiting = True
        kids = [c for c in rec.children if not self.recs[c.n].dead]
        if kids:
            for c in kids:
                self._post_delivery(rec, self.recs[c.n], ta.ActorExitRequest(recursive=True))
        else:
            self._goodbye(rec)

    def _goodbye(self, rec):
        if rec.dead:
            return
        rec.dead = True
        if rec.parent is not None:
            self._post_delivery(rec, self.recs[rec.parent.n], ta.ChildActorExited(rec.addr), system_msg=True)

    def _child_exited(self, rec, child):
        rec.children = [c for c in rec.children if c != child]
        if rec.exiting and not [c for c in rec.children if not self.recs[c.n].dead]:
            self._goodbye(rec)

    def run_nested(self, until, blocked=None):
        """A blocking call inside a handler: keeps the world moving, except deliveries to the blocked actor."""
        if blocked is not None:
            blocked.blocked = True
        try:
            while not until():
                if not self.step(blocked=blocked):
                    raise Stall("blocked call can never return: nothing left to run")
        finally:
            if blocked is not None:
                blocked.blocked = False

    def run_until_reply(self):
        while not self.ext.inbox:
            for h in list(self.pre_step_hooks):
                h(self)  # may raise (e.g. KeyboardInterrupt out of ask(): the user pressed Ctrl-C)
            if not self.step():
                self.stalled = True
                self.stall_reason = "quiescent: no deliverable message, no pending wake-up, no runnable executor - and no reply for the requester"
                raise Stall(self.stall_reason)
        return self.ext.inbox.pop(0)

    def drain(self, max_vt_extra=200.0):
        """Runs what is left (exit requests etc.) for a bounded stretch of virtual time."""
        limit = self.clock.now + max_vt_extra
        try:
            while self.heap and self.heap[0][0] <= limit:
                if not self.step():
                    break
        except (Stall, Budget):
            pass

    # ------------------------------------------------------------------ installation
    def install(self):
        """Substitutes the module attributes rally reads the clock and the thread pool through. Returns undo()."""
        import esrally.driver.driver as drv

        Kernel.current = self
        undo_time = vclock.install_time_shims(self.time_shim)
        saved_conc = drv.concurrent
        drv.concurrent = _ConcurrentShim()

        def undo():
            drv.concurrent = saved_conc
            undo_time()
            Kernel.current = None

        return undo


class SimActorSystem:
    """What racecontrol.race() / rally.with_actor_system() get from actor.bootstrap_actor_system()."""

    def __init__(self, kernel):
        self.k = kernel

    def createActor(self, cls, targetActorRequirements=None, globalName=None, sourceHash=None):
        return self.k.create(cls, self.k.ext, targetActorRequirements)

    def tell(self, addr, msg):
        self.k.send(self.k.ext, addr, msg)

    def ask(self, addr, msg, timeout=None):
        self.k.send(self.k.ext, addr, msg)
        hook = getattr(self.k, "on_ask", None)
        if hook is not None:
            hook(self.k, msg)
        try:
            return self.k.run_until_reply()
        except Stall:
            return None

    def listen(self, timeout=None):
        try:
            return self.k.run_until_reply()
        except Stall:
            return None

    def shutdown(self):
        self.k.drain()
