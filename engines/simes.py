"""A simulated Elasticsearch behind rally's REAL async client stack.

Rally itself ships a "static responses" mode (client option `static_responses`) that swaps aiohttp's request/response
classes for StaticRequest / StaticResponse / StaticStreamReader while keeping EsClientFactory.create_async,
RallyAsyncElasticsearch (the RequestContextHolder), RallyAsyncTransport / elastic-transport, the LazyJSONSerializer and
aiohttp's own session + trace dispatch (on_request_start, on_request_end, on_response_chunk_received,
on_request_exception) real. We substitute the three Static* methods so that each wire request

  * is logged with its virtual start/end time, method, path, query, body and the (client, task) that issued it
    (the ground-truth REQUEST LOG all driver properties are compared with),
  * takes scripted virtual time before the response headers and before the body,
  * answers with scripted status/body, or fails with a connection error / timeout.
"""
import asyncio
import contextvars
import json

import aiohttp
from multidict import CIMultiDict, CIMultiDictProxy

from esrally.client import asynchronous as rally_async

# set by the harness around AsyncExecutor.__call__: {"client": id, "task": name, "ordinal": n, ...}
ISSUER = contextvars.ContextVar("verif_issuer", default=None)
# the logical request (entry of Recorder.logical) on whose behalf the current task works. Set per logical request, so that tasks spawned by
# a request (composite streams) keep pointing at THEIR request even when they outlive it (Composite does not cancel sibling streams when
# the last gather fails) and the same client has already started its next request.
LOGICAL = contextvars.ContextVar("verif_logical", default=None)


class Outcome:
    """What the simulated node does with one wire request."""

    __slots__ = ("before_headers", "before_body", "status", "body", "fail", "headers")

    def __init__(self, before_headers=0.0, before_body=0.0, status=200, body=None, fail=None, headers=None):
        self.before_headers = before_headers
        self.before_body = before_body
        self.status = status
        self.body = body  # bytes | None (None => default body for the path)
        self.fail = fail  # None | "refused" | "timeout" | "reset-after-headers"
        self.headers = headers


class SimES:
    current = None

    def __init__(self, clock, script=None, keep_bodies=True):
        self.clock = clock
        self.script = script or (lambda req: Outcome())
        self.log = []
        self.keep_bodies = keep_bodies
        self._saved = None

    # ------------------------------------------------------------------
    def install(self):
        SimES.current = self
        # ground truth for "which client issued this": the client id that EsClientFactory.create_async stored on the HTTP node the
        # request travels through (independent of what the executor believes its client id is)
        orig_create = rally_async.RallyAiohttpHttpNode._create_aiohttp_session

        def _create_aiohttp_session(node):
            orig_create(node)
            node.session._verif_node_client = node.client_id

        rally_async.RallyAiohttpHttpNode._create_aiohttp_session = _create_aiohttp_session
        self._orig_create = orig_create
        self._saved = (
            rally_async.StaticRequest.send,
            rally_async.StaticResponse.start,
            rally_async.StaticStreamReader.read,
            rally_async.StaticRequest.RESPONSES,
        )
        rally_async.StaticRequest.send = _send
        rally_async.StaticResponse.start = _start
        rally_async.StaticStreamReader.read = _read
        # rally reads the static response file once per process; a matcher that is never consulted keeps it from opening a file
        rally_async.StaticRequest.RESPONSES = rally_async.ResponseMatcher([])
        return self

    def uninstall(self):
        if getattr(self, "_orig_create", None) is not None:
            rally_async.RallyAiohttpHttpNode._create_aiohttp_session = self._orig_create
            self._orig_create = None
        if self._saved:
            (
                rally_async.StaticRequest.send,
                rally_async.StaticResponse.start,
                rally_async.StaticStreamReader.read,
                rally_async.StaticRequest.RESPONSES,
            ) = self._saved
        SimES.current = None

    # ------------------------------------------------------------------
    def begin(self, req):
        body = None
        payload = getattr(req, "body", None)
        if payload is not None:
            raw = getattr(payload, "_value", None)
            if isinstance(raw, (bytes, bytearray)):
                body = bytes(raw)
        issuer = ISSUER.get()
        rec = {
            "id": len(self.log),
            "vt_start": self.clock.now,
            "vt_end": None,
            "method": req.method,
            "path": req.original_url.path,
            "query": dict(req.original_url.query),
            "body": body if self.keep_bodies else (len(body) if body is not None else None),
            "client": issuer.get("client") if issuer else None,
            "node_client": getattr(getattr(req, "_session", None), "_verif_node_client", None),
            "task": issuer.get("task") if issuer else None,
            "logical": issuer.get("ordinal") if issuer else None,
            "status": None,
            "fail": None,
        }
        self.log.append(rec)
        entry = LOGICAL.get()
        if entry is not None:
            rec["logical"] = entry["ordinal"]
            entry["wire"].append(rec["id"])
            if "vt_finish" in entry:
                rec["after_logical_request_finished"] = True
        elif issuer is not None:
            issuer.setdefault("wire", []).append(rec["id"])
        rec["_outcome"] = self.script(rec)
        return rec

    def end(self, rec, status=None, fail=None):
        rec["vt_end"] = self.clock.now
        rec["status"] = status
        rec["fail"] = fail

    def public_log(self):
        return [{k: v for k, v in r.items() if not k.startswith("_")} for r in self.log]


def default_body(rec):
    path, method = rec["path"], rec["method"]
    if path.endswith("/_bulk") or path == "/_bulk":
        body = rec["body"] or b""
        lines = [l for l in body.split(b"\n") if l]
        items = []
        i = 0
        while i < len(lines):
            try:
                action = next(iter(json.loads(lines[i])))
            except Exception:
                action = "index"
            i += 1 if action == "delete" else 2
            items.append({action: {"_index": "i", "status": 201 if action in ("index", "create") else 200, "_shards": {"total": 2, "successful": 1, "failed": 0}}})
        return json.dumps({"took": 1, "errors": False, "items": items}).encode()
    if path.endswith("/_search"):
        return b'{"took":1,"timed_out":false,"_shards":{"total":1,"successful":1,"skipped":0,"failed":0},"hits":{"total":{"value":1,"relation":"eq"},"hits":[{"_id":"1","_source":{}}]}}'
    if method == "HEAD":
        return b""
    if path.startswith("/_cluster/settings"):
        return b'{"acknowledged":true,"persistent":{},"transient":{}}'
    if path.startswith("/_cluster/health"):
        return (b'{"cluster_name":"sim","status":"green","timed_out":false,"number_of_nodes":1,"number_of_data_nodes":1,"active_primary_shards":1,'
                b'"active_shards":1,"relocating_shards":0,"initializing_shards":0,"unassigned_shards":0}')
    if path.endswith("/_refresh") or path.endswith("/_forcemerge") or path.endswith("/_flush"):
        return b'{"_shards":{"total":2,"successful":1,"failed":0}}'
    if path == "/":
        return b'{"name":"sim","cluster_name":"sim","version":{"number":"8.6.1","build_flavor":"default","build_hash":"abc"},"tagline":"You Know, for Search"}'
    return b'{"acknowledged":true}'


async def _send(self, conn):
    sim = SimES.current
    rec = sim.begin(self)
    out = rec["_outcome"]
    if out.fail == "refused":
        if out.before_headers:
            try:
                await asyncio.sleep(out.before_headers)
            except asyncio.CancelledError:
                sim.end(rec, fail="cancelled-by-client")
                raise
        sim.end(rec, fail="refused")
        raise aiohttp.ClientConnectionError("simulated: connection refused")
    self.response = self.response_class(
        self.method,
        self.original_url,
        writer=self._writer,
        continue100=self._continue,
        timer=self._timer,
        request_info=self.request_info,
        traces=self._traces,
        loop=self.loop,
        session=self._session,
    )
    self.response._sim_rec = rec
    return self.response


async def _start(self, connection):
    sim = SimES.current
    rec = self._sim_rec
    out = rec["_outcome"]
    self._closed = False
    self._protocol = connection.protocol
    self._connection = connection
    if out.before_headers:
        try:
            await asyncio.sleep(out.before_headers)
        except asyncio.CancelledError:
            sim.end(rec, fail="cancelled-by-client")  # e.g. the client's own request timeout fired
            raise
    if out.fail == "timeout":
        sim.end(rec, fail="timeout")
        raise asyncio.TimeoutError()
    hdrs = CIMultiDict({"content-type": "application/json"})
    if out.headers:
        hdrs.update(out.headers)
    self._headers = CIMultiDictProxy(hdrs)
    self._raw_headers = tuple((k.encode(), v.encode()) for k, v in hdrs.items())
    body = out.body if out.body is not None else default_body(rec)
    reader = rally_async.StaticStreamReader(body)
    reader._sim_rec = rec
    self.content = reader
    self.status = out.status
    self.reason = "OK" if out.status < 400 else "ERR"
    return self


async def _read(self, n=-1):
    sim = SimES.current
    rec = self._sim_rec
    out = rec["_outcome"]
    if out.before_body:
        try:
            await asyncio.sleep(out.before_body)
        except asyncio.CancelledError:
            sim.end(rec, fail="cancelled-by-client")
            raise
    if out.fail == "reset-after-headers":
        sim.end(rec, fail="reset-after-headers")
        raise aiohttp.ClientPayloadError("simulated: connection reset while reading the body")
    sim.end(rec, status=out.status)
    body = self.body
    return body if isinstance(body, bytes) else body.encode("utf-8")
