"""Fine-grained (line-level) preemption for the simulated actor kernel.

In a real worker process the actor thread and the executor thread interleave at bytecode granularity. The kernel runs them
one at a time; this module restores the interesting interleavings as *seeded choices*: `sys.monitoring` LINE events on the
code objects of a few Worker methods call back into the kernel between two source lines of a running handler, and with a seeded
probability the kernel lets the executor thread of that same worker run everything it would run within the next `delta` virtual
seconds (the handler is "slow" by at most delta). Only statement boundaries of the listed functions are yield points; nothing is
injected where the real interpreter could not switch threads.
"""
import heapq
import sys

TOOL = 3  # sys.monitoring tool id (0-5); 3 is unassigned by convention


class Preempt:
    def __init__(self, kernel, functions, prob, delta, rng, executor_functions=()):
        self.k = kernel
        self.exec_codes = {f.__code__ for f in executor_functions}
        self.codes = [f.__code__ for f in functions] + list(self.exec_codes)
        self.prob = prob
        self.delta = delta
        self.rng = rng
        self.points = 0
        self.switches = 0
        self.actor_in_executor = 0
        self.active = False
        self.in_callback = False

    def enable(self):
        mon = sys.monitoring
        try:
            mon.use_tool_id(TOOL, "verif-preempt")
        except ValueError:
            mon.free_tool_id(TOOL)
            mon.use_tool_id(TOOL, "verif-preempt")
        mon.register_callback(TOOL, mon.events.LINE, self._on_line)
        for c in self.codes:
            mon.set_local_events(TOOL, c, mon.events.LINE)
        self.active = True

    def disable(self):
        if not self.active:
            return
        mon = sys.monitoring
        for c in self.codes:
            mon.set_local_events(TOOL, c, 0)
        mon.register_callback(TOOL, mon.events.LINE, None)
        mon.free_tool_id(TOOL)
        self.active = False

    def _on_line(self, code, line):
        if self.in_callback:
            return
        k = self.k
        owner = k.current_proc
        if owner is None:
            return
        self.points += 1
        if self.rng.random() >= self.prob:
            return
        self.in_callback = True
        try:
            horizon = k.clock.now + self.delta
            if code in self.exec_codes:
                # we are inside the executor thread (a burst): let the ACTOR thread of the same worker handle a message that is due
                # within delta (typically its periodic wake-up) right here, between two lines of the executor's code
                if k.current_thread is None:
                    return
                due = [ev for ev in k.heap if ev[2] == "deliver" and ev[3][0] is owner and ev[0] <= horizon]
                if not due:
                    return
                heads = {}
                for ev in due:
                    ch = ev[4] if ev[4] is not None else ("free", ev[1])
                    if ch not in heads or ev[1] < heads[ch][1]:
                        heads[ch] = ev
                ev = min(heads.values(), key=lambda e: (e[0], e[1]))
                if ev[4] is not None and any(o[2] == "deliver" and o[4] == ev[4] and o[1] < ev[1] for o in k.heap):
                    return  # FIFO: an earlier message on the same channel is still outstanding
                k.heap.remove(ev)
                heapq.heapify(k.heap)
                k.clock.advance_to(ev[0])
                thread = k.current_thread
                k.current_thread = None
                try:
                    k._deliver(*ev[3])
                finally:
                    k.current_thread = thread
                self.switches += 1
                self.actor_in_executor += 1
                k.distinct_switch_points.add((code.co_name, line))
                return
            # we are inside an actor handler: run the bursts of this worker's executor thread(s) that are due within delta
            ran = False
            while True:
                due = [ev for ev in k.heap if ev[2] == "burst" and ev[3].owner is owner and ev[0] <= horizon and not ev[3].finished]
                if not due:
                    break
                ev = min(due, key=lambda e: (e[0], e[1]))
                k.heap.remove(ev)
                heapq.heapify(k.heap)
                k.clock.advance_to(ev[0])
                ev[3].burst()
                ran = True
            if ran:
                self.switches += 1
                k.distinct_switch_points.add((code.co_name, line))
        finally:
            self.in_callback = False
