"""Runs rally's real load-generation stack (AsyncIoAdapter -> AsyncExecutor -> ScheduleHandle -> runners -> real async ES client)
for one set of task allocations on a VirtualLoop, without actors. Used by C04, C05 and C18 (product-shaped class).

What is recorded per run:
  * sim.log        - wire requests with virtual start/end (engines.simes)
  * schedule       - the tuples every real ScheduleHandle yielded (expected_scheduled_time, sample_type, percent_completed), per client
  * logical        - one record per executed logical request (client, task, ordinal, vt at processing start / end, wire ids, runner result)
  * samples        - everything the real Sampler received (arguments of Sampler.add)
"""
import asyncio
import json
import logging
import os
import threading

from esrally import config, metrics
from esrally.driver import driver, runner
from esrally.utils import opts

from engines import simes, vclock


def make_cfg(static_file, on_error="continue", extra=None):
    cfg = config.Config()
    s = config.Scope.application
    cfg.add(s, "driver", "profiling", False)
    cfg.add(s, "driver", "assertions", False)
    cfg.add(s, "driver", "on.error", on_error)
    cfg.add(s, "client", "hosts", opts.TargetHosts("127.0.0.1:9200"))
    cfg.add(s, "client", "options", opts.ClientOptions(f"static_responses:'{static_file}',enable_cleanup_closed:false"))
    cfg.add(s, "mechanic", "distribution.version", "8.6.1")
    cfg.add(s, "mechanic", "distribution.flavor", "default")
    cfg.add(s, "track", "test.mode.enabled", False)
    for (sec, key), v in (extra or {}).items():
        cfg.add(s, sec, key, v)
    return cfg


def install_recorders(rec, clock, who=None):
    """Recording wrappers around the real ScheduleHandle / AsyncExecutor / execute_single / Sampler.add. `who()` may name the
    simulated process (worker) the code currently runs in. Returns undo()."""
    undo = []

    # --- schedule tuples (read from the real ScheduleHandle so the oracle does not re-implement the scheduler)
    orig_sh_call = driver.ScheduleHandle.__call__

    def sh_call(handle):
        agen = orig_sh_call(handle)
        key = (handle.task_allocation.global_client_index, handle.task_allocation.task.name)

        async def wrapped():
            async for tup in agen:
                lst = rec.schedule.setdefault(key, [])
                lst.append({"scheduled": tup[0], "sample_type": int(tup[1]), "percent": tup[2], "vt": clock.now})
                yield tup

        return wrapped()

    driver.ScheduleHandle.__call__ = sh_call
    undo.append(lambda: setattr(driver.ScheduleHandle, "__call__", orig_sh_call))

    # --- issuer context per executor (client, task) and per logical request
    orig_exec_call = driver.AsyncExecutor.__call__

    async def exec_call(ex, *a, **k):
        issuer = {"client": ex.client_id, "task": ex.task.name, "ordinal": -1}
        simes.ISSUER.set(issuer)
        rec.start_info[(ex.client_id, ex.task.name)] = {"vt_total_start": clock.now, "ramp_up": ex.schedule_handle.ramp_up_wait_time}
        ta = getattr(ex.schedule_handle, "task_allocation", None)
        run = {"client": ex.client_id, "task": ex.task.name, "index_in_task": getattr(ta, "client_index_in_task", None), "vt_start": clock.now,
               "vt_end": None, "who": who() if who else None, "raised": None}
        issuer["run"] = len(rec.runs)
        rec.runs.append(run)
        try:
            return await orig_exec_call(ex, *a, **k)
        except BaseException as e:
            run["raised"] = type(e).__name__
            raise
        finally:
            run["vt_end"] = clock.now

    driver.AsyncExecutor.__call__ = exec_call
    undo.append(lambda: setattr(driver.AsyncExecutor, "__call__", orig_exec_call))

    orig_execute_single = driver.execute_single

    async def execute_single(rnr, es, params, on_error):
        issuer = simes.ISSUER.get()
        entry = None
        if issuer is not None:
            issuer["ordinal"] += 1
            issuer["wire"] = []
            entry = {"client": issuer["client"], "task": issuer["task"], "ordinal": issuer["ordinal"], "vt_begin": clock.now, "wire": issuer["wire"], "run": issuer.get("run")}
            rec.logical.append(entry)
        token = simes.LOGICAL.set(entry)
        try:
            res = await orig_execute_single(rnr, es, params, on_error)
            if entry is not None:
                entry["vt_finish"] = clock.now
                entry["result"] = {"ops": res[0], "unit": res[1], "success": res[2].get("success") if isinstance(res[2], dict) else None}
            return res
        except BaseException as e:
            if entry is not None:
                entry["vt_finish"] = clock.now
                entry["raised"] = type(e).__name__
            raise
        finally:
            try:
                simes.LOGICAL.reset(token)
            except ValueError:  # closed by the garbage collector in another context
                pass

    driver.execute_single = execute_single
    undo.append(lambda: setattr(driver, "execute_single", orig_execute_single))

    # --- samples
    orig_add = driver.Sampler.add

    def add(sampler, task, client_id, sample_type, meta_data, absolute_time, request_start, latency, service_time, processing_time,
            throughput, ops, ops_unit, time_period, percent_completed, dependent_timing=None):
        rec.samples.append(
            {
                "task": task.name, "client": client_id, "sample_type": int(sample_type), "meta": dict(meta_data) if meta_data else meta_data,
                "absolute_time": absolute_time, "request_start": request_start, "latency": latency, "service_time": service_time,
                "processing_time": processing_time, "throughput": throughput, "ops": ops, "unit": ops_unit, "time_period": time_period,
                "percent": percent_completed, "dependent": json.loads(json.dumps(dependent_timing, default=str)) if dependent_timing else None,
                "vt": clock.now, "sampler_start": sampler.start_timestamp,
            }
        )
        return orig_add(sampler, task, client_id, sample_type, meta_data, absolute_time, request_start, latency, service_time,
                        processing_time, throughput, ops, ops_unit, time_period, percent_completed, dependent_timing)

    driver.Sampler.add = add
    undo.append(lambda: setattr(driver.Sampler, "add", orig_add))

    def undo_all():
        for u in reversed(undo):
            u()

    return undo_all


class Recorder:
    def __init__(self):
        self.schedule = {}  # (client, task) -> list of yielded tuples
        self.logical = []
        self.samples = []
        self.start_info = {}  # (client, task) -> {"total_start": vt, "ramp_up": s}
        self.runs = []  # one entry per AsyncExecutor invocation (a client running a task once)


class Harness:
    """Installs clock shims, simes and recording wrappers; restores everything in close()."""

    def __init__(self, scratch, script=None, pc_offset=0.0):
        self.clock = vclock.VClock()
        self.shim = vclock.TimeShim(self.clock, pc_offset=lambda: pc_offset)
        self.pc_offset = pc_offset
        self.sim = simes.SimES(self.clock, script)
        self.rec = Recorder()
        self.static_file = os.path.join(str(scratch), "static.json")
        if not os.path.exists(self.static_file):
            with open(self.static_file, "w") as f:
                f.write("[]")
        self._undo = []
        if not logging.getLogger().handlers:
            logging.getLogger().addHandler(logging.NullHandler())  # keep rally's warnings off stderr (no lastResort handler)
        self._install()

    def _install(self):
        self._undo.append(vclock.install_time_shims(self.shim))
        self.sim.install()
        self._undo.append(self.sim.uninstall)
        self._undo.append(install_recorders(self.rec, self.clock))

    def run(self, trk, task_allocations, on_error="continue", cancel=None, complete=None, cfg_extra=None, max_vt=None, max_iterations=2_000_000):
        """task_allocations: list of (client_id, TaskAllocation). Returns (sampler, exception or None)."""
        cfg = make_cfg(self.static_file, on_error, cfg_extra)
        sampler = driver.Sampler(start_timestamp=self.shim.perf_counter(), buffer_size=1 << 20)
        cancel = cancel or threading.Event()
        complete = complete or threading.Event()
        contexts = {cid: driver.ClientContext(client_id=cid, parent_worker_id=0) for cid, _ in task_allocations}
        allocs = [driver.ClientAllocation(cid, ta) for cid, ta in task_allocations]
        adapter = driver.AsyncIoAdapter(cfg, trk, allocs, sampler, cancel, complete, on_error, contexts, 0)
        loop = vclock.VirtualLoop(self.clock, max_vt=max_vt if max_vt is not None else 1e6, max_iterations=max_iterations)
        asyncio.set_event_loop(loop)
        exc = None
        try:
            loop.run_until_complete(adapter.run())
        except BaseException as e:  # the adapter re-raises what an executor raised
            exc = e
        finally:
            try:
                # nothing may be left to the garbage collector: a suspended coroutine closed later, inside another case, would run its
                # `finally` blocks there (see VThread.reap in simactor). Cancel what is left (budget hit; orphaned composite streams).
                try:
                    asyncio.events._set_running_loop(loop)
                    for _ in range(50):
                        pending = [t for t in asyncio.all_tasks(loop) if not t.done()]
                        if not pending:
                            break
                        for t in pending:
                            t.cancel()
                        n = 0
                        while loop._ready and n < 10000:
                            loop._run_once()
                            n += 1
                        if not loop._ready:
                            for hnd in list(loop._scheduled):
                                if not hnd._cancelled:
                                    hnd.cancel()
                                    loop._ready.append(asyncio.Handle(hnd._callback, hnd._args, loop, hnd._context))
                except BaseException:  # noqa - teardown only
                    pass
                finally:
                    asyncio.events._set_running_loop(None)
                loop.close()
            finally:
                asyncio.set_event_loop(None)
        return sampler, exc

    def close(self):
        for u in reversed(self._undo):
            u()
        self._undo = []
