"""One simulated race through rally's REAL command line, config, race control, mechanic, driver and worker actors.

run_race(case, scratch) writes a track directory for `case`, installs
  * engines.simactor.Kernel   - the deterministic actor system (replaces actor.bootstrap_actor_system),
  * engines.vclock time shims - per simulated process perf_counter origins, per host wall-clock skew,
  * engines.simes.SimES       - the simulated Elasticsearch behind the real async client,
  * recording wrappers        - schedule tuples, logical requests, Sampler.add, UpdateSamples, post-processing, hand-overs,
then runs `esrally race --pipeline=benchmark-only --track-path=... ...` via rally.dispatch_sub_command() and returns a Trace.
"""
import contextlib
import gc
import glob
import io
import json
import logging
import os
import random as _random
import shutil
import sys

from esrally import actor as rally_actor
from esrally import config, log, metrics, paths, racecontrol, rally, reporter
from esrally.driver import driver
from esrally.utils import console, net

from engines import execharness, simactor, simes
from props import c04_gen


class Trace:
    pass


# ---------------------------------------------------------------------------------------------------- track on disk
def task_json(t):
    d = {"name": t["name"], "operation": "op-" + t["name"], "clients": t["clients"]}
    for k_case, k_json in (("warmup_iterations", "warmup-iterations"), ("iterations", "iterations"), ("warmup_time_period", "warmup-time-period"),
                           ("time_period", "time-period"), ("target_throughput", "target-throughput"), ("target_interval", "target-interval"),
                           ("schedule", "schedule"), ("tags", "tags"), ("ignore_response_error_level", "ignore-response-error-level")):
        if t.get(k_case) is not None:
            d[k_json] = t[k_case]
    if t.get("meta") is not None:
        d["meta"] = t["meta"]
    return d


def track_json(case):
    ops, sched = [], []
    for el in case["elements"]:
        for t in el["tasks"]:
            if t.get("composite") is not None:
                params = {"name": "op-" + t["name"], "operation-type": "composite", "requests": t["composite"]}
            elif t.get("real_op") is not None:
                # one of rally's own operation types with its registered runner (most administrative ones sit behind runner.Retry)
                params = dict(t["real_op"], name="op-" + t["name"])
            else:
                params = {"name": "op-" + t["name"], "operation-type": t.get("op_type", "verif-op"), "param-source": "verif-source", "requests": t["requests"], "task": t["name"]}
                if t.get("finite") is not None:
                    params["finite"] = t["finite"]
                if t.get("op_meta") is not None:
                    params["meta"] = t["op_meta"]
            ops.append(params)
        if el.get("parallel"):
            p = {"tasks": [task_json(t) for t in el["tasks"]]}
            if el.get("clients_cap"):
                p["clients"] = el["clients_cap"]
            if el.get("completed_by"):
                p["completed-by"] = el["completed_by"]
            sched.append({"parallel": p})
        else:
            sched.append(task_json(el["tasks"][0]))
    return {"version": 2, "description": "verif generated track", "operations": ops,
            "challenges": [{"name": "verif-challenge", "default": True, "schedule": sched}]}


def write_track(case, directory):
    os.makedirs(directory, exist_ok=True)
    with open(os.path.join(directory, "track.json"), "w") as f:
        json.dump(track_json(case), f)
    return directory


# ---------------------------------------------------------------------------------------------------- delay profiles
ADVERSARIAL = {"JoinPointReached", "UpdateSamples", "CompleteCurrentTask", "Drive", "NodesStarted", "NodesStopped", "TaskFinished"}


def make_delay_profile(name, scale=1.0):
    def zero(s, r, m, rng):
        return 0.0

    def small(s, r, m, rng):
        return rng.random() * 0.01 * scale

    def heavy(s, r, m, rng):
        return min(30.0, rng.paretovariate(1.2) * 0.01) * scale

    def adversarial(s, r, m, rng):
        if type(m).__name__ in ADVERSARIAL and rng.random() < 0.6:
            return rng.choice([0.3, 1.0, 2.5, 6.0, 12.0]) * scale
        return rng.random() * 0.005

    return {"zero": zero, "small": small, "heavy": heavy, "adversarial": adversarial}[name]


# ---------------------------------------------------------------------------------------------------- the run
_home_ready = set()


def prepare_home(scratch, cores, ini_extra=None):
    home = os.environ["RALLY_HOME"] = os.path.join(str(scratch), "home")
    confdir = os.path.join(home, ".rally")
    if home not in _home_ready:
        os.makedirs(confdir, exist_ok=True)
        log.install_default_log_config()
        # actors only read levels from logging.json; keep every logger quiet and file-less
        with open(log.log_config_path(), "w") as f:
            json.dump({"version": 1, "root": {"level": "ERROR"}, "loggers": {}}, f)
        cfg = config.Config()
        if not cfg.config_present():
            cfg.install_default_config()
        _home_ready.add(home)
        if not logging.getLogger().handlers:
            logging.getLogger().addHandler(logging.NullHandler())
        logging.getLogger().setLevel(logging.ERROR)
    ini = os.path.join(confdir, "rally.ini")
    if home not in _ini_template:
        import re

        _ini_template[home] = re.sub(r"\n(available\.cores|sample\.queue\.size|metrics\.request\.downsample\.factor)\s*=.*", "", open(ini).read())
    text = _ini_template[home].replace("[system]", f"[system]\navailable.cores = {cores}", 1)
    for section, kv in (ini_extra or {}).items():
        add = "".join(f"\n{k} = {v}" for k, v in kv.items())
        text = text.replace(f"[{section}]", f"[{section}]{add}", 1)
    with open(ini, "w") as f:
        f.write(text)
    return home


_ini_template = {}


def run_race(case, scratch, extra_args=(), faults=None, instrument=None):
    """case keys: elements, hosts (list of load driver host names, 'localhost' first), cores, test_mode, delay, epsilon, seed,
    on_error, service script via case['svc'] per task. `faults`: callable(kernel, sim, tr) installing fault injection.
    `instrument`: callable(kernel, tr) -> undo, for property-specific recording wrappers."""
    tr = Trace()
    rng = _random.Random(f"race:{case['seed']}")
    home = prepare_home(scratch, case.get("cores", 2), case.get("ini"))
    race_id = f"verif-{case['seed']}-{rng.randrange(1 << 30)}"
    track_dir = write_track(case, os.path.join(str(scratch), "tracks", race_id))
    static_file = os.path.join(str(scratch), "static.json")
    if not os.path.exists(static_file):
        with open(static_file, "w") as f:
            f.write("[]")

    k = simactor.Kernel(
        rng, delay_profile=make_delay_profile(case.get("delay", "zero"), case.get("delay_scale", 1.0)), epsilon=case.get("epsilon", 0.0),
        max_steps=case.get("max_steps", 300000), max_vt=case.get("max_vt", 20000.0), stall_horizon=case.get("stall_horizon", 400.0),
    )
    hosts = case.get("hosts", ["localhost"])
    offs = _random.Random(f"offs:{case['seed']}")
    big = case.get("clock_offsets", True)
    k.proc_offset_fn = lambda cls, system: (offs.uniform(0, 1e4) if big else 0.0)
    k.add_system("coordinator", {"coordinator": True, "ip": "127.0.0.1"}, wall_skew=0.0)
    for h in hosts:
        if h != "localhost":
            k.add_system(h, {"coordinator": False, "ip": h}, wall_skew=(offs.uniform(-2, 2) if big else 0.0))
    if case.get("wakeup_jitter"):
        k.wakeup_jitter = lambda rec, period: rng.random() * case["wakeup_jitter"]
    k.wall_deadline = case.get("wall_deadline")
    tr.kernel = k

    sim = simes.SimES(k.clock, service_script(case), keep_bodies=case.get("keep_bodies", False))
    tr.sim = sim
    rec = execharness.Recorder()
    tr.rec = rec
    tr.to_racecontrol = []
    tr.to_external = []
    tr.update_samples = []
    tr.summaries = []
    tr.stored_races = []

    undo = []
    undo.append(k.install())
    sim.install()
    undo.append(sim.uninstall)
    undo.append(execharness.install_recorders(rec, k.clock))

    def observer(kernel, r, msg, sender):
        name = r.cls.__name__
        if name == "BenchmarkActor":
            tr.to_racecontrol.append((kernel.clock.now, type(msg).__name__, getattr(msg, "message", None)))
        elif name == "DriverActor" and type(msg).__name__ == "UpdateSamples":
            tr.update_samples.append((kernel.clock.now, msg.client_id, len(msg.samples)))

    k.observers.append(observer)

    def patch(obj, attr, value):
        old = getattr(obj, attr)
        setattr(obj, attr, value)
        undo.append(lambda: setattr(obj, attr, old))

    system = simactor.SimActorSystem(k)
    patch(rally_actor, "bootstrap_actor_system", lambda *a, **kw: system)
    own = case.get("own_actor_system")  # None: join a running system (nothing to shut down) | "clean" | "hangs": rally starts and shuts down its own
    if own is None:
        patch(rally_actor, "actor_system_already_running", lambda *a, **kw: True)
    else:
        state = {"down": False}
        orig_shutdown = system.shutdown

        def shutdown():
            state["down"] = True
            try:
                return orig_shutdown()
            except simactor.Budget:
                pass

        system.shutdown = shutdown
        # not running before rally starts it; after shutdown() it is either gone or - a hung load generator - still answering for good
        patch(rally_actor, "actor_system_already_running", lambda *a, **kw: state["down"] and own == "hangs")
    patch(rally.process, "find_all_other_rally_processes", lambda: [])
    patch(rally, "time", k.time_shim)
    patch(net, "resolve", lambda h: h)
    orig_summarize = reporter.summarize

    def summarize(results, cfg):
        tr.summaries.append(True)
        return orig_summarize(results, cfg)

    patch(reporter, "summarize", summarize)
    tr.benchmark_complete_sent_at = None
    orig_obc = driver.DriverActor.on_benchmark_complete

    def on_benchmark_complete(actor_self, m):
        tr.benchmark_complete_sent_at = k.clock.now
        return orig_obc(actor_self, m)

    patch(driver.DriverActor, "on_benchmark_complete", on_benchmark_complete)
    c04_gen.ensure_registered(execharness.make_cfg(static_file))
    if instrument is not None:
        undo.append(instrument(k, tr))
    if faults is not None:
        faults(k, sim, tr)

    argv = [
        "race", f"--race-id={race_id}", "--pipeline=benchmark-only", f"--track-path={track_dir}", "--target-hosts=127.0.0.1:9200", "--distribution-version=8.6.1",
        f"--client-options=static_responses:'{static_file}',enable_cleanup_closed:false", f"--on-error={case.get('on_error', 'continue')}",
        f"--load-driver-hosts={','.join(hosts)}", "--kill-running-processes" if False else "--quiet", "--offline",
    ]
    if case.get("test_mode"):
        argv.append("--test-mode")
    argv += list(extra_args)
    out = io.StringIO()
    tr.exit_status = None
    tr.exception = None
    _random.seed(case["seed"])
    # cyclic garbage is collected between races, never at an allocation-count-dependent moment inside one: finalisers (closing of
    # suspended coroutines, aiohttp's __del__ warnings) would otherwise run at points that depend on the history of the process
    gc.collect()
    gc.disable()
    try:
        with contextlib.redirect_stdout(out), contextlib.redirect_stderr(out):
            try:
                parser = rally.create_arg_parser()
                args = parser.parse_args(argv)
                console.init(quiet=True)
                cfg = config.Config(config_name=args.configuration_name)
                cfg.load_config(auto_upgrade=True)
                import datetime

                cfg.add(config.Scope.application, "system", "time.start", datetime.datetime(2026, 1, 1, 0, 0, 0))
                cfg.add(config.Scope.application, "node", "rally.root", paths.rally_root())
                cfg.add(config.Scope.application, "node", "rally.cwd", str(scratch))
                tr.cfg = cfg
                tr.exit_status = rally.dispatch_sub_command(parser, args, cfg).name
            except SystemExit as e:
                tr.exception = f"SystemExit({e.code})"
            except simactor.Budget as e:
                tr.exception = f"Budget({e})"
            except BaseException as e:  # noqa
                tr.exception = f"{type(e).__name__}: {e}"
            # let exit requests and anything still in flight settle for a bounded stretch of virtual time
            if not k.budget_exceeded:
                k.drain(300.0)
    finally:
        # nothing of this race may survive into the next race of the same process (see VThread.reap)
        hook = sys.unraisablehook
        sys.unraisablehook = lambda *a: None  # coroutines closed during teardown complain ("coroutine ignored GeneratorExit"): not of interest
        try:
            with contextlib.redirect_stdout(out), contextlib.redirect_stderr(out):
                for vt in list(k.threads):
                    vt.reap()
                gc.collect()
        except BaseException:  # noqa - teardown only
            pass
        finally:
            sys.unraisablehook = hook
        for u in reversed(undo):
            try:
                u()
            except Exception:
                pass
        gc.collect()
        gc.enable()
    tr.console = out.getvalue()
    tr.race_id = race_id
    tr.race_file = None
    files = glob.glob(os.path.join(home, ".rally", "benchmarks", "races", race_id, "race.json"))
    if files:
        try:
            tr.race_file = json.load(open(files[0]))
        except Exception as e:
            tr.race_file = {"unreadable": str(e)}
    tr.stalled = k.stalled
    tr.stall_reason = k.stall_reason
    tr.budget = k.budget_exceeded or (tr.exception or "").startswith("Budget")
    tr.fingerprint = tuple(k.fingerprint)
    tr.track_dir = track_dir
    if not case.get("keep_files"):
        shutil.rmtree(track_dir, ignore_errors=True)
        shutil.rmtree(os.path.join(home, ".rally", "benchmarks", "races", race_id), ignore_errors=True)
    return tr


def service_script(case):
    by_task = {}
    for el in case["elements"]:
        for t in el["tasks"]:
            by_task[t["name"]] = t.get("svc", {"mode": "const", "base": 0.05, "seed": 0})

    def script(rec):
        svc = by_task.get(rec["task"])
        if svc is None:
            return simes.Outcome()
        r = _random.Random(f"{svc['seed']}:{rec['client']}:{rec['logical']}:{rec['query'].get('i')}")
        base, mode = svc["base"], svc["mode"]
        if mode == "const":
            d = base
        elif mode == "zero":
            d = 0.0
        elif mode == "slow":
            d = base * r.choice([5, 20, 60])
        elif mode == "bursty":
            d = base * (r.choice([20, 50]) if r.random() < 0.2 else 1)
        elif mode == "per-client":
            d = base * (1 + (rec["client"] or 0) * svc.get("spread", 1.0))
        else:
            d = r.choice([0.0, base, base * 0.3, base * 7, base * 25])
        return simes.Outcome(before_headers=d * 0.5, before_body=d * 0.5)

    return script
