#!/bin/bash
# offline: contracts library beside the repository's interpreter, git-ignored
set -e
cd "$(dirname "$(readlink -f "$0")")"
if [ ! -d .deps/icontract ]; then
  PIP_NO_INDEX=1 /venv/bin/pip install --quiet --no-index --find-links /opt/veriftools/wheels --no-deps --target .deps icontract asttokens >/dev/null
fi
/venv/bin/python -c "import sys; sys.path.insert(0, '.deps'); import icontract, esrally; print('setup ok: icontract', icontract.__version__, 'esrally', esrally.__file__)"
