#!/bin/bash
# Offline setup: nothing has to be built or installed. The checks run on /venv/bin/python (rally's own interpreter, esrally installed
# editable from /repo) and use only the standard library plus what rally already depends on. This script verifies that.
set -e
cd "$(dirname "$(readlink -f "$0")")"
/venv/bin/python - <<'PY'
import sys
assert sys.version_info >= (3, 12), "sys.monitoring (fine preemption in C07) needs Python >= 3.12"
import esrally, thespian, aiohttp, elasticsearch, elastic_transport, ijson, jinja2, jsonschema, zstandard
print("setup ok: esrally from", esrally.__file__, "python", sys.version.split()[0])
PY
