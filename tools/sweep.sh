#!/bin/bash
# tools/sweep.sh <tier> <seed> [ids...]   runs the checks one after the other and prints one summary line each
cd "$(dirname "$(readlink -f "$0")")/.."
TIER=${1:-quick}; SEED=${2:-0}; shift 2
IDS=${@:-$(cat tools/registered.txt)}
for p in $IDS; do
  OUT=$(VERIF_SEED=$SEED ./check $p $TIER 2>&1); RC=$?
  echo "$p rc=$RC $(echo "$OUT" | grep -E "^\[$p\] tier" | sed 's/.*evaluations=/evals=/') $(echo "$OUT" | grep -c '^KNOWN-FINDING') known $(echo "$OUT" | grep -E '^VIOLATION|^INCONCLUSIVE' | head -2 | cut -c1-200)"
done
