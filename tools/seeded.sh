#!/bin/bash
# tools/seeded.sh <ID> [check-ID ...]   collect and confirm a seeded breaking change from /tmp/seed-<ID>, then run checks against it
# 1. patch + demo are copied to seeded/<ID>/   2. unit suite with the change   3. demo with / without the change   4. ./check on a scratch copy
set -u
cd "$(dirname "$(readlink -f "$0")")/.."
ID=$1; shift
W=/tmp/seed-$ID
OUT=seeded/$ID
mkdir -p "$OUT"
git -C "$W" diff -- esrally > "$OUT/patch.diff"
[ -s "$OUT/patch.diff" ] || { echo "NO PATCH in $W"; exit 3; }
DEMO=$(ls "$W"/verif_demo_* 2>/dev/null | head -1)
[ -n "$DEMO" ] || { echo "NO DEMO in $W"; exit 3; }
cp "$DEMO" "$OUT/"
DEMO_BASE=$(basename "$DEMO")
echo "--- patch: $(grep -c '^[+-][^+-]' "$OUT/patch.diff") changed lines in $(grep -c '^diff' "$OUT/patch.diff") file(s)"
/venv/bin/python -m compileall -q "$W/esrally" >/dev/null && echo "--- compiles: yes" || { echo "--- compiles: NO"; }
SUITE=$(cd "$W" && PYTHONPATH="$W" /venv/bin/python -m pytest -q -p no:cacheprovider --timeout=900 --continue-on-collection-errors tests 2>&1 | tail -1 | sed 's/\x1b\[[0-9;]*m//g')
echo "--- unit suite with the change: $SUITE"
run_demo() { (cd "$W" && if grep -q "def test_" "$DEMO_BASE"; then PYTHONPATH="$W" timeout 600 /venv/bin/python -m pytest -q -p no:cacheprovider "$DEMO_BASE" >/dev/null 2>&1; else PYTHONPATH="$W" timeout 600 /venv/bin/python "$DEMO_BASE" >/dev/null 2>&1; fi; echo $?); }
WITH=$(run_demo)
# never `git stash` here: the stash is shared between all worktrees of /repo
git -C "$W" apply -R "$PWD/$OUT/patch.diff"
WITHOUT=$(run_demo)
git -C "$W" apply "$PWD/$OUT/patch.diff"
echo "--- demo exit with the change: $WITH (must be != 0), without: $WITHOUT (must be 0)"
RES=""
for C in "${@:-$ID}"; do
  R=$(selftest/mutate.sh "$C" "$OUT/patch.diff" 2>&1 | grep -v KNOWN | tail -3 | cut -c1-400)
  echo "--- ./check $C quick against the change:"; echo "$R"
  RES="$RES $C:$(echo "$R" | tail -1 | cut -d' ' -f1)"
done
echo "SUMMARY $ID suite=[$SUITE] demo_with=$WITH demo_without=$WITHOUT checks=$RES"
