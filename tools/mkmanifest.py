#!/usr/bin/env python3
"""Regenerates MANIFEST.json from the property modules present under props/.

Every props/cNN.py carries a MANIFEST dict (level text, note, technique, design_ref, engine).
Properties without a module are listed under not_applicable with the reason given in PENDING.
"""
import importlib
import json
import os
import sys
from pathlib import Path

VERIF = Path(__file__).resolve().parent.parent
sys.path.insert(0, str(VERIF))
sys.path.insert(0, str(VERIF / ".deps"))

PENDING_REASON = "check not built yet in this session; planned per DESIGN.md section 8 (runtime monitoring applies)"
NOT_APPLICABLE = {}  # property id -> reason, for properties this family genuinely cannot decide

HOOK_COMMITS = []  # guarded instrumentation commits in /repo (none: all instrumentation is applied from the harness)

ENGINES = [
    {"name": "vlib", "path": "vlib/core.py", "kind_free_text": "sharded subprocess runner, three-valued verdicts, evidence writer, known-findings classifier"},
]


REGISTERED = set((VERIF / "tools" / "registered.txt").read_text().split())  # checks that were swept on the unchanged tree and self-tested


def main():
    ids = [json.loads(l)["id"] for l in (VERIF / "properties.jsonl").read_text().splitlines() if l.strip()]
    checks, na = [], []
    served = {}
    for pid in ids:
        path = VERIF / "props" / f"{pid.lower()}.py"
        if pid in NOT_APPLICABLE:
            na.append({"property_id": pid, "reason": NOT_APPLICABLE[pid]})
            continue
        if not path.exists() or pid not in REGISTERED:
            na.append({"property_id": pid, "reason": PENDING_REASON})
            continue
        mod = importlib.import_module(f"props.{pid.lower()}")
        m = mod.MANIFEST
        checks.append(
            {
                "property_id": pid,
                "quick_cmd": f"./check {pid} quick",
                "thorough_cmd": f"./check {pid} thorough",
                "evidence_file": f"evidence/{pid}.json",
                "replay_cmd_template": f"./check {pid} --replay {{path}}",
                "engine": m.get("engine", "vlib"),
                "level_claimed": {"category": mod.LEVEL, "text": m["text"], "design_ref": m.get("design_ref", f"DESIGN.md section 4, {pid}")},
                "level_note": m["note"],
                "technique": m["technique"],
            }
        )
        for e in m.get("engines", []):
            served.setdefault(e, []).append(pid)
        served.setdefault("vlib", []).append(pid)
    engines = []
    for e in ENGINES + getattr(sys.modules[__name__], "EXTRA_ENGINES", []):
        e = dict(e)
        e["serves_properties"] = served.get(e["name"], [])
        engines.append(e)
    manifest = {
        "version": 1,
        "setup_cmd": "./setup.sh",
        "hooks": {
            "guard": "ELASTIC_RALLY_VERIF",
            "enable": "checks export ELASTIC_RALLY_VERIF=1; no source hook exists in /repo - all instrumentation is applied from the harness at run time (module attributes, actor _myRef, event-loop substitution, wrappers)",
            "baseline_off_cmd": "cd /repo && env -u ELASTIC_RALLY_VERIF /venv/bin/python -m pytest -ra -q -p no:cacheprovider --timeout=900 --continue-on-collection-errors",
            "source_commits": HOOK_COMMITS,
            "add_only": True,
        },
        "engines": engines,
        "checks": checks,
        "notes": "Technique family: runtime monitoring (monitors written for this codebase; esrally is pure Python so compiler sanitizers have nothing to instrument - DESIGN.md section 1). Exit codes: 0 held, 1 violated (VIOLATION line), 2 inconclusive. Known findings: known_findings.txt.",
        "not_applicable": na,
    }
    (VERIF / "MANIFEST.json").write_text(json.dumps(manifest, indent=1) + "\n")
    print(f"MANIFEST.json: {len(checks)} checks, {len(na)} not claimed")


EXTRA_ENGINES = [
    {"name": "vclock", "path": "engines/vclock.py", "kind_free_text": "virtual-time asyncio loop + time shims"},
    {"name": "simactor", "path": "engines/simactor.py", "kind_free_text": "deterministic actor kernel hosting the real esrally actor classes (FIFO per pair, retry-then-poison, wake-ups, exit propagation)"},
    {"name": "simes", "path": "engines/simes.py", "kind_free_text": "simulated Elasticsearch behind the real client stack; ground-truth request log"},
    {"name": "race", "path": "engines/race.py", "kind_free_text": "one simulated race through the real racecontrol.race() and its recorded trace"},
]
EXTRA_ENGINES = [e for e in EXTRA_ENGINES if (VERIF / e["path"]).exists()]

if __name__ == "__main__":
    main()
