#!/bin/bash
# tools/seededN.sh <round> <ID> <A|B|C> [check-ID ...]   seeded changes of round N: /tmp/seed<N>-<ID>/change_<X>.patch + verif_demo_<ID>_<X>.py
# confirms the change (compiles, unit suite = baseline, demo fails with / passes without) in the agent's worktree, copies it to
# seeded/<ID>-r<N><X>/ and runs the quick tier of the named checks against a scratch copy of /repo with the change (selftest/mutate.sh)
set -u
cd "$(dirname "$(readlink -f "$0")")/.."
N=$1; ID=$2; X=$3; shift 3
W=/tmp/seed$N-$ID
OUT=seeded/$ID-r$N$X
P="$W/change_$X.patch"
[ -s "$P" ] || { echo "NO PATCH $P"; exit 3; }
DEMO=$(ls "$W"/verif_demo_${ID}_$X* 2>/dev/null | head -1)
[ -n "$DEMO" ] || { echo "NO DEMO for $ID $X"; exit 3; }
mkdir -p "$OUT"; cp "$P" "$OUT/patch.diff"; cp "$DEMO" "$OUT/"
DEMO_BASE=$(basename "$DEMO")
[ -z "$(git -C "$W" status --short -- esrally)" ] || { echo "WORKTREE NOT CLEAN: $(git -C "$W" status --short -- esrally | head -3)"; git -C "$W" checkout -- esrally; }
run_demo() { (cd "$W" && if grep -q "def test_" "$DEMO_BASE"; then PYTHONPATH="$W" timeout 900 /venv/bin/python -m pytest -q -p no:cacheprovider "$DEMO_BASE" >/dev/null 2>&1; else PYTHONPATH="$W" timeout 900 /venv/bin/python "$DEMO_BASE" >/dev/null 2>&1; fi; echo $?); }
WITHOUT=$(run_demo)
git -C "$W" apply "$P" || { echo "PATCH DOES NOT APPLY"; exit 3; }
/venv/bin/python -m compileall -q "$W/esrally" >/dev/null && COMP=yes || COMP=NO
SUITE=$(cd "$W" && PYTHONPATH="$W" /venv/bin/python -m pytest -q -p no:cacheprovider --timeout=900 --continue-on-collection-errors tests 2>&1 | tail -1 | sed 's/\x1b\[[0-9;]*m//g')
WITH=$(run_demo)
git -C "$W" apply -R "$P"
echo "--- $ID/$X: $(grep -c '^[+-][^+-]' "$OUT/patch.diff") changed lines in $(grep '^+++' "$OUT/patch.diff" | tr '\n' ' ') compiles=$COMP"
echo "--- unit suite with the change: $SUITE"
echo "--- demo exit with the change: $WITH (must be != 0), without: $WITHOUT (must be 0)"
RES=""
for C in "${@:-$ID}"; do
  R=$(selftest/mutate.sh "$C" "$OUT/patch.diff" 2>&1 | grep -v KNOWN | tail -3 | cut -c1-400)
  echo "--- ./check $C quick against the change:"; echo "$R"
  RES="$RES $C:$(echo "$R" | tail -1 | cut -d' ' -f1)"
done
echo "SUMMARY $ID/$X suite=[$SUITE] demo_with=$WITH demo_without=$WITHOUT checks=$RES"
