#!/bin/bash
# tools/round.sh <round> <letters> <ID...>   confirms and runs the seeded changes of one round: per ID the letters one after the other
# (mutate.sh saves/restores the evidence file of the ID), up to $PAR IDs side by side. Logs: /tmp/r<round>/<ID>_<X>.log
cd "$(dirname "$(readlink -f "$0")")/.."
N=$1; LETTERS=$2; shift 2
mkdir -p /tmp/r$N
one() { for X in $(echo $LETTERS | fold -w1); do [ -s /tmp/seed$N-$1/change_$X.patch ] && tools/seededN.sh $N $1 $X > /tmp/r$N/$1_$X.log 2>&1; done; grep -h ^SUMMARY /tmp/r$N/$1_*.log; }
export -f one; export N LETTERS
printf '%s\n' "$@" | xargs -P ${PAR:-4} -I{} bash -c 'one {}'
