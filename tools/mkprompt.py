#!/usr/bin/env python3
"""tools/mkprompt.py <round> <ID> [letters]  prints the prompt a seeding sub-agent gets (property text + its scratch worktree; nothing of /verif)."""
import json, sys, os
rnd, pid = sys.argv[1], sys.argv[2]
letters = (sys.argv[3] if len(sys.argv) > 3 else "AB")
here = os.path.dirname(os.path.dirname(os.path.abspath(__file__)))
prop = next(p for p in map(json.loads, open(os.path.join(here, "properties.jsonl"))) if p["id"] == pid)
W = f"/tmp/seed{rnd}-{pid}"
names = {"A": "A", "B": "B", "C": "C"}
count = {1: "ONE", 2: "TWO", 3: "THREE"}[len(letters)]
lst = ", ".join(letters[:-1]) + " and " + letters[-1] if len(letters) > 1 else letters
demos = ", ".join(f"{W}/verif_demo_{pid}_{x}.py" for x in letters)
patches = ", ".join(f"{W}/change_{x}.patch" for x in letters)
print(f"""You are helping evaluate a verification framework for the Python project elastic/rally (Elastic's macrobenchmarking tool for Elasticsearch). You get ONE semantic property of rally and your own scratch git worktree of the repository at {W} (detached at the current HEAD of /repo).

Your job: write {count} different, independent code changes to rally (files under {W}/esrally/), called {lst}, each of which on its own BREAKS this property while
 (1) everything still compiles / imports, and
 (2) rally's existing unit test suite still passes unchanged. Run it with:
     cd {W} && PYTHONPATH={W} /venv/bin/python -m pytest -q -p no:cacheprovider --timeout=900 --continue-on-collection-errors tests
     (Three test modules fail to COLLECT because of missing packages - tests/client/factory_test.py, tests/utils/git_test.py, tests/utils/net_test.py - and tests/mechanic/launcher_test.py::TestProcessLauncher::test_daemon_start_stop fails in this sandbox even without any change: ignore exactly those. Expect about 1268 passed.)

{lst} must differ in mechanism and in the function or file they touch: look at DIFFERENT parts of what the property covers (different clauses of the statement, different code paths). This is round {rnd} of the same exercise. Earlier rounds have used the obvious sites inside the anchored files and the common slips (truthiness on 0, off-by-one, characters vs bytes, shared mutable state on reused instances, a dropped re-raise, late-binding closures, generators consumed twice, cached derived values, swapped statement order, wrong variable of two similar ones, dropped `+=`, a lost await, a return inside finally), so repeating those is of little value. This round, prefer:
 - TWO COOPERATING SITES: a change in one function that is harmless by itself plus a matching "simplification" in another function (or module) so that only their combination breaks the property; or a change in a HELPER that the anchored code calls (esrally/utils/*.py such as io, convert, opts, versions, net, process, collections, modules; esrally/config.py and configuration defaults; esrally/track/params.py, esrally/track/loader.py; esrally/client/*; esrally/metrics.py; esrally/types.py), whose effect on the property is indirect;
 - HISTORY-DEPENDENT behaviour: correct on the first call/step/batch/file and wrong only on a later one, after a handled error, after a retry, after a restart with left-over state on disk, when two features are combined (task filters + parallel, test mode, on-error policy, profiling, ramp-up, warm-up + time period, several clusters, several corpora, several cars, several hosts), or on a documented but rarely used configuration value;
 - INPUT EDGES that are valid per the documentation (/tmp/seed{rnd}-{pid}/docs) but rare: exact boundaries of documented limits, values given as strings instead of numbers, unicode / CRLF / trailing blanks, empty collections, very large values, names that collide with other names.
Work like this: (1) list the clauses and quantifier words of the property text; (2) for each, find the code that makes it true and ALSO the code that feeds it (callers, data classes, (de)serialisation such as pickling of actor messages or JSON round trips, configuration lookups and their defaults, helper functions in other modules); (3) pick the places that look LEAST likely to be exercised by a test that drives the main mechanism with generated inputs.

Each change must be the kind of defect a developer could plausibly introduce (refactoring slip, wrong comparison, missed case, reordered statements, stale or shared state, a dropped call, a wrong default), not a gratuitous or obviously malicious edit, and it must need something SPECIFIC to manifest: a particular interleaving or message order, a crash or fault at a particular point, a multi-step sequence of operations, an unusual but valid input, or two cooperating sites that each look fine alone. It must NOT be something that ordinary use or the simplest input would expose at once. Keep each small (a few lines, one or two sites). The observable effect must be a violation of THIS property's statement (say which clause), not merely of some other behaviour.

For each change write a demonstration: a small pytest file or plain script ({demos}; NOT inside tests/) that FAILS (non-zero exit) with that change and PASSES (exit 0) without it. Verify both directions yourself. The demo may drive rally's real classes/functions directly (mocks for the network are fine) and must finish within a minute.

Workflow and deliverables (important):
 - Work on one change at a time. When a change is done, save it with `git -C {W} diff -- esrally > {W}/change_<letter>.patch`, then remove it from the tree with `git -C {W} apply -R {W}/change_<letter>.patch` before starting the next. Deliverables: {patches}.
 - To test a demo with / without a change use `git -C {W} apply <patch>` and `git -C {W} apply -R <patch>`. NEVER use `git stash` (the stash is shared between all worktrees of the repository and other agents work in parallel).
 - At the end the worktree must contain NO applied change (git status shows only the untracked patch and demo files).
 - Run the full unit suite once with each change applied.

Hard rules: do not read, list or use anything under /verif (off limits - your changes must be independent of it); do not touch /repo itself or any other /tmp/seed* directory; work only in {W}; do not commit.

Final report (concise), for each change: (a) the change (file, lines, what it does); (b) which clause of the property it breaks and what exactly is needed for it to manifest; (c) results: unit suite with the change, demo with the change (must fail), demo without the change (must pass).
Then add a section OBSERVATIONS ABOUT THE UNCHANGED CODE: while reading, you will have noticed behaviour of the UNCHANGED rally code that seems to contradict the property as stated (for some valid input, message order, fault or history). List every such suspicion with the concrete input / sequence and what happens (try it if cheap). These remarks are valuable; do not omit them.

THE PROPERTY ({prop['id']}: {prop['title']})
Statement: {prop['statement']}
Quantified over: {prop['quantifier']['text']}
Code anchors (where the mechanism lives): {', '.join(prop['anchors']['files'])}
""")
