"""C16, second workload class: the retry loop behind rally's real asynchronous client.

The scripted class raises ready-made exceptions. Which exception an HTTP answer becomes is decided below the runner, in
RallyAsyncElasticsearch.perform_request - and "retried only after timeouts (HTTP 408 ...)" is only as good as that translation. Here a
`cluster-health` task (registered as Retry(ClusterHealth())) runs through rally's real executor, runner registry, client and elastic-transport
against the simulated node on a virtual clock; the outcome alphabet is realised as HTTP answers whose error bodies come in the shapes real
clusters, proxies and load balancers produce. The reference interpreter of the scripted class says how many requests must be seen, how far
apart, and how the operation must end.
"""
import json

from esrally.driver import driver
from esrally.track import track

from engines import execharness, simes, vclock
from props import c04_gen

KINDS = ["ok", "fail", "ctimeout", "api408", "api404", "api400", "api500"]
SHAPES = ["dict", "dict", "string", "no-error-member", "empty", "html", "empty-root-cause"]
REASONS = {408: "request_timeout_exception", 404: "index_not_found_exception", 400: "illegal_argument_exception", 500: "illegal_state_exception"}
HEALTH = '{"cluster_name":"sim","status":"%s","timed_out":%s,"number_of_nodes":1,"number_of_data_nodes":1,"active_primary_shards":1,"active_shards":1,"relocating_shards":0,"initializing_shards":0,"unassigned_shards":0}'


def error_body(status, shape):
    etype = REASONS[status]
    if shape == "dict":
        return json.dumps({"error": {"root_cause": [{"type": etype, "reason": "scripted"}], "type": etype, "reason": "scripted"}, "status": status}).encode(), None
    if shape == "empty-root-cause":
        return json.dumps({"error": {"root_cause": [], "type": etype, "reason": "scripted"}, "status": status}).encode(), None
    if shape == "string":
        return json.dumps({"error": f"{etype}: scripted (plain string)", "status": status}).encode(), None
    if shape == "no-error-member":
        # what Elasticsearch answers when wait_for_status times out: the health document itself, with status 408
        return (HEALTH % ("red", "true")).encode(), None
    if shape == "html":
        return f"<html><body><h1>{status}</h1></body></html>".encode(), {"content-type": "text/html"}
    return b"", None


def gen_case(rng):
    n = rng.choice([1, 2, 2, 3, 4])
    script = [rng.choice(KINDS) for _ in range(n)]
    if rng.random() < 0.5:
        script = [rng.choice(["api408", "ctimeout", "fail", "api408"]) for _ in range(n)]
    params = {}
    if rng.random() < 0.8:
        params["retries"] = rng.choice([0, 1, 2, 3, 5])
    if rng.random() < 0.5:
        params["retry-wait-period"] = rng.choice([0, 0.5, 3])
    if rng.random() < 0.4:
        params["retry-on-timeout"] = rng.choice([True, False])
    if rng.random() < 0.5:
        params["retry-on-error"] = rng.choice([True, False])
    if rng.random() < 0.1:
        params["retry-until-success"] = True
    return {"script": script, "shapes": [rng.choice(SHAPES) for _ in range(12)], "params": params}


def one_case(ctx, c16, rng, explicit=None):
    case = explicit or gen_case(rng)
    script, params = list(case["script"]), case["params"]
    exp = c16.reference(script, params, False)

    def node(rec):
        if not rec["path"].startswith("/_cluster/health"):
            return simes.Outcome()
        i = sum(1 for r in h.sim.log if r["path"].startswith("/_cluster/health")) - 1
        kind = c16.kind_at(script, i)
        out = simes.Outcome(before_headers=0.25)
        if kind == "ok":
            out.body = (HEALTH % ("green", "false")).encode()
        elif kind == "fail":
            out.body = (HEALTH % ("red", "false")).encode()
        elif kind == "ctimeout":
            out.fail = "timeout"
        else:
            out.status = int(kind[3:])
            out.body, out.headers = error_body(out.status, case["shapes"][i % len(case["shapes"])])
        return out

    h = execharness.Harness(ctx.scratch, node)
    problems = []
    try:
        c04_gen.ensure_registered(execharness.make_cfg(h.static_file))
        op_params = dict(params)
        op_params["request-params"] = {"wait_for_status": "green"}
        op = track.Operation("health", "cluster-health", params=op_params)
        task = track.Task("health-task", op, warmup_iterations=0, iterations=1, clients=1)
        trk = track.Track("verif", challenges=[track.Challenge("c", default=True, schedule=[task])])
        allocs = [(cid, ta) for cid, row in enumerate(driver.Allocator([task]).allocations) for ta in row if isinstance(ta, driver.TaskAllocation)]
        sampler, exc = h.run(trk, allocs, on_error="continue")
    finally:
        h.close()
    if isinstance(exc, vclock.BudgetExceeded):
        ctx.case(["client", case], False, ())
        return problems
    wires = [r for r in h.sim.log if r["path"].startswith("/_cluster/health")]
    kinds = [c16.kind_at(script, i) for i in range(max(exp["attempts"], min(len(wires), 8)))]
    shapes = [case["shapes"][i % len(case["shapes"])] if kinds[i].startswith("api") else "-" for i in range(len(kinds))]
    desc = f"cluster-health through the real client, answers {list(zip(kinds, shapes))} with {params or '{}'}"
    feats = {"class-client"}
    for k, sh in zip(kinds[: exp["attempts"]], shapes):
        if k.startswith("api") and sh not in ("dict", "-"):
            feats.add("client:error-body-" + sh)
    if "api408" in kinds[: exp["attempts"] - 1]:
        feats.add("client:408-retried")
    ctx.clause("client:attempts")
    if exc is not None:
        problems.append(("client:attempts", f"{desc}: the executor died with {type(exc).__name__}: {str(exc)[:200]} instead of recording the request as failed", None))
    elif len(wires) != exp["attempts"]:
        problems.append(("client:attempts", f"{desc}: {len(wires)} requests were sent, the configuration asks for {exp['attempts']} ({exp['stop']})", None))
    else:
        ctx.clause("client:wait-period")
        gaps = [wires[i + 1]["vt_start"] - wires[i]["vt_end"] for i in range(len(wires) - 1)]
        for i, w in enumerate(exp["waits"]):
            if abs(gaps[i] - w) > 1e-6:
                problems.append(("client:wait-period", f"{desc}: {gaps[i]!r}s between request {i + 1} and {i + 2}, retry-wait-period is {w}", None))
                break
        ctx.clause("client:final-outcome")
        samples = h.rec.samples
        last = c16.kind_at(script, exp["final"][1])
        if len(samples) != 1:
            problems.append(("client:final-outcome", f"{desc}: {len(samples)} samples for one operation", None))
        else:
            meta = samples[0]["meta"] or {}
            ok = meta.get("success")
            if last == "ok" and ok is not True:
                problems.append(("client:final-outcome", f"{desc}: the deciding attempt succeeded but the sample says success={ok!r} ({meta})", None))
            if last != "ok" and ok is not False:
                problems.append(("client:final-outcome", f"{desc}: the deciding attempt ('{last}') did not succeed but the sample says success={ok!r}", None))
            if last.startswith("api") and meta.get("http-status") != int(last[3:]):
                problems.append(("client:final-outcome", f"{desc}: the operation must end with what attempt {exp['final'][1] + 1} produced (HTTP {last[3:]}); the sample carries http-status {meta.get('http-status')!r}, error-type {meta.get('error-type')!r}, description {str(meta.get('error-description'))[:80]!r}", None))
    ctx.case(["client", case], exp["attempts"] >= 2 or last != "ok" if not problems or True else True, feats)
    if exp["attempts"] <= 3:
        ctx.sample({"class": "client", "case": case, "requests": [{"vt_start": r["vt_start"], "vt_end": r["vt_end"], "status": r["status"], "fail": r["fail"]} for r in wires][:6]}, tag="client")
    for clause, msg, detail in problems[:2]:
        ctx.violation(clause, {"class": "client", "case": case}, msg)
    return problems
