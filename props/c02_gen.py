"""Shared by C02 and C11: generated challenge schedules (plain data), builders that turn them into real
esrally.track objects (directly or through the real TrackSpecificationReader), application of task filters
through the real command-line parsing helper and the real TaskFilterTrackProcessor, host layouts, and a
generic shrinker for the plain-data cases.

A case is plain JSON-able data so that witnesses are readable and replayable:

    {"challenges": [{"name": "c0", "schedule": [ELEMENT, ...]}, ...],
     "ops": {"<operation name>": "<operation type>"},
     "filter": {"mode": "include" | "exclude" | None, "spec": "<the command line value>"},
     "hosts": [{"host": "h0", "cores": 4}, ...],
     "via_loader": bool}
    ELEMENT = {"t": TASK} | {"p": {"cap": int | None, "cb": None | "any" | "<task name>", "tasks": [TASK, ...]}}
    TASK    = {"name", "op", "clients", "tags": None | str | [str], + optional "it", "wit", "tp", "wtp", "sched", "tput", "meta"}
"""
import copy

from esrally import config
from esrally.track import loader, track
from esrally.utils import opts

OP_TYPES = ["bulk", "search", "force-merge", "create-index", "raw-request", "custom-type", "custom_type", "index", "sleep"]  # custom types of a track's own runners: any string
# operation names deliberately overlap with operation types, tags and task names so that a filter of one kind
# that is evaluated against the wrong attribute selects a different set of tasks
OP_NAMES = ["index", "search", "bulk", "term", "match-all", "force-merge", "Index", "index-append", "stats", "scroll", "setup", "read-op"]
TAGS = ["setup", "read-op", "write-op", "slow", "index", "search", "read", "term"]
EXTRA_NAMES = ["warmup", "term", "phrase", "Search", "read", "slow", "type", "tag", "index-update", "bulk "]
CLIENTS_SEQ = [1, 1, 1, 1, 2, 2, 3, 4, 5, 7, 8, 8, 16, 31, 32, 63, 64]
CLIENTS_PAR = [1, 1, 1, 2, 2, 3, 4, 5, 8, 13, 16, 32]


# ----------------------------------------------------------------------------------------------------------------
# generator
# ----------------------------------------------------------------------------------------------------------------
def _task(rng, ops, used, in_parallel):
    op = rng.choice(list(ops))
    if op not in used and rng.random() < 0.5:
        name = op  # default: a task is named after its operation
    else:
        name = rng.choice(OP_NAMES + EXTRA_NAMES + [op])
        n = 0
        base = name
        while name in used:
            n += 1
            name = f"{base}-{n}"
    used.add(name)
    t = {"name": name, "op": op, "clients": rng.choice(CLIENTS_PAR if in_parallel else CLIENTS_SEQ)}
    r = rng.random()
    if r < 0.35:
        t["tags"] = None
    elif r < 0.55:
        t["tags"] = rng.choice(TAGS)
    else:
        t["tags"] = rng.sample(TAGS, rng.randint(1, 3))
    r = rng.random()
    if r < 0.3:
        t["it"] = rng.choice([1, 10, 100, 1000])
        if rng.random() < 0.5:
            t["wit"] = rng.choice([0, 5, 50])
    elif r < 0.5:
        t["tp"] = rng.choice([1, 30, 600])
        if rng.random() < 0.5:
            t["wtp"] = rng.choice([0, 10, 120])
    if rng.random() < 0.2:
        t["sched"] = rng.choice(["deterministic", "poisson"])
    if rng.random() < 0.2:
        t["tput"] = rng.choice([1, 10, 1000])
    if rng.random() < 0.15:
        t["meta"] = {"k": rng.randint(0, 9)}
    return t


def gen_schedule(rng, ops, max_elements=12):
    n = rng.choice([1, 2, 2, 3, 3, 3, 4, 4, 5, 6, 8, 10, 12, 12])
    n = min(n, max_elements)
    used = set()
    schedule = []
    for _ in range(n):
        if rng.random() < 0.5:
            schedule.append({"t": _task(rng, ops, used, False)})
            continue
        k = rng.choice([1, 2, 2, 2, 3, 3, 4, 5])
        tasks = [_task(rng, ops, used, True) for _ in range(k)]
        while sum(t["clients"] for t in tasks) > 64:
            max(tasks, key=lambda t: t["clients"])["clients"] = 1
        total = sum(t["clients"] for t in tasks)
        r = rng.random()
        if r < 0.4:
            cap = None
        elif r < 0.6:
            cap = rng.randint(1, max(1, total - 1))  # over-commit: fewer clients than the sub-tasks ask for
        else:
            cap = rng.randint(1, total + 3)
        r = rng.random()
        if r < 0.5:
            cb = None
        elif r < 0.75:
            cb = "any"
        else:
            cb = rng.choice(tasks)["name"]
        schedule.append({"p": {"cap": cap, "cb": cb, "tasks": tasks}})
    return schedule


def leaf_specs(schedule):
    for e in schedule:
        if "t" in e:
            yield e["t"]
        else:
            yield from e["p"]["tasks"]


def norm_tags(t):
    tags = t.get("tags")
    if tags is None:
        return []
    return [tags] if isinstance(tags, str) else list(tags)


def _near_miss(rng, s):
    r = rng.random()
    if r < 0.3:
        return s.swapcase()
    if r < 0.5:
        return s[:-1] if len(s) > 1 else s + "x"
    if r < 0.7:
        return s + "x"
    if r < 0.85:
        return s.capitalize()
    return s.split("-")[0]


def gen_filter(rng, case, allow_none=True):
    """Returns {"mode", "spec"}: 1-4 well-formed filters of mixed kinds aimed at the generated names / types / tags."""
    if allow_none and rng.random() < 0.2:
        return {"mode": None, "spec": None}
    mode = rng.choice(["include", "exclude", "exclude"])
    ch = rng.choice(case["challenges"])
    leaves = list(leaf_specs(ch["schedule"]))
    pars = [e["p"] for e in ch["schedule"] if "p" in e]
    items = []
    r = rng.random()
    if pars and r < 0.30:
        # aim at one parallel element: all / all but one / one of its tasks, by name or by what they have in common
        p = rng.choice(pars)
        names = [t["name"] for t in p["tasks"]]
        how = rng.random()
        if how < 0.5:
            items = list(names)
        elif how < 0.7:
            items = names[:-1] or names
        elif how < 0.8:
            items = [rng.choice(names)]
        elif how < 0.9:
            items = sorted({"type:" + case["ops"][t["op"]] for t in p["tasks"]})
        else:
            common = set(norm_tags(p["tasks"][0]))
            for t in p["tasks"][1:]:
                common &= set(norm_tags(t))
            items = ["tag:" + sorted(common)[0]] if common else list(names)
        rng.shuffle(items)
        if rng.random() < 0.3 and leaves:
            items.append(rng.choice(leaves)["name"])
    elif r < 0.36 and leaves:
        items = [t["name"] for t in leaves]  # everything, by name
    elif r < 0.40:
        items = ["type:" + ty for ty in sorted(set(case["ops"].values()))]  # everything, by type
    else:
        for _ in range(rng.choice([1, 1, 2, 2, 3, 4])):
            kind = rng.random()
            leaf = rng.choice(leaves) if leaves else {"name": "x", "op": next(iter(case["ops"])), "tags": None}
            if kind < 0.45:
                v = leaf["name"]
                q = rng.random()
                if q < 0.15:
                    v = _near_miss(rng, v)
                elif q < 0.25:
                    v = rng.choice([case["ops"][leaf["op"]], leaf["op"]] + norm_tags(leaf))  # a type / op name / tag used as a name
                items.append(v)
            elif kind < 0.75:
                v = case["ops"][leaf["op"]]
                q = rng.random()
                if q < 0.15:
                    v = _near_miss(rng, v)
                elif q < 0.30:
                    v = rng.choice([leaf["op"], leaf["name"]])  # an operation / task *name* used as a type
                items.append("type:" + v)
            else:
                tags = norm_tags(leaf)
                v = rng.choice(tags) if tags else rng.choice(TAGS)
                q = rng.random()
                if q < 0.15:
                    v = _near_miss(rng, v)
                elif q < 0.25:
                    v = rng.choice([leaf["name"], "read", "".join(tags)])  # substring / concatenation of tags, or a name
                items.append("tag:" + v)
    items = [i for i in items if "," not in i and i.strip() == i and i.count(":") <= 1][:70] or ["no-such-task"]
    sep = rng.choice([",", ",", ", ", " , "])
    return {"mode": mode, "spec": sep.join(items)}


MALFORMED = ["a:b:c", "op-type:index", "foo:bar", "type:a:b", "tags:setup", "types:search", "name:index", "Type:search", "TAG:setup", "tag:a:", "::"]


def gen_malformed_filter(rng, case):
    f = gen_filter(rng, case, allow_none=False)
    items = [i.strip() for i in f["spec"].split(",")]
    bad = rng.choice(MALFORMED)
    items.insert(rng.randint(0, len(items)), bad)
    if rng.random() < 0.2:
        items = [bad]
    return {"mode": f["mode"], "spec": ",".join(items), "malformed": bad}


def gen_hosts(rng, small=True):
    n = rng.choice([1, 1, 1, 2, 2, 3] if small else [1, 1, 2, 2, 3, 4, 5, 6, 7, 8, 8])
    return [{"host": f"h{i}", "cores": rng.choice([1, 2, 2, 3, 4, 8, 16, 64] if small else [1, 1, 2, 3, 4, 6, 8, 12, 16, 31, 32, 48, 63, 64])} for i in range(n)]


def gen_case(rng, max_challenges=1):
    nops = rng.randint(2, 7)
    names = rng.sample(OP_NAMES, nops)
    ops = {n: rng.choice(OP_TYPES) for n in names}
    case = {"ops": ops, "challenges": []}
    for ci in range(rng.randint(1, max_challenges)):
        case["challenges"].append({"name": f"c{ci}", "schedule": gen_schedule(rng, ops)})
    case["filter"] = gen_filter(rng, case)
    case["hosts"] = gen_hosts(rng)
    case["via_loader"] = rng.random() < 0.15
    return case


def gen_layout(rng):
    hosts = gen_hosts(rng, small=False)
    r = rng.random()
    if r < 0.25:
        clients = rng.randint(1, 12)
    elif r < 0.6:
        clients = rng.randint(1, 200)
    else:
        clients = rng.randint(1, 2048)
    if rng.random() < 0.15:
        # exact multiples and their neighbours
        total = sum(h["cores"] for h in hosts)
        clients = min(2048, max(1, total * rng.randint(1, 4) + rng.choice([-1, 0, 1])))
    return {"hosts": hosts, "clients": clients}


def directed_cases():
    """A few hand-written cases every run starts with (shard 0): the shapes named in the property statements."""

    def t(name, clients=1, op="search", tags=None):
        return {"name": name, "op": op, "clients": clients, "tags": tags}

    ops = {"search": "search", "bulk": "bulk"}
    hosts = [{"host": "h0", "cores": 2}]
    xpy = [{"t": t("x")}, {"p": {"cap": None, "cb": None, "tasks": [t("a", 2), t("b", 1, "bulk", ["w"])]}}, {"t": t("y", 3)}]
    out = []
    for mode, spec in (("exclude", "a,b"), ("exclude", "a"), ("include", "a,b"), ("include", "x,y"), ("exclude", "x,a,b,y"), ("include", "nothing"),
                       ("exclude", "type:bulk,a"), ("exclude", "tag:w, a"), (None, None)):
        out.append({"ops": dict(ops), "challenges": [{"name": "c0", "schedule": copy.deepcopy(xpy)}], "filter": {"mode": mode, "spec": spec}, "hosts": hosts, "via_loader": False})
    over = [{"p": {"cap": 2, "cb": "a", "tasks": [t("a", 3), t("b", 2)]}}, {"p": {"cap": 7, "cb": "any", "tasks": [t("c", 1), t("d", 1)]}}]
    out.append({"ops": dict(ops), "challenges": [{"name": "c0", "schedule": over}], "filter": {"mode": None, "spec": None}, "hosts": hosts, "via_loader": True})
    return out


# ----------------------------------------------------------------------------------------------------------------
# builders (real esrally.track objects)
# ----------------------------------------------------------------------------------------------------------------
def _task_params(t):
    # what the loader stores as Task.params: the task's own specification
    p = {"operation": t["op"], "name": t["name"], "clients": t["clients"]}
    if t.get("tput") is not None:
        p["target-throughput"] = t["tput"]
    return p


def build_track(case):
    """Direct construction from real Operation / Task / Parallel / Challenge / Track objects."""
    ops = {n: track.Operation(n, ty, params={"operation-type": ty, "name": n}) for n, ty in case["ops"].items()}
    challenges = []
    for ci, ch in enumerate(case["challenges"]):
        schedule = []
        for e in ch["schedule"]:
            if "t" in e:
                schedule.append(_build_task(e["t"], ops, None))
            else:
                p = e["p"]
                schedule.append(track.Parallel([_build_task(t, ops, p["cb"]) for t in p["tasks"]], p["cap"]))
        challenges.append(track.Challenge(ch["name"], default=(ci == 0), schedule=schedule))
    return track.Track("verif", challenges=challenges)


def _build_task(t, ops, completed_by):
    return track.Task(
        t["name"],
        ops[t["op"]],
        tags=copy.copy(t.get("tags")),
        meta_data=copy.copy(t.get("meta")),
        warmup_iterations=t.get("wit"),
        iterations=t.get("it"),
        warmup_time_period=t.get("wtp"),
        time_period=t.get("tp"),
        clients=t["clients"],
        completes_parent=(completed_by is not None and t["name"] == completed_by),
        any_completes_parent=(completed_by == "any"),
        schedule=t.get("sched"),
        params=_task_params(t),
    )


def _task_json(t):
    j = {"operation": t["op"], "name": t["name"], "clients": t["clients"]}
    if t.get("tags") is not None:
        j["tags"] = copy.copy(t["tags"])
    for k, jk in (("it", "iterations"), ("wit", "warmup-iterations"), ("tp", "time-period"), ("wtp", "warmup-time-period"),
                  ("sched", "schedule"), ("tput", "target-throughput"), ("meta", "meta")):
        if t.get(k) is not None:
            j[jk] = copy.copy(t[k])
    return j


def track_json(case):
    spec = {"description": "generated", "operations": [{"name": n, "operation-type": ty} for n, ty in case["ops"].items()], "challenges": []}
    for ci, ch in enumerate(case["challenges"]):
        schedule = []
        for e in ch["schedule"]:
            if "t" in e:
                schedule.append(_task_json(e["t"]))
            else:
                p = e["p"]
                par = {"tasks": [_task_json(t) for t in p["tasks"]]}
                if p["cap"] is not None:
                    par["clients"] = p["cap"]
                if p["cb"] is not None:
                    par["completed-by"] = p["cb"]
                schedule.append({"parallel": par})
        spec["challenges"].append({"name": ch["name"], "default": ci == 0, "schedule": schedule})
    return spec


def build_track_via_loader(case):
    """The same case through the real track reader (what `load_track` calls on the parsed track.json)."""
    return loader.TrackSpecificationReader()("verif", track_json(case), "/nonexistent-mappings")


def build(case):
    return build_track_via_loader(case) if case.get("via_loader") else build_track(case)


# ----------------------------------------------------------------------------------------------------------------
# the real filter path: command line value -> opts.csv_to_list -> config -> TaskFilterTrackProcessor
# ----------------------------------------------------------------------------------------------------------------
def filter_config(flt):
    """Config exactly as esrally.rally fills it for --include-tasks / --exclude-tasks (the two flags are mutually exclusive)."""
    cfg = config.Config()
    inc = flt["spec"] if flt.get("mode") == "include" else None
    exc = flt["spec"] if flt.get("mode") == "exclude" else None
    cfg.add(config.Scope.applicationOverride, "track", "include.tasks", opts.csv_to_list(inc))
    cfg.add(config.Scope.applicationOverride, "track", "exclude.tasks", opts.csv_to_list(exc))
    return cfg


def apply_filter(trk, flt):
    """Runs the real processor on the real track (in place, as load_track does). Exceptions propagate."""
    processor = loader.TaskFilterTrackProcessor(filter_config(flt))
    return processor.on_after_load_track(trk)


# ----------------------------------------------------------------------------------------------------------------
# shrinking of plain-data cases
# ----------------------------------------------------------------------------------------------------------------
def shrink_case(case, still_fails, max_tries=400):
    """Greedy: drop challenges, elements, sub-tasks, filter items, optional task properties; lower client counts and caps."""
    tries = [0]

    def ok(c):
        if tries[0] >= max_tries:
            return False
        tries[0] += 1
        try:
            return bool(still_fails(c))
        except Exception:
            return False

    def variants(c):
        chs = c["challenges"]
        if len(chs) > 1:
            for i in range(len(chs)):
                v = copy.deepcopy(c)
                del v["challenges"][i]
                yield v
        for ci, ch in enumerate(chs):
            for ei in range(len(ch["schedule"])):
                if len(ch["schedule"]) > 1:
                    v = copy.deepcopy(c)
                    del v["challenges"][ci]["schedule"][ei]
                    yield v
                e = ch["schedule"][ei]
                if "p" in e:
                    for ti in range(len(e["p"]["tasks"])):
                        if len(e["p"]["tasks"]) > 1:
                            v = copy.deepcopy(c)
                            p = v["challenges"][ci]["schedule"][ei]["p"]
                            gone = p["tasks"].pop(ti)
                            if p["cb"] == gone["name"]:
                                p["cb"] = None
                            yield v
                    if e["p"]["cap"] is not None:
                        v = copy.deepcopy(c)
                        v["challenges"][ci]["schedule"][ei]["p"]["cap"] = None
                        yield v
                        if e["p"]["cap"] > 1:
                            v = copy.deepcopy(c)
                            v["challenges"][ci]["schedule"][ei]["p"]["cap"] = max(1, e["p"]["cap"] // 2)
                            yield v
                    if e["p"]["cb"] is not None:
                        v = copy.deepcopy(c)
                        v["challenges"][ci]["schedule"][ei]["p"]["cb"] = None
                        yield v
        if c.get("filter", {}).get("spec"):
            items = [i.strip() for i in c["filter"]["spec"].split(",")]
            if len(items) > 1:
                for i in range(len(items)):
                    if items[i] == c["filter"].get("malformed") and items.count(items[i]) == 1:
                        continue  # the malformed item is the point of the case
                    v = copy.deepcopy(c)
                    v["filter"]["spec"] = ",".join(items[:i] + items[i + 1:])
                    yield v
        if len(c.get("hosts", [])) > 1:
            v = copy.deepcopy(c)
            v["hosts"] = v["hosts"][:1]
            yield v
        for hi, h in enumerate(c.get("hosts", [])):
            if h["cores"] > 1:
                v = copy.deepcopy(c)
                v["hosts"][hi]["cores"] = 1
                yield v
        # per-task simplifications last
        for ci, ch in enumerate(chs):
            for ei, e in enumerate(ch["schedule"]):
                tasks = [e["t"]] if "t" in e else e["p"]["tasks"]
                for ti, t in enumerate(tasks):
                    if t["clients"] > 1:
                        for nc in (1, t["clients"] // 2, t["clients"] - 1):
                            if 1 <= nc < t["clients"]:
                                v = copy.deepcopy(c)
                                vt = v["challenges"][ci]["schedule"][ei]
                                (vt["t"] if "t" in vt else vt["p"]["tasks"][ti])["clients"] = nc
                                yield v
                    extra = [k for k in ("it", "wit", "tp", "wtp", "sched", "tput", "meta") if k in t]
                    if extra:
                        v = copy.deepcopy(c)
                        vt = v["challenges"][ci]["schedule"][ei]
                        vt = vt["t"] if "t" in vt else vt["p"]["tasks"][ti]
                        for k in extra:
                            del vt[k]
                        yield v
                    if t.get("tags") is not None:
                        v = copy.deepcopy(c)
                        vt = v["challenges"][ci]["schedule"][ei]
                        (vt["t"] if "t" in vt else vt["p"]["tasks"][ti])["tags"] = None
                        yield v

    changed = True
    while changed and tries[0] < max_tries:
        changed = False
        for v in variants(case):
            if ok(v):
                case, changed = v, True
                break
    used = {t["op"] for ch in case["challenges"] for t in leaf_specs(ch["schedule"])}
    if used and "ops" in case:
        case = dict(case, ops={k: v for k, v in case["ops"].items() if k in used})
    return case
