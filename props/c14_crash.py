"""C14: an EARLIER preparation run that dies at a failpoint. Executed as `python -m props.c14_crash <spec.json>`.

The process runs the real preparation (props.c14_drive.call) and calls os._exit(77) once `k` bytes have been written to the
one file named in the spec (download temp file, document file being decompressed, or offset table). Exactly `k` bytes are on
disk at that moment. Exit codes: 77 died at the failpoint, 0 preparation returned, 1 preparation raised.
"""
import builtins
import json
import os
import subprocess
import sys
import tarfile

EXIT_CRASH = 77
_real_open = builtins.open
_real_run = subprocess.run


class CrashingFile:
    """Wraps the real file object; forwards everything, dies after k bytes."""

    def __init__(self, f, k, text):
        self._f = f
        self._k = k
        self._text = text
        self._written = 0

    def write(self, data):
        raw = data.encode("utf-8") if self._text else bytes(data)
        room = self._k - self._written
        if len(raw) >= room:
            piece = raw[: max(0, room)]
            self._f.write(piece.decode("utf-8", "ignore") if self._text else piece)
            self._f.flush()
            os._exit(EXIT_CRASH)
        self._written += len(raw)
        return self._f.write(data)

    def die_truncated(self):
        """For writers that bypass write() (an external decompressor owns the descriptor)."""
        self._f.flush()
        size = os.fstat(self._f.fileno()).st_size
        os.ftruncate(self._f.fileno(), min(size, self._k))
        os._exit(EXIT_CRASH)

    def __enter__(self):
        self._f.__enter__()
        return self

    def __exit__(self, *a):
        return self._f.__exit__(*a)

    def __getattr__(self, name):
        return getattr(self._f, name)

    def __iter__(self):
        return iter(self._f)


def install(target, k, prefix=False, exclude=()):
    """Failpoint on the file `target`; with prefix=True on the first file written whose path starts with `target`
    (so that a download is caught whatever temporary suffix it uses, or none), except names containing one of `exclude`."""
    target = os.path.abspath(target)
    chosen = []

    def matches(path):
        if not prefix:
            return path == target
        if chosen:
            return path == chosen[0]
        if path.startswith(target) and not any(x in path[len(target):] for x in exclude):
            chosen.append(path)
            return True
        return False

    def fp_open(file, mode="r", *a, **kw):
        f = _real_open(file, mode, *a, **kw)
        if isinstance(file, (str, bytes, os.PathLike)) and ("w" in mode or "a" in mode or "x" in mode):
            if matches(os.path.abspath(os.fsdecode(file))):
                return CrashingFile(f, k, "b" not in mode)
        return f

    def fp_run(*a, **kw):
        out = kw.get("stdout")
        r = _real_run(*a, **kw)
        if isinstance(out, CrashingFile):
            out.die_truncated()
        return r

    builtins.open = fp_open
    tarfile.bltn_open = fp_open
    subprocess.run = fp_run


def main(argv):
    with _real_open(argv[0]) as f:
        spec = json.load(f)
    from props import c14_drive

    c14_drive.install()
    install(spec["target"], spec["k"], spec.get("prefix", False), spec.get("exclude", ()))
    try:
        c14_drive.call(spec["call"], spec["base_url"])
    except BaseException as e:  # pylint: disable=broad-except
        sys.stderr.write(f"{type(e).__name__}: {e}\n")
        os._exit(1)
    os._exit(0)


if __name__ == "__main__":
    main(sys.argv[1:])
