"""C03 helper, workload (b): params.bounds() / params.number_of_bulks() against exact integer arithmetic.

The reference does not re-implement the rounding of bounds(); it only demands what the property states: the single-client slices
tile [0, total) (first starts at 0, each starts where the previous one ended, none is negative, the last ends at total), the line
figures are the document figures times the lines per document, the bounds of a client *range* are the union of its single-client
slices, and the number of bulks of a range is sum over files of ceil(documents of the range / bulk size).
"""
from esrally.driver import driver
from esrally.track import params, track

CLAUSES = ["bounds-cover", "bounds-contiguous-monotone", "bounds-lines", "bounds-group-union", "number-of-bulks"]

SPECIAL_TOTALS = [
    0, 1, 2, 3, 5, 10, 99, 100, 101, 1000, 49999, 50000, 50001, 10**6, 10**6 + 3, 2**31 - 1, 2**31, 2**32 + 1, 10**9 + 7, 10**10 + 19,
    10**11 + 3, 10**12 - 1, 10**12, 10**12 - 11, 999999999989, 2**39 + 1, 3 * 2**38 + 1, 549755813881,
]
CLIENTS = [1, 2, 3, 4, 5, 6, 7, 8, 9, 10, 12, 16, 24, 31, 32, 33, 48, 49, 64, 96, 100, 127, 128, 250, 256, 1000, 1023, 4096, 7919, 9999, 10000]


def gen(rng, tier):
    r = rng.random()
    if r < 0.2:
        totals = [rng.choice(SPECIAL_TOTALS)]
    elif r < 0.45:
        totals = [rng.randint(0, 200)]
    elif r < 0.65:
        totals = [rng.randint(0, 10**6)]
    elif r < 0.8:
        totals = [rng.randint(10**6, 10**9)]
    else:
        totals = [rng.randint(10**9, 10**12)]
    r = rng.random()
    if r < 0.55:
        n = rng.randint(1, 40)
    elif r < 0.8:
        n = rng.choice(CLIENTS)
    elif r < 0.95:
        n = rng.randint(1, 1000)
    else:
        n = rng.randint(1000, 10000)
    if n <= 200:
        for _ in range(rng.choice([0, 0, 1, 2])):
            totals.append(rng.choice([rng.randint(0, 50), rng.randint(0, 10**5), rng.randint(0, 10**12)]))
    metas = [rng.random() < 0.4 for _ in totals]
    bulk = rng.choice([1, 2, 3, 10, 100, 500, 1000, 5000, rng.randint(1, 5000)])
    # client ranges as the driver forms them (one per worker) plus arbitrary ones
    groups = []
    hosts = [{"host": f"h{i}", "cores": rng.choice([1, 2, 3, 4, 8, 16, 32])} for i in range(rng.randint(1, 4))]
    for a in driver.calculate_worker_assignments(hosts, n):
        for w in a["workers"]:
            if w:
                groups.append([w[0], w[-1]])
    groups = groups[:24]
    for _ in range(6):
        a = rng.randrange(n)
        groups.append([a, rng.randint(a, n - 1)])
    groups.append([0, n - 1])
    return {"kind": "arith", "totals": totals, "metas": metas, "clients": n, "bulk": bulk, "groups": groups}


def check(obs, case):
    """Returns a list of (clause, msg, detail)."""
    problems = []
    n, bulk = case["clients"], case["bulk"]
    starts_per_file = []
    for total, meta in zip(case["totals"], case["metas"]):
        lpd = 2 if meta else 1
        singles = [params.bounds(total, k, k, n, meta) for k in range(n)]
        obs.clause("bounds-cover")
        if singles[0][0] != 0:
            problems.append(("bounds-cover", f"client 0 of {n} starts at line {singles[0][0]}, not 0 (total {total} docs)", {"total": total, "clients": n, "meta": meta}))
        prev_end = 0  # in documents
        bad_cm = bad_lines = None
        for k, (off, docs, lines) in enumerate(singles):
            if bad_lines is None and (lines != docs * lpd or off % lpd != 0):
                bad_lines = (k, off, docs, lines)
            if bad_cm is None and (docs < 0 or (k > 0 and off != prev_end * lpd)):
                bad_cm = (k, off, docs, prev_end)
            prev_end = off // lpd + docs
        obs.clause("bounds-contiguous-monotone", n)
        obs.clause("bounds-lines", n)
        if bad_cm:
            k, off, docs, cur = bad_cm
            what = "negative size" if docs < 0 else "gap: documents are read by nobody" if off > cur * lpd else "overlap: documents are read twice"
            problems.append(
                (
                    "bounds-contiguous-monotone",
                    f"total {total} docs, {n} clients: client {k} starts at line {off} and has {docs} docs, but client {k - 1} ends at document {cur} ({what})",
                    {"total": total, "clients": n, "meta": meta, "client": k},
                )
            )
        if bad_lines:
            k, off, docs, lines = bad_lines
            problems.append(("bounds-lines", f"total {total}, {n} clients, client {k}: offset {off} / {lines} lines do not match {docs} docs x {lpd} lines per doc", {"total": total, "clients": n, "meta": meta, "client": k}))
        if prev_end != total and not bad_cm:
            problems.append(("bounds-cover", f"total {total} docs, {n} clients: the last client ends at document {prev_end}", {"total": total, "clients": n, "meta": meta}))
        # prefix sums of the single-client slices = the exact reference for any client range
        pref = [0]
        for s in singles:
            pref.append(pref[-1] + s[1])
        starts_per_file.append((singles, pref, lpd))
        for a, b in case["groups"]:
            obs.clause("bounds-group-union")
            got = params.bounds(total, a, b, n, meta)
            want = (singles[a][0], pref[b + 1] - pref[a], (pref[b + 1] - pref[a]) * lpd)
            if tuple(got) != want:
                problems.append(
                    (
                        "bounds-group-union",
                        f"total {total} docs, {n} clients, range {a}..{b}: bounds() = {tuple(got)} but the union of the single-client slices is {want}",
                        {"total": total, "clients": n, "meta": meta, "group": [a, b]},
                    )
                )
    corpora = [
        track.DocumentCorpus(
            "c", [track.Documents("bulk", document_file=f"/nonexistent/{i}.json", number_of_documents=t, includes_action_and_meta_data=m, target_index="i") for i, (t, m) in enumerate(zip(case["totals"], case["metas"]))]
        )
    ]
    for a, b in case["groups"]:
        obs.clause("number-of-bulks")
        got = params.number_of_bulks(corpora, a, b, n, bulk)
        want = 0
        for singles, pref, lpd in starts_per_file:
            d = pref[b + 1] - pref[a]
            want += -(-d // bulk)
        if got != want:
            problems.append(
                (
                    "number-of-bulks",
                    f"totals {case['totals']}, {n} clients, range {a}..{b}, bulk size {bulk}: number_of_bulks() = {got}, exact = {want}",
                    {"clients": n, "group": [a, b], "bulk": bulk},
                )
            )
    return problems


def features(case):
    f = set()
    if max(case["totals"]) >= 10**9:
        f.add("arith-huge-total")
    if case["clients"] >= 1000:
        f.add("arith-many-clients")
    if any(t < case["clients"] for t in case["totals"]):
        f.add("arith-fewer-docs-than-clients")
    if any(case["metas"]):
        f.add("arith-two-lines-per-doc")
    return f
