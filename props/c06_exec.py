"""C06, second workload class: a runner-supplied throughput on its way from the runner's return value to the stored throughput value.

The calculator-level class feeds hand-built Sample objects; whether a supplied throughput (in particular 0 / 0.0, which wait-for-transform and
recovery-like runners legitimately report) survives rally's real AsyncExecutor and Sampler is decided here: a scripted runner returns a
"throughput" for every request (or for some), the real executor stack runs it on the virtual clock, and the real Sample objects drained from the
real Sampler go - cut into batches - through the real ThroughputCalculator.
"""
from esrally.driver import driver

from engines import execharness, vclock
from props import c04_gen

VALUES = [0, 0.0, 12.5, 3, 1e-9, 250000]


def gen_case(rng):
    clients = rng.choice([1, 1, 2, 3])
    mode = rng.choice(["all", "all", "all", "mixed"])
    unit = rng.choice(["ops", "docs", "MB"])
    reqs = []
    for _ in range(clients):
        lst = []
        for _k in range(rng.choice([1, 2, 5])):
            r = {"wire": 1, "unit": unit, "weight": rng.choice([1, 1, 7, 0])}
            if mode == "all" or rng.random() < 0.6:
                r["supplied_throughput"] = rng.choice(VALUES)
            lst.append(r)
        reqs.append(lst)
    spec = {
        "name": "task0", "clients": clients, "mode": "iter", "unit": unit, "schedule": None,
        "warmup_iterations": rng.choice([0, 0, 1, 3]), "iterations": rng.choice([1, 2, 5, 12]),
        "requests": reqs, "svc": {"mode": rng.choice(["const", "mixed"]), "base": rng.choice([0.01, 0.3, 1.0]), "err": rng.choice(["none", "none", "http"]), "seed": rng.randint(0, 1 << 30)},
    }
    return {"tasks": [spec], "pc_offset": rng.choice([0.0, 12345.678]), "poisson_seed": 0, "supplied": mode, "cut": rng.choice([1, 2, 3, 1000])}


def one_case(ctx, rng, explicit=None):
    case = explicit or gen_case(rng)
    problems = []
    c04_gen.SCRIPT_ATTEMPTS.clear()
    h = execharness.Harness(ctx.scratch, c04_gen.service_script(case), pc_offset=case["pc_offset"])
    try:
        c04_gen.ensure_registered(execharness.make_cfg(h.static_file))
        trk, tobjs, allocs = c04_gen.build_track(case)
        sampler, exc = h.run(trk, allocs, on_error="continue")
        real_samples = sampler.samples if exc is None else []
    finally:
        h.close()
    if isinstance(exc, vclock.BudgetExceeded):
        ctx.case(["exec", case], False, ())
        return problems
    if exc is not None:
        problems.append(("runner-throughput-reaches-sample", f"executor raised {type(exc).__name__}: {exc}", None))
    spec = case["tasks"][0]
    per_client = {}
    for s in h.rec.samples:
        per_client.setdefault(s["client"], []).append(s)
    feats = {"class-executor", "runner-supplied"}
    expected_by_time = []
    failed_times = set()
    for c, lst in sorted(per_client.items()):
        script = spec["requests"][c % len(spec["requests"])]
        for k, s in enumerate(lst):
            want = script[k % len(script)].get("supplied_throughput")
            failed = bool(s["meta"]) and s["meta"].get("success") is False
            if failed:
                # on-error=continue: the request failed, the runner returned nothing, the sample carries no throughput
                want = None
                feats.add("executor-failed-request-in-supplied-task")
            ctx.clause("runner-throughput-reaches-sample")
            if want is not None and want == 0:
                feats.add("runner-supplied-zero")
            got = s["throughput"]
            if (want is None) != (got is None) or (want is not None and (got != want or type(got) is not type(want))):
                problems.append(("runner-throughput-reaches-sample", f"client {c} request #{k}: the runner returned throughput {want!r}, the sample carries {got!r}", None))
            if s["meta"] and "throughput" in s["meta"]:
                problems.append(("runner-throughput-reaches-sample", f"client {c} request #{k}: 'throughput' was left in the request meta-data {s['meta']!r}", None))
            if failed:
                failed_times.add(s["absolute_time"])
            else:
                expected_by_time.append((s["absolute_time"], want))
    if case["supplied"] == "all" and not problems and real_samples:
        # the real samples through the real calculator, cut into batches: one value per sample, equal to what the runner said, whatever the cut
        calc = driver.ThroughputCalculator()
        out = []
        cut = case["cut"]
        for i in range(0, len(real_samples), cut):
            res = calc.calculate(real_samples[i:i + cut])
            for task, tuples in res.items():
                out.extend(tuples)
        ctx.clause("passthrough-end-to-end")
        # everything the runner supplied exactly once and unchanged; a failed request may get no value or a non-negative number, nothing else is emitted
        left = [(t[0], t[3], t[4]) for t in out]
        missing = []
        matched_units = set()
        for at, want_v in sorted(expected_by_time, key=lambda x: x[0]):
            cands = [n for n, g in enumerate(left) if abs(g[0] - at) <= 1e-6 and g[1] == want_v and type(g[1]) is type(want_v)]
            # (a failed request finishing in the same instant may have got a number of its own, in the unit of failures: prefer the value in the runner's unit)
            hit = next((n for n in cands if left[n][2] == f"{spec['unit']}/s"), cands[0] if cands else None)
            if hit is None:
                missing.append((at, want_v))
            else:
                matched_units.add(left[hit][2])
                del left[hit]  # by position: (t, 0, u) == (t, 0.0, u) for list.remove
        bad_extra = [g for g in left if not any(abs(g[0] - ft) <= 1e-6 for ft in failed_times) or g[1] is None or isinstance(g[1], bool) or not isinstance(g[1], (int, float)) or not g[1] >= 0]
        if bad_extra:
            problems.append(("passthrough-end-to-end", f"{len(real_samples)} samples ({len(failed_times)} failed requests) in batches of {cut}: the calculator emitted {bad_extra[0][1]!r} ({bad_extra[0][2]}) which no request supplied", None))
        elif missing:
            problems.append(("passthrough-end-to-end", f"{len(real_samples)} samples with runner-supplied throughput ({len(failed_times)} failed requests) in batches of {cut}: supplied but not emitted unchanged {[m[1] for m in missing][:12]}; emitted {[t[3] for t in out][:12]}", None))
        units = matched_units
        if units - {f"{spec['unit']}/s"}:
            problems.append(("passthrough-end-to-end", f"unit of passed-through values {units}, runner unit {spec['unit']}", None))
    ctx.case(["exec", case], len(h.rec.samples) >= 2, feats)
    if len(h.rec.samples) <= 4:
        ctx.sample({"class": "executor", "case": {k: case[k] for k in ("supplied", "cut")}, "samples": [{"client": s["client"], "throughput": s["throughput"], "ops": s["ops"], "unit": s["unit"]} for s in h.rec.samples]}, tag="executor-" + case["supplied"])
    for clause, msg, detail in problems[:2]:
        ctx.violation(clause, {"class": "executor", "case": case}, msg)
    return problems
