"""C04 - latency, service time and processing time mean what the docs say.

Monitor: rally's real executor stack runs generated tasks on a virtual clock; every sample the real Sampler receives is joined
with the ground-truth wire-request log of the simulated Elasticsearch on (client, task, ordinal) and compared exactly (1e-9).
"""
from engines import vclock
from props import c04_gen as g

ID = "C04"
LEVEL = "exploration"
RULE = (
    "seeded generator of task specs (iteration/time/param-source bounded, 1-16 clients, throttled by throughput/interval in several units or "
    "unthrottled, deterministic/poisson) x per-request scripts (client-side overhead, 1-3 wire requests, weights) x service-time/error scripts; "
    "a case is non-trivial when it executed >= 2 logical requests; distinct = hash of the whole case"
)
ASSUMPTIONS = [
    "virtual time: the simulated node's delays are the only source of elapsed time, so all comparisons are exact up to float rounding (1e-9)",
    "a throttled task's first request has scheduled time 0 (the unit-aware scheduler starts unthrottled); for it latency may equal service time "
    "or be measured from the task start - both readings of the statement are accepted",
    "scheduled times are read from the tuples the real ScheduleHandle yields, not recomputed",
    "elastic-transport's own retries (429/502/503/504) are part of the logical request: service time spans first wire start to last wire end",
]
REQUIRED_CLAUSES = [
    "one-sample-per-request", "service-time-is-wire-span", "processing>=service>=0", "processing-time-is-request-span", "not-before-scheduled",
    "throttled-latency-from-schedule", "unthrottled-latency-is-service-time", "sample-identity", "sample-issue-time",
]
REQUIRED_FEATURES = {"throttled": 20, "unthrottled": 20, "behind-schedule": 5, "client-overhead": 10, "multi-wire": 10, "err-http": 3, "err-timeout": 3, "svc-slow": 5, "clock-offset": 10, "race": 10, "race:several-clock-origins": 5, "race:several-wall-clocks": 2}
BUDGET = {"quick": {"cases": 6000, "seconds": 40}, "thorough": {"cases": 150000, "seconds": 600}}
EPS = 1e-9


def close(a, b):
    return abs(a - b) <= EPS * max(1.0, abs(a), abs(b)) + 1e-9


def check(ctx, case, h, exc, problems, feats, off_of=None, epoch_of=None):
    """`h` needs .sim.log, .rec and .clock. off_of(client) / epoch_of(client): perf_counter origin and wall-clock origin of the process /
    host the client runs in (constants for the executor harness, per worker / per host in simulated races)."""
    log = {r["id"]: r for r in h.sim.log}
    rec = h.rec
    off_of = off_of or (lambda client: case["pc_offset"])
    epoch_of = epoch_of or (lambda client: h.clock.epoch)
    # group logical requests and samples per (client, task)
    logical = {}
    for e in rec.logical:
        logical.setdefault((e["client"], e["task"]), []).append(e)
    samples = {}
    for s in rec.samples:
        samples.setdefault((s["client"], s["task"]), []).append(s)
    for key in set(logical) | set(samples):
        done = [e for e in logical.get(key, []) if "result" in e]
        got = samples.get(key, [])
        ctx.clause("one-sample-per-request")
        if len(done) != len(got):
            problems.append(("one-sample-per-request", f"client/task {key}: {len(done)} requests executed but {len(got)} samples recorded", None))
            continue
        sched = rec.schedule.get(key, [])
        start = rec.start_info[key]["vt_total_start"]
        off, epoch = off_of(key[0]), epoch_of(key[0])
        for i, (e, s) in enumerate(zip(done, got)):
            # the i-th executed request corresponds to the tuple with the same ordinal
            tup = sched[e["ordinal"]] if e["ordinal"] < len(sched) else None
            wires = [log[w] for w in e["wire"]]
            if not wires or any(w["vt_end"] is None for w in wires):
                ctx.note(f"logical request without completed wire request: {key} #{e['ordinal']}")
                continue
            w_start, w_end = min(w["vt_start"] for w in wires), max(w["vt_end"] for w in wires)
            where = f"client {key[0]} {key[1]} request #{e['ordinal']}"
            ctx.clause("service-time-is-wire-span")
            if not close(s["service_time"], w_end - w_start):
                problems.append(("service-time-is-wire-span", f"{where}: service_time {s['service_time']!r} but its wire request(s) span {w_start}..{w_end} = {w_end - w_start!r}", None))
            ctx.clause("processing>=service>=0")
            if not (s["service_time"] >= -EPS and s["processing_time"] >= s["service_time"] - EPS):
                problems.append(("processing>=service>=0", f"{where}: processing_time {s['processing_time']!r}, service_time {s['service_time']!r}", None))
            ctx.clause("processing-time-is-request-span")
            if not close(s["processing_time"], e["vt_finish"] - e["vt_begin"]):
                problems.append(("processing-time-is-request-span", f"{where}: processing_time {s['processing_time']!r} but the request (incl. client-side work) took {e['vt_finish'] - e['vt_begin']!r}", None))
            if tup is not None:
                scheduled = tup["scheduled"]
                if scheduled > 0:
                    feats.add("throttled-request")
                    ctx.clause("not-before-scheduled")
                    if w_start < start + scheduled - EPS:
                        problems.append(("not-before-scheduled", f"{where}: issued at {w_start - start!r}s after task start, before its scheduled time {scheduled!r}", None))
                    ctx.clause("throttled-latency-from-schedule")
                    expect = w_end - (start + scheduled)
                    if not close(s["latency"], expect):
                        problems.append(("throttled-latency-from-schedule", f"{where}: latency {s['latency']!r} but response arrived {expect!r}s after the scheduled time {scheduled!r}", None))
                    if s["latency"] < s["service_time"] - EPS:
                        problems.append(("throttled-latency-from-schedule", f"{where}: latency {s['latency']!r} < service_time {s['service_time']!r}", None))
                    if e["vt_begin"] > start + scheduled + 1e-6:
                        feats.add("behind-schedule")
                else:
                    ctx.clause("unthrottled-latency-is-service-time")
                    if not (close(s["latency"], s["service_time"]) or (i == 0 and close(s["latency"], w_end - start))):
                        problems.append(("unthrottled-latency-is-service-time", f"{where}: unthrottled request has latency {s['latency']!r} != service_time {s['service_time']!r}", None))
                ctx.clause("sample-identity")
                if s["sample_type"] != tup["sample_type"]:
                    problems.append(("sample-identity", f"{where}: sample type {s['sample_type']} but the schedule said {tup['sample_type']}", None))
            node_clients = {w.get("node_client") for w in wires} - {None}
            if node_clients and node_clients != {s["client"]}:
                problems.append(("sample-identity", f"{where}: the sample says client {s['client']} but its wire request(s) went through the HTTP client of client(s) {sorted(node_clients)}", None))
            ctx.clause("sample-issue-time")
            if not close(s["absolute_time"], epoch + e["vt_begin"]):
                problems.append(("sample-issue-time", f"{where}: absolute_time {s['absolute_time']!r} but the request was issued at {epoch + e['vt_begin']!r}", None))
            if not close(s["request_start"], off + w_start):
                problems.append(("sample-issue-time", f"{where}: request_start {s['request_start']!r} but the wire request started at {off + w_start!r} (local clock)", None))
            if not close(s["time_period"], w_end - start):
                problems.append(("sample-issue-time", f"{where}: time_period {s['time_period']!r} but the response arrived {w_end - start!r}s after the task start", None))
            if e.get("result") and s["ops"] != e["result"]["ops"]:
                problems.append(("sample-identity", f"{where}: sample reports {s['ops']} ops but the runner returned {e['result']['ops']}", None))


def one_case(ctx, rng, explicit=None):
    case = explicit or g.gen_case(rng)
    feats = g.features(case)
    h, exc, _ = g.run_case(case, ctx.scratch)
    problems = []
    if isinstance(exc, vclock.BudgetExceeded):
        ctx.feature("budget-exceeded")
        ctx.case(case, False, ())
        if ctx.features["budget-exceeded"] > 5:
            ctx.mark_inconclusive("more than 5 cases exceeded the virtual-time budget")
        return problems
    if exc is not None:
        feats.add("aborted")
    check(ctx, case, h, exc, problems, feats)
    nreq = len(h.rec.logical)
    ctx.case(case, nreq >= 2, feats)
    if nreq <= 6 and len(case["tasks"]) == 1:
        ctx.sample(
            {"case": case, "observed": {"wire": [{k: r[k] for k in ("vt_start", "vt_end", "client", "logical", "status", "fail")} for r in h.sim.log][:8],
                                        "samples": [{k: s[k] for k in ("client", "sample_type", "latency", "service_time", "processing_time")} for s in h.rec.samples][:6]}},
            tag="+".join(sorted(f for f in feats if f.startswith(("mode", "thr", "unthr", "err")))),
        )
    for clause, msg, detail in problems[:2]:
        ctx.violation(clause, {"case": case}, msg)
    return problems


def race_case(ctx, rng, explicit=None):
    """The same monitor on complete simulated races: every worker is its own process with its own perf_counter origin, every load
    driver host has its own wall clock, tasks run step by step under actor-message timing (engines.race)."""
    import time as _t

    from engines import race
    from props import c01

    case = explicit or c01.gen_case(rng)
    if explicit is None:
        for el in case["elements"]:
            el.pop("clients_cap", None)  # over-commit would run a (client, task) pair twice; the join below is per (client, task)
            for t in el["tasks"]:
                if "time_period" in t:
                    t["time_period"] = min(t["time_period"], 30)
                if "iterations" in t:
                    t["iterations"] = min(t["iterations"], 20)
        case["clock_offsets"] = True
    tr = race.run_race(dict(case, wall_deadline=_t.monotonic() + max(15.0, ctx.time_left() + 10.0)), ctx.scratch, instrument=c01.instrument)
    feats = {"race"}
    if tr.budget or tr.exit_status != "SUCCESSFUL":
        ctx.feature("race-not-usable")
        ctx.case(["race", case], False, ())
        return
    origin, wall = {}, {}
    for r in tr.kernel.recs.values():
        if r.cls is not None and r.cls.__name__ == "Worker" and r.inst is not None and r.inst.worker_id is not None:
            for c in tr.workers.get(r.inst.worker_id, []):
                origin[c] = r.proc_offset
                wall[c] = tr.kernel.clock.epoch + r.system.wall_skew

    class H:
        sim, rec, clock = tr.sim, tr.rec, tr.kernel.clock

    problems = []
    check(ctx, case, H, None, problems, feats, off_of=lambda c: origin.get(c, 0.0), epoch_of=lambda c: wall.get(c, tr.kernel.clock.epoch))
    if len(set(origin.values())) > 1:
        feats.add("race:several-clock-origins")
    if len(set(wall.values())) > 1:
        feats.add("race:several-wall-clocks")
    ctx.case(["race", case], len(tr.rec.logical) >= 2, feats)
    for clause, msg, detail in problems[:2]:
        ctx.violation(clause, {"workload": "race", "case": case}, "[simulated race] " + msg)


def run_shard(ctx):
    i = 0
    while ctx.more():
        if i % 60 == 30:
            race_case(ctx, ctx.case_rng(i))
        else:
            one_case(ctx, ctx.case_rng(i))
        i += 1


def classify(v):
    return None


def replay(ctx, rec):
    if rec["witness"].get("workload") == "race":
        race_case(ctx, None, explicit=rec["witness"]["case"])
    else:
        one_case(ctx, None, explicit=rec["witness"]["case"])


MANIFEST = {
    "text": "Exploration: thousands of generated task specs are executed by rally's real AsyncIoAdapter/AsyncExecutor/ScheduleHandle/scheduler/runner/"
    "async-client stack on a virtual clock; each recorded sample is joined with the ground-truth wire log of the simulated node and compared exactly "
    "(service time = wire span, processing time = request span, throttled latency from the scheduled time, no request before its scheduled time, one sample per request).",
    "note": "Trusts the virtual-time loop (engines/vclock.py), the simulated node behind rally's own static-response hook (engines/simes.py) and aiohttp/elastic-transport as shipped.",
    "technique": "runtime monitor: samples joined with a ground-truth request log recorded at the HTTP boundary, exact comparison in virtual time",
    "engines": ["vclock", "simes"],
}
