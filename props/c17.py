"""C17 - metrics store calls survive transient faults and never repeat after success.

Monitor: the real `metrics.EsClient` (its `guarded` and every public store operation) runs against a scripted stand-in for the
Elasticsearch client. The stand-in produces one outcome of a fault alphabet per call of the wrapped client function, built from
the REAL elasticsearch / elastic_transport exception classes and `elasticsearch.helpers.BulkIndexError` payloads shaped as
`helpers.bulk` builds them; `time.sleep` of esrally.metrics is a recorder. A reference interpreter of the property statement
(`reference`) runs in lock-step: compared are the number of calls of the wrapped function, where the pauses were taken and how
they grow, the arguments of every call, the value returned (first successful attempt's) or the exception surfaced (a Rally error
naming the cause).

A second layer ("wire") runs a sample of the same fault sequences through the REAL client stack - rally's
`client.EsClientFactory(...).create()` (RallySyncElasticsearch + elastic_transport.Transport, transport-level retries off) and the
real `elasticsearch.helpers.bulk` - with only the HTTP node scripted, records what the wrapped client function actually did at
the `guarded` boundary and applies the same oracle to that record.
"""
import inspect
import itertools
import json
import logging

import elastic_transport
import elasticsearch
import elasticsearch.helpers

from esrally import exceptions, metrics
from esrally import time as rally_time

ID = "C17"
LEVEL = "fault_enumeration"
RULE = (
    "case = (store operation or guarded() itself, outcome sequence, tail). Part A: for each of the public EsClient operations and for guarded() every "
    "sequence up to length 4 over the operation's alphabet (11 outcomes; 15 for bulk operations), continued by a tail that is either success or one transient "
    "fault repeated until the retry budget is exhausted (tails only matter, and are only enumerated, after all-transient sequences); part B: seeded random "
    "sequences up to length 12 over an extended alphabet, followed or not by success; part W: a sample of sequences through the real client stack with a scripted HTTP node. "
    "Non-trivial: at least one fault before the outcome. Distinct = hash of (operation, outcomes consumed)"
)
ASSUMPTIONS = [
    "'connection timeout' = elastic_transport.ConnectionTimeout, 'connection error' = elastic_transport.ConnectionError incl. subclasses (TlsError); "
    "'HTTP 429/502/503/504' = elasticsearch.ApiError with that status, or a BulkIndexError all of whose items carry one of these statuses; "
    "a BulkIndexError with at least one item of another status is a non-retryable bulk item error",
    "'exponentially growing pauses' is demanded as: a pause between any two consecutive attempts, every pause > 0, strictly larger than the one before and "
    "at least twice the pause two retries earlier (satisfied by the documented 2^k + [0,1) seconds, not by a linear or capped backoff)",
    "'names the cause' is demanded leniently: the Rally error's message contains (case-insensitive) 'timeout'/'timed out' for timeouts, 'connect' for connection errors, "
    "a word for authentication / privileges (or the status) for 401 / 403, the error type or status code for other API errors, the transport error's message or class, "
    "and the error type or status of an offending item for bulk errors",
    "bulk_index() and index() return nothing by design; for them 'the first successful attempt's result is returned' is demanded only as 'returns normally without a further call'",
    "bulk items are index actions (the only kind the metrics store sends)",
    "wire layer: rally's client is created as metrics.EsClientFactory does (client.EsClientFactory(...).create(), timeout 120) plus max_retries=0 / retry_on_timeout=False, so that "
    "one attempt of guarded() is one HTTP exchange; rally's product check (GET /) is always answered and not counted; an exception that is none of the statement's fault "
    "classes (e.g. a TypeError raised before any request is sent) is not judged by the statement's clauses but by 'operation-reaches-store'",
]
REQUIRED_CLAUSES = [
    "bounded-attempts", "no-call-after-success", "no-retry-after-fatal", "retries-transient", "pauses", "result-of-first-success",
    "rally-error-names-cause", "same-call", "wire-agrees", "operation-reaches-store",
]
OPERATIONS = ["get_template", "put_template", "template_exists", "delete_by_query", "delete", "get_index", "create_index", "exists", "refresh", "bulk_index", "index", "search"]
REQUIRED_FEATURES = dict(
    {f"op:{o}": 200 for o in OPERATIONS},
    **{
        "op:guarded": 200, "budget-exhausted": 100, "budget-exhausted-by:ctimeout": 5, "budget-exhausted-by:cerror": 5, "budget-exhausted-by:api": 5,
        "budget-exhausted-by:bulk": 5, "success-on-attempt-11": 5, "success-after-retries": 100, "fatal:auth": 50, "fatal:authz": 50, "fatal:api": 50,
        "fatal:transport": 50, "fatal:bulk-item": 50, "bulk-mixed-retryable-and-not": 20, "retry:bulk-item": 50, "retry:api": 100, "retry:ctimeout": 100,
        "retry:cerror": 100, "partA-done": 1, "wire-cases": 100, "wire:fault-on-product-check": 20,
    },
)
BUDGET = {
    "quick": {"cases": 1_600_000, "seconds": 25},
    "thorough": {"cases": 40_000_000, "seconds": 420},
}
EXHAUSTIVE_WHOLE = False

MAX_ATTEMPTS = 11  # "up to ten retries"
CAP = 40  # calls of the wrapped function after which a run is aborted
RETRYABLE_STATUS = (429, 502, 503, 504)

# ---------------------------------------------------------------------------------------------------------------------
# outcome alphabet
BASE = ["ok", "ctimeout", "cerror", "api429", "api502", "api503", "api504", "api401", "api403", "api404", "transport"]
BULK_ONLY = ["bulk429", "bulk503", "bulk400", "bulk429+400"]
EXT = ["ok-false", "ok-none", "tls", "api500-nobody", "api503-nobody", "api400", "api405", "api408", "api409", "api413", "api500", "api501", "ser", "sniff", "transport-errors", "ctimeout-errors", "unsupported-product"]
EXT_BULK = ["bulk502", "bulk504", "bulk429+503", "bulk400+429", "bulk409", "bulk500", "bulk-nostatus", "bulk429x3",
            # many failed items (a chunk has up to 5000): the non-retryable one may sit anywhere
            "bulk429x10+400", "bulk429x12+400", "bulk503x40+409+503x3", "bulk429x5000", "bulk429x2500+500"]

_NODE_CFG = elastic_transport.NodeConfig("https", "metrics.example.org", 9243)
ITEM_ERRORS = {
    429: ("es_rejected_execution_exception", "rejected execution of coordinating operation"),
    502: ("bad_gateway_exception", "bad gateway"),
    503: ("unavailable_shards_exception", "[rally-metrics-2026-09][0] primary shard is not active Timeout: [1m]"),
    504: ("gateway_timeout_exception", "gateway timeout"),
    400: ("mapper_parsing_exception", "failed to parse field [value] of type [float]"),
    409: ("version_conflict_engine_exception", "version conflict, document already exists"),
    500: ("illegal_state_exception", "internal failure"),
    404: ("index_not_found_exception", "no such index [rally-metrics-2026-09]"),
}
API_ERRORS = dict(ITEM_ERRORS)
API_ERRORS.update({
    401: ("security_exception", "unable to authenticate user [rally]"),
    403: ("security_exception", "action [indices:data/write/bulk] is unauthorized for user [rally]"),
    405: ("method_not_allowed_exception", "Incorrect HTTP method"),
    408: ("request_timeout_exception", "request timed out"),
    413: ("content_too_long_exception", "entity content is too long"),
    501: ("not_implemented_exception", "not implemented"),
})


def api_error(status, body=True):
    etype, reason = API_ERRORS[status]
    meta = elastic_transport.ApiResponseMeta(status=status, http_version="1.1", headers=elastic_transport.HttpHeaders(), duration=0.0, node=_NODE_CFG)
    cls = elasticsearch.exceptions.HTTP_EXCEPTIONS.get(status, elasticsearch.ApiError)
    if not body:
        # what rally's client raises for a response without a body (every HEAD request: exists / template_exists): message = str(None)
        return cls(message=str(None), meta=meta, body=None)
    return cls(message=etype, meta=meta, body={"error": {"root_cause": [{"type": etype, "reason": reason}], "type": etype, "reason": reason}, "status": status})


def bulk_item(status, n, with_status=True):
    etype, reason = ITEM_ERRORS[status]
    item = {"_index": "rally-metrics-2026-09", "_id": f"id{n}", "error": {"type": etype, "reason": reason}, "data": {"name": "latency", "value": n}}
    if with_status:
        item["status"] = status
    return {"index": item}


def bulk_error(spec):
    """spec e.g. '429', '429+400', '429x3', 'nostatus' -> BulkIndexError as helpers.bulk raises it (only the failed items are listed)."""
    if spec == "nostatus":
        items = [bulk_item(400, 0, with_status=False)]
    else:
        # '+'-joined segments, each a status or <status>x<count>: '429x12+400' = twelve rejected items followed by one malformed document
        items = []
        for seg in spec.split("+"):
            s, _, k = seg.partition("x")
            for _ in range(int(k or 1)):
                items.append(bulk_item(int(s), len(items)))
    return elasticsearch.helpers.BulkIndexError(f"{len(items)} document(s) failed to index.", items)


def make(kind):
    """-> (is_exception, fresh object)"""
    if kind == "ok":
        return False, elastic_transport.ObjectApiResponse(body={"acknowledged": True}, meta=api_error(404).meta)
    if kind == "ok-false":
        return False, False
    if kind == "ok-none":
        return False, None
    if kind == "ok-bulk":
        return False, (2, [])
    if kind == "ctimeout":
        return True, elasticsearch.ConnectionTimeout("Connection timed out")
    if kind == "ctimeout-errors":
        return True, elasticsearch.ConnectionTimeout("Connection timeout caused by: ReadTimeoutError", errors=(TimeoutError("read timed out"),))
    if kind == "cerror":
        return True, elasticsearch.ConnectionError("Connection error caused by: NewConnectionError(Failed to establish a new connection: [Errno 111] Connection refused)")
    if kind == "tls":
        return True, elastic_transport.TlsError("TLS error caused by: SSLError(certificate verify failed)")
    if kind == "transport":
        return True, elasticsearch.TransportError("scripted transport failure")
    if kind == "transport-errors":
        return True, elasticsearch.TransportError("scripted transport failure", errors=(ValueError("inner cause"),))
    if kind == "ser":
        return True, elasticsearch.SerializationError("Unable to deserialize as JSON: b'<html>'")
    if kind == "sniff":
        return True, elastic_transport.SniffingError("No viable nodes were discovered on the initial sniff attempt")
    if kind == "unsupported-product":
        return True, elasticsearch.UnsupportedProductError("The client noticed that the server is not Elasticsearch and we do not support this unknown product", meta=api_error(404).meta, body={})
    if kind.startswith("api"):
        return True, api_error(int(kind[3:6]), body=not kind.endswith("-nobody"))
    if kind.startswith("bulk"):
        return True, bulk_error(kind[4:].lstrip("-"))
    raise ValueError(kind)


def classify_outcome(is_exc, obj):
    """Class of what the wrapped client function did, decided from the real object (used for the scripted and the wire layer alike):
    -> (cls, detail) with cls in success | transient | fatal; detail names the sub-class for features and the cause check."""
    if not is_exc:
        return "success", "ok"
    if isinstance(obj, elasticsearch.ConnectionTimeout):
        return "transient", "ctimeout"
    if isinstance(obj, elasticsearch.ConnectionError):
        return "transient", "cerror"
    if isinstance(obj, elasticsearch.helpers.BulkIndexError):
        statuses = [next(iter(e.values())).get("status") for e in obj.errors]
        if statuses and all(s in RETRYABLE_STATUS for s in statuses):
            return "transient", "bulk"
        return "fatal", "bulk-item"
    if isinstance(obj, elastic_transport.ApiError):
        status = obj.meta.status
        if status in RETRYABLE_STATUS:
            return "transient", "api"
        if status == 401:
            return "fatal", "auth"
        if status == 403:
            return "fatal", "authz"
        return "fatal", "api"
    if isinstance(obj, elastic_transport.TransportError):
        return "fatal", "transport"
    return "fatal", "foreign"


def cause_tokens(detail, obj):
    if detail == "ctimeout":
        return ["timeout", "timed out"]
    if detail == "cerror":
        return ["connect"]
    if detail == "auth":
        return ["authenticat", "401", "credential", "password"]
    if detail == "authz":
        return ["privilege", "authoriz", "permission", "forbidden", "403"]
    if detail == "api":
        return [t for t in (str(obj.message), str(obj.meta.status)) if t not in ("None", "")]
    if detail == "transport":
        return [str(obj.message), type(obj).__name__] + [str(x) for x in obj.errors]
    if detail in ("bulk", "bulk-item"):
        toks = []
        for e in obj.errors:
            item = next(iter(e.values()))
            if detail == "bulk-item" and item.get("status") in RETRYABLE_STATUS:
                continue  # the cause is a non-retryable item
            toks += [str((item.get("error") or {}).get("type")), str(item.get("status")), str((item.get("error") or {}).get("reason"))]
        return [t for t in toks if t and t != "None"]
    return [type(obj).__name__]


# ---------------------------------------------------------------------------------------------------------------------
# reference interpreter of the statement over a sequence of outcome classes
def reference(classes):
    """classes: iterable of 'success' | 'transient' | 'fatal' per attempt -> (attempts, pauses, final) with final in
    ('return', i) | ('error', i, why)."""
    n = 0
    for c in classes:
        n += 1
        if c == "success":
            return n, n - 1, ("return", n - 1)
        if c == "fatal":
            return n, n - 1, ("error", n - 1, "fatal")
        if n == MAX_ATTEMPTS:
            return n, n - 1, ("error", n - 1, "exhausted")
    raise HarnessError("outcome sequence ended before the statement stops")


class HarnessError(Exception):
    pass


class Abort(BaseException):
    pass


# ---------------------------------------------------------------------------------------------------------------------
# scripted stand-in for the client
class Trace:
    """Everything observed in one run: calls of the wrapped function (with outcome) and pauses, in order."""

    def __init__(self):
        self.events = []  # ("call", index) | ("sleep", seconds)
        self.outcomes = []  # (is_exc, obj) per call
        self.calls = []  # (name, args, kwargs) per call

    def sleep(self, secs):
        self.events.append(("sleep", secs))


class Script:
    def __init__(self, kinds, tail, bulk, trace):
        self.kinds, self.tail, self.bulk, self.trace = list(kinds), tail, bulk, trace

    def kind_at(self, i):
        k = self.kinds[i] if i < len(self.kinds) else self.tail
        return "ok-bulk" if (k == "ok" and self.bulk) else k

    def step(self, name, args, kwargs):
        t = self.trace
        i = len(t.outcomes)
        if i >= CAP:
            raise Abort()
        t.events.append(("call", i))
        t.calls.append((name, args, kwargs))
        is_exc, obj = make(self.kind_at(i))
        t.outcomes.append((is_exc, obj))
        if is_exc:
            raise obj
        return obj


class _Node:
    host, port = "metrics.example.org", 9243


class _Pool:
    def get(self):
        return _Node()


class _Transport:
    node_pool = _Pool()


class _Namespace:
    def __init__(self, script, prefix):
        self._script, self._prefix = script, prefix

    def __getattr__(self, name):
        if name.startswith("_"):
            raise AttributeError(name)
        script, full = self._script, self._prefix + name

        def fn(*args, **kwargs):
            return script.step(full, args, kwargs)

        fn.__name__ = name
        fn.__qualname__ = full
        return fn


class StubClient(_Namespace):
    """Any attribute is a client API function that plays the script; `indices` is a namespace of such functions."""

    def __init__(self, script):
        super().__init__(script, "")
        self.indices = _Namespace(script, "indices.")
        self.transport = _Transport()


# ---------------------------------------------------------------------------------------------------------------------
# invoking the operations
TEMPLATE = json.dumps({"index_patterns": ["rally-metrics-*"], "template": {"settings": {"index": {"number_of_shards": 1}}, "mappings": {"dynamic": False}}})
DOCS = [{"_source": {"name": "latency", "value": 1.5, "race-id": "r1"}}, {"_source": {"name": "service_time", "value": 1.25, "race-id": "r1"}, "_id": "fixed-id"}]
ARG_VALUES = {
    "name": "rally-metrics", "template": TEMPLATE, "index": "rally-metrics-2026-09", "body": {"query": {"term": {"race-id": "r1"}}}, "id": "r1",
    "items": DOCS, "item": {"name": "latency", "value": 1.5, "race-id": "r1"},
}
BULK_OPS = {"bulk_index", "index"}
NO_RESULT_OPS = {"bulk_index", "index"}


def discover_operations():
    ops = {}
    for name, fn in inspect.getmembers(metrics.EsClient, predicate=inspect.isfunction):
        if name.startswith("_") or name == "guarded":
            continue
        ops[name] = [p for p in inspect.signature(fn).parameters if p != "self"]
    return ops


def call_operation(es_client, op, params):
    kwargs = {}
    for p in params:
        if p not in ARG_VALUES:
            raise HarnessError(f"do not know a value for parameter {p!r} of EsClient.{op}")
        kwargs[p] = ARG_VALUES[p]
    return getattr(es_client, op)(**kwargs)


class Env:
    def __init__(self):
        logging.disable(logging.CRITICAL)
        self.trace = None
        env = self

        class Shim:
            def sleep(self, secs):
                env.trace.sleep(secs)

            def __getattr__(self, name):
                return getattr(rally_time, name)

        self.real_time = metrics.time
        metrics.time = Shim()
        self.real_bulk = elasticsearch.helpers.bulk
        self.ops = discover_operations()
        self.script = None

        def bulk(client, actions, *args, **kwargs):
            return env.script.step("helpers.bulk", (client, actions) + args, kwargs)

        self.scripted_bulk = bulk
        self.wire = None

    def use_scripted_bulk(self):
        elasticsearch.helpers.bulk = self.scripted_bulk

    def use_real_bulk(self):
        elasticsearch.helpers.bulk = self.real_bulk


def run_scripted(env, target, kinds, tail):
    """target: 'guarded' or an operation name -> (trace, ('return', value) | ('raise', exc) | ('abort', None))"""
    trace = Trace()
    env.trace = trace
    bulk = target in BULK_OPS
    script = Script(kinds, tail, bulk, trace)
    env.script = script
    env.use_scripted_bulk()
    client = StubClient(script)
    es_client = metrics.EsClient(client)
    try:
        if target == "guarded":
            def scripted_operation(*args, **kwargs):
                return script.step("scripted_operation", args, kwargs)

            res = es_client.guarded(scripted_operation, "rally-metrics-2026-09", body={"query": {"match_all": {}}})
        else:
            res = call_operation(es_client, target, env.ops[target])
        return trace, ("return", res)
    except Abort:
        return trace, ("abort", None)
    except HarnessError:
        raise
    except Exception as e:  # pylint: disable=broad-except
        return trace, ("raise", e)


# ---------------------------------------------------------------------------------------------------------------------
# the oracle: statement vs. one recorded run
def short(o):
    if isinstance(o, elastic_transport.ApiError):
        return f"{type(o).__name__}({o.message!r}, status={o.meta.status})"
    s = repr(o)
    return s if len(s) <= 160 else s[:157] + "..."


def check_run(ctx, target, trace, final, label):
    """Applies the statement to a recorded run. -> list of (clause, msg). `label` describes the outcomes for messages."""
    out = []
    classes = [classify_outcome(*o) for o in trace.outcomes]
    n_got = len(classes)
    if final[0] == "abort":
        n_exp, _, _ = reference([c for c, _ in classes])
        stop = classes[n_exp - 1][0]
        clause = "no-call-after-success" if stop == "success" else ("no-retry-after-fatal" if stop == "fatal" else "bounded-attempts")
        return [(clause, f"{label}: the wrapped function was still being called after {CAP} calls")]
    if n_got == 0:
        return [("retries-transient", f"{label}: the wrapped client function was never called")]
    # where does the statement stop, given what the attempts produced?
    stop_at = None
    for i, (c, d) in enumerate(classes):
        if c != "transient" or i + 1 == MAX_ATTEMPTS:
            stop_at = i
            break
    transient_before = sum(1 for c, _ in classes[: (stop_at if stop_at is not None else n_got)] if c == "transient")
    if transient_before:
        ctx.clause("retries-transient", min(transient_before, n_got))
    if stop_at is not None:
        c, d = classes[stop_at]
        if c == "success":
            ctx.clause("no-call-after-success")
        elif c == "fatal":
            ctx.clause("no-retry-after-fatal")
        else:
            ctx.clause("bounded-attempts")
        if n_got > stop_at + 1:
            if c == "success":
                out.append(("no-call-after-success", f"{label}: attempt {stop_at + 1} succeeded but the call was repeated {n_got - stop_at - 1} more time(s)"))
            elif c == "fatal":
                out.append(("no-retry-after-fatal", f"{label}: attempt {stop_at + 1} failed with a non-retryable error ({d}: {short(trace.outcomes[stop_at][1])}) but was retried"))
            else:
                out.append(("bounded-attempts", f"{label}: {n_got} attempts, the statement allows ten retries (11 attempts)"))
            return out
    else:
        # every attempt made was transient and fewer than 11 were made: gave up (or returned) too early
        d = classes[-1][1]
        out.append(("retries-transient", f"{label}: gave up after {n_got} attempt(s), the last one a transient fault ({d}: {short(trace.outcomes[-1][1])}), although {MAX_ATTEMPTS - n_got} retries were left; surfaced {short(final[1])}"))
        return out
    # ---- pauses: one between any two consecutive attempts, growing exponentially (a pause before the first or after the last attempt is not judged)
    ctx.clause("pauses")
    pauses, seen_call = [], False
    for kind, val in trace.events:
        if kind == "call":
            if seen_call:
                pauses.append(acc)
            seen_call, acc = True, None
        elif seen_call:
            acc = val if acc is None else acc + val
    for k, p in enumerate(pauses):
        if p is None:
            out.append(("pauses", f"{label}: no pause between attempt {k + 1} and attempt {k + 2} (pauses so far {[round(x, 3) for x in pauses[:k]]})"))
            break
        if not p > 0 or (k >= 1 and not p > pauses[k - 1]) or (k >= 2 and not p >= 2 * pauses[k - 2]):
            out.append(("pauses", f"{label}: pauses do not grow exponentially: {[round(x, 3) for x in pauses]} (pause {k + 1})"))
            break
    # ---- every attempt is the same call
    ctx.clause("same-call")
    first = trace.calls[0]
    for i, c in enumerate(trace.calls[1:], 2):
        if c[0] != first[0] or c[1] != first[1] or c[2] != first[2]:
            out.append(("same-call", f"{label}: attempt {i} called {c[0]} with other arguments than attempt 1 ({first[0]})"))
            break
    # ---- what comes out
    c, d = classes[stop_at]
    is_exc, obj = trace.outcomes[stop_at]
    if c == "success":
        ctx.clause("result-of-first-success")
        if final[0] != "return":
            out.append(("result-of-first-success", f"{label}: attempt {stop_at + 1} succeeded but the call raised {short(final[1])}"))
        elif target not in NO_RESULT_OPS and final[1] is not obj:
            out.append(("result-of-first-success", f"{label}: returned {short(final[1])} instead of the result of the first successful attempt ({short(obj)})"))
    elif d == "foreign":
        pass  # not one of the statement's fault classes (cannot occur in the scripted layer; the wire layer reports it under operation-reaches-store)
    else:
        ctx.clause("rally-error-names-cause")
        why = "a non-retryable error" if c == "fatal" else "the retry budget exhausted"
        if final[0] != "raise":
            out.append(("rally-error-names-cause", f"{label}: {why} ({d}) but the call returned {short(final[1])} instead of raising a Rally error"))
        elif not isinstance(final[1], exceptions.RallyError):
            out.append(("rally-error-names-cause", f"{label}: {why} ({d}) surfaced as {type(final[1]).__name__}: {short(str(final[1]))}, not as a Rally error"))
        else:
            msg = str(final[1].message).lower()
            toks = [t.lower() for t in cause_tokens(d, obj) if t]
            if not any(t in msg for t in toks):
                out.append(("rally-error-names-cause", f"{label}: {why} ({d}: {short(obj)}) surfaced as a Rally error that does not name the cause: {short(final[1].message)}"))
    return out


def features_of(target, trace, final):
    f = {f"op:{target}"}
    classes = [classify_outcome(*o) for o in trace.outcomes]
    n = len(classes)
    for c, d in classes[:-1]:
        if c == "transient":
            f.add({"bulk": "retry:bulk-item"}.get(d, f"retry:{d}"))
    if classes:
        c, d = classes[-1]
        if c == "success" and n > 1:
            f.add("success-after-retries")
            if n == MAX_ATTEMPTS:
                f.add("success-on-attempt-11")
        if c == "fatal":
            f.add(f"fatal:{d}")
            if d == "bulk-item" and any(next(iter(e.values())).get("status") in RETRYABLE_STATUS for e in trace.outcomes[-1][1].errors):
                f.add("bulk-mixed-retryable-and-not")
        if c == "transient" and n == MAX_ATTEMPTS:
            f.add("budget-exhausted")
            f.add(f"budget-exhausted-by:{d}")
    return f


class _Null:
    def clause(self, *a, **k):
        pass


def evaluate(ctx, env, target, kinds, tail, layer):
    """One run of the real code under the script and the oracle's verdict on it."""
    if layer == "wire":
        trace, final, _ = env.wire.run(target, kinds, tail)
    else:
        trace, final = run_scripted(env, target, kinds, tail)
    consumed = [Script(kinds, tail, False, None).kind_at(i) for i in range(min(len(trace.outcomes), 14))]
    label = f"{'[wire] ' if layer == 'wire' else ''}{target} with outcomes {consumed}"
    problems = check_run(ctx, target, trace, final, label)
    if layer == "wire":
        problems += env.wire.agree(ctx, target, kinds, tail, trace, final, label)
    return trace, final, consumed, problems


def witness_of(env, target, kinds, tail, layer, trace, final, consumed):
    case = {"target": target, "kinds": kinds[: max(len(consumed), 1)] if len(kinds) > len(consumed) else kinds, "tail": tail, "layer": layer}
    observed = {
        "http_exchanges": len(env.wire.requests) if layer == "wire" else None,
        "calls": len(trace.outcomes), "pauses": [round(e[1], 3) for e in trace.events if e[0] == "sleep"],
        "final": [final[0], short(final[1]) if final[0] != "return" or final[1] is not None else None],
    }
    return {
        "case": case, "observed": observed, "outcome_classes": [list(classify_outcome(*o)) for o in trace.outcomes[:14]],
        "last_outcome": describe(trace.outcomes[-1][1]) if trace.outcomes else None, "surfaced": describe(final[1]) if final[0] == "raise" else None,
    }


def shrink(env, target, kinds, tail, layer, clause, key):
    """Greedy: drop outcomes (and replace the tail by success) while the same clause still fails with the same classification."""
    def still(ks, tl):
        trace, final, consumed, problems = evaluate(_Null(), env, target, ks, tl, layer)
        for c, m in problems:
            if c == clause:
                w = witness_of(env, target, ks, tl, layer, trace, final, consumed)
                if classify({"clause": c, "witness": w, "msg": m}) == key:
                    return w, m
        return None

    best = None
    changed = True
    while changed and len(kinds) > 0:
        changed = False
        for i in range(len(kinds)):
            cand = kinds[:i] + kinds[i + 1:]
            r = still(cand, tail)
            if r:
                kinds, best, changed = cand, r, True
                break
    if tail != "ok":
        r = still(kinds, "ok")
        if r:
            tail, best = "ok", r
    return best


def one_case(ctx, env, target, kinds, tail, tag=None, layer="scripted"):
    kinds = list(kinds)
    trace, final, consumed, problems = evaluate(ctx, env, target, kinds, tail, layer)
    feats = features_of(target, trace, final)
    if layer == "wire":
        feats = {"wire-cases"} | {f"wire:{x}" for x in feats if x.startswith("fatal") or x.startswith("budget-exhausted-by")}
        if getattr(env.wire, "product_check_faults", 0):
            feats.add("wire:fault-on-product-check")
    ctx.case((layer, target, consumed), len(trace.outcomes) >= 2 or (trace.outcomes and trace.outcomes[-1][0]), feats)
    ctx.distinct("outcome-sequences", consumed)
    if tag:
        w = witness_of(env, target, kinds, tail, layer, trace, final, consumed)
        ctx.sample({"case": w["case"], "observed": w["observed"]}, tag=tag)
    for clause, msg in problems[:2]:
        w = witness_of(env, target, kinds, tail, layer, trace, final, consumed)
        key = classify({"clause": clause, "witness": w, "msg": msg})
        if ctx_wants(ctx, clause, key):
            small = shrink(env, target, list(w["case"]["kinds"]), tail, layer, clause, key)
            if small:
                w, msg = small
        ctx.violation(clause, w, msg)
    return problems


def ctx_wants(ctx, clause, key):
    """Shrinking re-runs the case; only worth it for the few violations the runner keeps per key."""
    k = key or f"!{clause}"
    return getattr(ctx, "_viol_per_key", {}).get(k, 0) < 3


def describe(obj):
    d = {"type": type(obj).__name__, "message": str(getattr(obj, "message", obj))[:300]}
    if isinstance(obj, elastic_transport.ApiError):
        d["status"] = obj.meta.status
        d["api_error"] = True
    return d


# ---------------------------------------------------------------------------------------------------------------------
def alphabet_for(target, extended=False):
    a = list(BASE)
    if target in BULK_OPS or target == "guarded":
        a += BULK_ONLY
    if extended:
        a += EXT
        if target in BULK_OPS or target == "guarded":
            a += EXT_BULK
    return a


def is_transient_kind(kind):
    return classify_outcome(*make(kind))[0] == "transient"


_TRANSIENT = {}


def transient(kind):
    if kind not in _TRANSIENT:
        _TRANSIENT[kind] = is_transient_kind(kind)
    return _TRANSIENT[kind]


def part_a_cases(targets, max_len):
    """(target, sequence, tail): all sequences up to max_len; all tails after all-transient sequences, tail 'ok' otherwise (the tail is never reached)."""
    for target in targets:
        alpha = alphabet_for(target)
        tails = ["ok"] + [k for k in alpha if transient(k)]
        for length in range(0, max_len + 1):
            for seq in itertools.product(alpha, repeat=length):
                if all(transient(k) for k in seq):
                    for tail in tails:
                        yield target, seq, tail
                else:
                    yield target, seq, "ok"


def overdue(ctx):
    """The enumerated parts are finished even when the machine is busy (they need a few CPU seconds per shard); they are only abandoned -
    and the run reported inconclusive - at 2.5x the time budget, well before the runner's watchdog (3x + 120 s)."""
    return ctx.time_left() < -1.5 * float(ctx.budget.get("seconds", 40))


def run_shard(ctx):
    env = Env()
    ops = env.ops
    missing = [o for o in OPERATIONS if o not in ops]
    extra = [o for o in ops if o not in OPERATIONS]
    if missing:
        ctx.mark_inconclusive(f"EsClient no longer has the operations {missing}")
    if extra:
        ctx.note(f"EsClient operations not in the list this check was written for (exercised all the same): {extra}")
    targets = ["guarded"] + sorted(ops)
    quick = ctx.tier == "quick"
    # ---- first slice of the random part (extended alphabet reached even on a short budget)
    i = 0
    while i < 1500 and ctx.time_left() > 0:
        random_case(ctx, env, targets, ctx.case_rng(f"B{i}"), i)
        i += 1
    # ---- part W: the real client stack under a sample of sequences
    from props import c17_wire

    env.wire = c17_wire.Wire(env)
    wi = 0
    while wi < (150 if quick else 3000) and ctx.time_left() > 0:
        wire_case(ctx, env, sorted(ops), ctx.case_rng(f"W{wi}"), wi)
        wi += 1
    # ---- part A: exhaustive
    max_len = 4 if quick else 5
    done, mine = True, 0
    for idx, (target, seq, tail) in enumerate(part_a_cases(targets, max_len)):
        if idx % ctx.nshards != ctx.shard:
            continue
        mine += 1
        if mine % 512 == 0 and overdue(ctx):
            done = False
            break
        one_case(ctx, env, target, seq, tail, tag=(f"A:{target}:{tail}" if mine % 4001 == 0 else None))
    ctx.exhaustive[f"A: every operation x all outcome sequences up to length {max_len} x (success | each transient fault until the budget is exhausted)"] = done
    if done:
        ctx.feature("partA-done")
    # ---- part B: random
    while ctx.more():
        if i % 40 == 0:
            wire_case(ctx, env, sorted(ops), ctx.case_rng(f"W{wi}"), wi)
            wi += 1
        random_case(ctx, env, targets, ctx.case_rng(f"B{i}"), i)
        i += 1


def random_sequence(rng, alpha, trans=None):
    trans = trans or [k for k in alpha if transient(k)]
    mode = rng.choice(["transient-then", "transient-then", "mixed", "exhaust", "edge"])
    if mode == "mixed":
        return [rng.choice(alpha) for _ in range(rng.randint(1, 12))], rng.choice(["ok"] + trans)
    if mode == "transient-then":
        return [rng.choice(trans) for _ in range(rng.randint(1, 12))] + [rng.choice(alpha)], rng.choice(["ok"] + trans)
    if mode == "exhaust":
        return [rng.choice(trans) for _ in range(rng.randint(0, 12))], rng.choice(trans)
    # edge of the budget: exactly 9, 10 or 11 transient faults, then something else
    return [rng.choice(trans) for _ in range(rng.choice([9, 10, 10, 11]))] + [rng.choice(alpha)], rng.choice(["ok"] + trans)


def random_case(ctx, env, targets, rng, i):
    target = rng.choice(targets)
    kinds, tail = random_sequence(rng, alphabet_for(target, extended=True))
    one_case(ctx, env, target, kinds, tail, tag=(f"B:{target}" if i % 499 == 0 else None))


def wire_case(ctx, env, targets, rng, i):
    target = rng.choice(targets)
    kinds, tail = random_sequence(rng, env.wire.alphabet(target), env.wire.transient_kinds(target))
    one_case(ctx, env, target, kinds, tail, tag=(f"W:{target}" if i % 37 == 0 else None), layer="wire")


def classify(v):
    """Known findings, each a predicate over the witness (mechanism, not seed)."""
    w = v["witness"]
    last, surfaced = w.get("last_outcome") or {}, w.get("surfaced") or {}
    # an API error whose response had no body (all HEAD requests: exists / template_exists; empty proxy answers) carries the message
    # 'None'; guarded() builds "An error [None] occurred ..." from it: a Rally error, but the cause (the HTTP status) is not named
    if (
        v["clause"] == "rally-error-names-cause"
        and last.get("api_error")
        and last.get("message") == "None"
        and surfaced.get("type") == "RallyError"
        and "An error [None] occurred" in surfaced.get("message", "")
    ):
        return "api-error-without-body-reported-as-none"
    # EsClient.get_index passes name= to IndicesClient.get(), which only knows index=: TypeError before any request is sent
    if (
        v["clause"] == "operation-reaches-store"
        and w["case"]["target"] == "get_index"
        and surfaced.get("type") == "TypeError"
        and "unexpected keyword argument 'name'" in surfaced.get("message", "")
        and w["observed"].get("http_exchanges") == 0
    ):
        return "get-index-wrong-keyword"
    return None


def replay(ctx, rec):
    from props import c17_wire

    env = Env()
    c = rec["witness"]["case"]
    if c.get("layer") == "wire":
        env.wire = c17_wire.Wire(env)
    one_case(ctx, env, c["target"], c["kinds"], c["tail"], layer=c.get("layer", "scripted"))


MANIFEST = {
    "text": "Fault enumeration: the real metrics.EsClient.guarded and each of the 12 public EsClient store operations run against a scripted client that raises the real "
    "elasticsearch / elastic_transport exceptions and helpers.BulkIndexError payloads: every outcome sequence up to length 4 (quick) / 5 (thorough) over an alphabet of 11 "
    "(15 for bulk) outcomes, continued by success or by a transient fault until the retry budget is exhausted, plus seeded random sequences up to length 12 over an extended "
    "alphabet; a sample of sequences additionally runs through rally's real sync client, transport and helpers.bulk with a scripted HTTP node (bulk answers keyed by the action the client wrote). A reference interpreter of the "
    "statement checks call count (<= 11), no call after success, no retry after non-retryable errors, retry after transient ones, one exponentially growing pause between "
    "attempts, identical calls, the first success's result, and Rally errors naming the cause. Holds on the sequences enumerated, not beyond.",
    "note": "Trusts the reference interpreter, the outcome classification by exception class / status stated in the assumptions, and the lenient reading of 'names the cause'. "
    "Known findings: API errors without a response body are reported as 'An error [None] occurred'; EsClient.get_index cannot call the real client (wrong keyword).",
    "technique": "runtime monitor: reference-model oracle in lock-step with the real retry loop over an exhaustively enumerated fault alphabet; recorded sleep",
    "design_ref": "DESIGN.md section 4 C17",
}
