"""C20 - race comparison reports signed differences with the right direction.

Monitor: pairs of generated result structures are written as two races with the real FileRaceStore and compared with the
real `reporter.compare()` (console output captured with colours switched on, report file written as markdown or csv). The
rows handed to `write_single_report` (plain and rich) are checked against a reference row builder written from the property
statement and docs/summary_report.rst: which rows must be there, baseline / contender / Diff / Diff % cells, and the colour
and sign of every Diff cell judged against the number printed in it. Three comparisons per pair - (b, c), (c, b), (b, b) -
give the metamorphic relations *swap* and *self*.
"""
import contextlib
import copy
import csv
import io
import os
import re
import shutil
import traceback
from fractions import Fraction

os.environ["TERM"] = "xterm"  # console.init() falls back to plain output for TERM=dumb

from esrally import config, metrics, reporter, track  # noqa: E402
from esrally.utils import console  # noqa: E402

from props import c08, c08_gen as gen  # noqa: E402

ID = "C20"
LEVEL = "exploration"
RULE = (
    "seeded generator of pairs of result structures (one mutated into the other: subset of tasks / metrics / percentiles, optional sections "
    "present or absent, values 0 / negative / equal / differing below and around the printing thresholds; some pairs computed by the real "
    "calculator); a pair is non-trivial when at least one row is expected and the structures differ; distinct = hash of the pair and the report settings"
)
ASSUMPTIONS = [
    "a metric is 'present' in a race when its value in the stored result is not null; the metrics are those of docs/summary_report.rst (means of latency blocks and durations are not report lines)",
    "processing time rows are only expected with reporting/output.processingtime=true (docs/summary_report.rst)",
    "per-field disk usage: a statistic that is not recorded means 0 bytes (docs: recorded only when non-zero); rows for a field that only one race knows are neither required nor forbidden",
    "the relative difference is checked as (c-b)/b*100 for b != 0 only; for b = 0 the cell only has to be neutral or consistent with its own printed sign",
    "swap relation for the Diff % column only when b and c are non-zero and of equal sign, and only as 'never the same non-neutral colour / same sign'",
    "units of a row are taken from the row (min, s, GB, MB, kB, bytes, %); the cell must be the stored value converted to that unit (relative tolerance 1e-9)",
]
REQUIRED_CLAUSES = [
    "comparison-completes", "rows-listed", "no-unshared-row", "cells-baseline-contender", "diff-value", "diff-percent", "zero-prints-neutral", "colour-direction",
    "nonzero-print-marked", "plus-prefix", "rich-equals-plain", "self-no-difference", "swap-rows", "swap-diff", "swap-percent", "file-equals-console", "csv-cells",
]
REQUIRED_FEATURES = {
    "quick": {
        "format:markdown": 100, "format:csv": 100, "align:right": 50, "align:decimal": 50, "processing-time-on": 50, "task-only-in-one": 50, "metric-only-in-one": 50,
        "percentile-only-in-one": 20, "section:ml": 20, "section:transform": 20, "section:disk-usage": 20, "section:per-shard": 20, "section:ingest-pipeline": 20,
        "negative": 20, "baseline-zero": 50, "below-threshold": 50, "green-cell": 100, "red-cell": 100, "higher-better-row": 100, "from-calculator": 10, "non-ascii-task": 50, "legacy-file": 20,
    },
    "thorough": {
        "format:markdown": 1000, "format:csv": 1000, "align:right": 500, "align:decimal": 500, "processing-time-on": 500, "task-only-in-one": 500, "metric-only-in-one": 500,
        "percentile-only-in-one": 200, "section:ml": 200, "section:transform": 200, "section:disk-usage": 200, "section:per-shard": 200, "section:ingest-pipeline": 200,
        "negative": 200, "baseline-zero": 500, "below-threshold": 500, "green-cell": 1000, "red-cell": 1000, "higher-better-row": 1000, "from-calculator": 100, "non-ascii-task": 500, "legacy-file": 200,
    },
}
BUDGET = {
    "quick": {"cases": 8000, "seconds": 36},
    "thorough": {"cases": 200000, "seconds": 660},
}

# race.json files written by older Rally versions lack the result keys that were added later (transform, ingest pipeline, disk usage, ZGC,
# dataset size); GlobalStats reads them as None. Set to False to leave such files out of the workload.
LEGACY_FILES = True
LEGACY_GROUPS = ["total_transform_", "ingest_pipeline_", "disk_usage_", "zgc_", "dataset_size"]

ANSI = re.compile(r"\x1b\[[0-9;]*m")
COLOURS = {"\x1b[31;1m": "red", "\x1b[32;1m": "green", "\x1b[39;1m": "neutral"}
DIFF_RE = re.compile(r"^[+-]?\d+\.\d{5}$")
PCT_RE = re.compile(r"^[+-]?\d+\.\d{2}%$")
HEADERS = ["Metric", "Task", "Baseline", "Contender", "Diff", "Unit", "Diff %"]

# label -> (attribute path, source unit); every one of these is "lower is better" (times, counts, sizes)
GLOBAL_ROWS = []
for _name, _attr, _count in (
    ("indexing time", "total_time", None), ("indexing throttle time", "indexing_throttle_time", None), ("merge time", "merge_time", "merge_count"),
    ("merge throttle time", "merge_throttle_time", None), ("refresh time", "refresh_time", "refresh_count"), ("flush time", "flush_time", "flush_count"),
):
    GLOBAL_ROWS.append((f"Cumulative {_name} of primary shards", (_attr,), "ms"))
    if _count:
        GLOBAL_ROWS.append((f"Cumulative {_name.replace('time', 'count')} of primary shards", (_count,), "plain"))
    for _k in ("min", "median", "max"):
        GLOBAL_ROWS.append((f"{_k.capitalize()} cumulative {_name} across primary shard", (_attr + "_per_shard", _k), "ms"))
for _p, _d in (("young", "Young Gen"), ("old", "Old Gen"), ("zgc_cycles", "ZGC Cycles"), ("zgc_pauses", "ZGC Pauses")):
    GLOBAL_ROWS.append((f"Total {_d} GC time", (f"{_p}_gc_time",), "ms"))
    GLOBAL_ROWS.append((f"Total {_d} GC count", (f"{_p}_gc_count",), "plain"))
GLOBAL_ROWS += [
    ("Dataset size", ("dataset_size",), "bytes"), ("Store size", ("store_size",), "bytes"), ("Translog size", ("translog_size",), "bytes"),
    ("Heap used for segments", ("memory_segments",), "bytes"), ("Heap used for doc values", ("memory_doc_values",), "bytes"),
    ("Heap used for terms", ("memory_terms",), "bytes"), ("Heap used for norms", ("memory_norms",), "bytes"),
    ("Heap used for points", ("memory_points",), "bytes"), ("Heap used for stored fields", ("memory_stored_fields",), "bytes"),
    ("Segment count", ("segment_count",), "plain"),
    ("Total Ingest Pipeline count", ("ingest_pipeline_cluster_count",), "plain"), ("Total Ingest Pipeline time", ("ingest_pipeline_cluster_time",), "ms"),
    ("Total Ingest Pipeline failed", ("ingest_pipeline_cluster_failed",), "plain"),
]
TRANSFORM_ROWS = [
    ("Transform processing time", "total_transform_processing_times", False), ("Transform indexing time", "total_transform_index_times", False),
    ("Transform search time", "total_transform_search_times", False), ("Transform throughput", "total_transform_throughput", True),
]
DISK_STATS = {
    "inverted index": "disk_usage_inverted_index", "stored fields": "disk_usage_stored_fields", "doc values": "disk_usage_doc_values", "points": "disk_usage_points",
    "norms": "disk_usage_norms", "term vectors": "disk_usage_term_vectors", "total": "disk_usage_total",
}
UNIT_FACTORS = {
    "ms": {"min": 1 / 60000, "s": 1 / 1000, "ms": 1},
    "bytes": {"GB": 1 / 1024**3, "MB": 1 / 1024**2, "kB": 1 / 1024, "bytes": 1, "N/A": 1},
    "ratio": {"%": 100},
}


def num(v):
    return gen.is_finite_number(v)


# --------------------------------------------------------------------------- reference row builder
def path_get(d, path):
    cur = d
    for p in path:
        if not isinstance(cur, dict):
            return None
        cur = cur.get(p)
    return cur


def task_index(d):
    return {o["task"]: o for o in d.get("op_metrics") or []}


def expected_rows(b, c, show_pt):
    """{(label, task): {"b", "c", "src", "higher_better"}} for every metric present (not null) in both; second dict: optional rows."""
    rows, optional = {}, {}

    def add(label, task, bv, cv, src, higher=False, into=None):
        if num(bv) and num(cv):
            (rows if into is None else into)[(label, str(task))] = {"b": bv, "c": cv, "src": src, "higher_better": higher}

    for label, path, src in GLOBAL_ROWS:
        add(label, "", path_get(b, path), path_get(c, path), src)
    cj = {j["job"]: j for j in c.get("ml_processing_time") or []}
    for j in b.get("ml_processing_time") or []:
        if j["job"] in cj:
            for k in ("min", "mean", "median", "max"):
                add(f"{k.capitalize()} ML processing time", j["job"], j[k], cj[j["job"]][k], "plain")
    for label, attr, higher in TRANSFORM_ROWS:
        ci = {t["id"]: t for t in c.get(attr) or []}
        for t in b.get(attr) or []:
            if t["id"] in ci:
                add(label, t["id"], t["mean"], ci[t["id"]]["mean"], "plain", higher)

    def collate(d):
        out = {}
        for stat, attr in DISK_STATS.items():
            for it in d.get(attr) or []:
                out.setdefault((it["index"], it["field"]), {})[stat] = it["value"]
        return out

    if b.get("disk_usage_total") and c.get("disk_usage_total"):
        db, dc = collate(b), collate(c)
        tb = {(i["index"], i["field"]) for i in b["disk_usage_total"]}
        tc = {(i["index"], i["field"]) for i in c["disk_usage_total"]}
        for key in set(db) | set(dc):
            for stat in DISK_STATS:
                bv, cv = db.get(key, {}).get(stat, 0), dc.get(key, {}).get(stat, 0)
                if bv == 0 and cv == 0:
                    continue
                add(f"{key[0]} {key[1]} {stat}", "", bv, cv, "bytes", into=None if key in tb and key in tc else optional)
    tb, tc = task_index(b), task_index(c)
    for t, ob in tb.items():
        if t not in tc:
            continue
        oc = tc[t]
        for k in ("min", "mean", "median", "max"):
            add(f"{k.capitalize()} Throughput", t, ob["throughput"].get(k), oc["throughput"].get(k), "plain", True)
        blocks = [("latency", "latency"), ("service_time", "service time")] + ([("processing_time", "processing time")] if show_pt else [])
        for attr, name in blocks:
            bb, cb = ob.get(attr) or {}, oc.get(attr) or {}
            for k in bb:
                if k in ("mean", "unit") or k not in cb:
                    continue
                add("%sth percentile %s" % (("%f" % float(k.replace("_", "."))).rstrip("0").rstrip("."), name), t, bb[k], cb[k], "plain")
        add("error rate", t, ob.get("error_rate"), oc.get("error_rate"), "ratio")
    return rows, optional


def convert_ref(value, src, unit):
    """Stored value in the unit the row declares; None if the unit does not belong to this kind of metric. Float arithmetic: every
    comparison below has a relative tolerance of 1e-9, seven orders of magnitude above float rounding."""
    if src == "plain":
        return value
    f = UNIT_FACTORS[src].get(unit)
    return None if f is None else value * f


def near(cell, ref, rel_to):
    return num(cell) and abs(cell - ref) <= 1e-9 * max(abs(rel_to), abs(ref))


def parse_cell(cell):
    """Printed Diff / Diff % cell -> (value, has_plus) or None. The value is 0.0 exactly iff every printed digit is 0."""
    s = cell[:-1] if cell.endswith("%") else cell
    try:
        return float(s.lstrip("+")), s.startswith("+")
    except ValueError:
        return None


def colour_of(cell):
    for code, name in COLOURS.items():
        if cell.startswith(code) and cell.endswith("\x1b[0m"):
            return name
    return None


# --------------------------------------------------------------------------- running the real code
class Env:
    def __init__(self, scratch):
        self.root = scratch / "c20root"
        self.count = 0
        self.reported = {}
        console.init(quiet=False, assume_tty=True)

    def fresh(self):
        self.count += 1
        if self.count % 20 == 0:
            shutil.rmtree(self.root, ignore_errors=True)
        return f"{self.count:06d}"


def make_cfg(env, fmt, align, show_pt, out):
    cfg = config.Config()

    def add(section, key, value):
        cfg.add(config.Scope.application, section, key, value)

    add("system", "env.name", "verif")
    add("system", "list.max_results", 100)
    add("node", "root.dir", str(env.root))
    add("node", "rally.cwd", str(env.root))
    add("reporting", "datastore.type", "in-memory")
    add("reporting", "output.path", out)
    add("reporting", "format", fmt)
    if align is not None:
        add("reporting", "numbers.align", align)
    if show_pt is not None:
        add("reporting", "output.processingtime", show_pt)
    return cfg


def store_race(env, race_id, d):
    cfg = c08.make_cfg(env.root, race_id)
    trk = track.Track("trâck", challenges=[track.Challenge("défi", default=True)])
    race = c08.make_race(cfg, trk, trk.challenges[0])
    race.add_results(metrics.GlobalStats(copy.deepcopy(d)))
    metrics.race_store(cfg).store_race(race)


def run_compare(env, tag, bid, cid, settings):
    """The body of `esrally compare`: returns dict(plain, rich, console, file) or raises."""
    fmt, align, show_pt = settings
    out = str(env.root / "reports" / f"{tag}.{'md' if fmt == 'markdown' else 'csv'}")
    cfg = make_cfg(env, fmt, align, show_pt, out)
    captured = {}
    original = reporter.write_single_report

    def spy(report_file, report_format, cwd, numbers_align, headers, data_plain, data_rich):
        captured.update(headers=list(headers), plain=copy.deepcopy(data_plain), rich=copy.deepcopy(data_rich))
        return original(report_file, report_format, cwd, numbers_align, headers, data_plain, data_rich)

    buf = io.StringIO()
    reporter.write_single_report = spy
    try:
        with contextlib.redirect_stdout(buf):
            reporter.compare(cfg, bid, cid)
    finally:
        reporter.write_single_report = original
    captured["console"] = buf.getvalue()
    with open(out, encoding="utf-8", newline="") as f:
        captured["file"] = f.read()
    captured["fmt"] = fmt
    return captured


# --------------------------------------------------------------------------- monitors
def check_table(ctx, b, c, run, show_pt, feats):
    """All single-run clauses. Returns [(clause, msg, focus)] and the parsed rows {(label, task): info}."""
    probs = []
    plain, rich = run["plain"], run["rich"]

    def bad(clause, msg, **focus):
        probs.append((clause, msg, focus))

    exp, optional = expected_rows(b, c, show_pt)
    got = {}
    for i, row in enumerate(plain):
        key = (row[0], row[1]) if len(row) == 7 else ("?", str(i))
        if len(row) != 7 or key in got:
            bad("no-unshared-row", f"malformed or duplicate row {row!r}", row=row)
            continue
        got[key] = {"row": row, "i": i}
    ctx.clause("rows-listed")
    missing = [k for k in exp if k not in got]
    if missing:
        k = missing[0]
        bad("rows-listed", f"{len(missing)} metric(s) present in both races are not listed, e.g. {k!r}: baseline {exp[k]['b']!r}, contender {exp[k]['c']!r}",
            key=list(k), b=exp[k]["b"], c=exp[k]["c"])
    ctx.clause("no-unshared-row")
    extra = [k for k in got if k not in exp and k not in optional]
    if extra:
        bad("no-unshared-row", f"{len(extra)} row(s) listed for metrics that are not present in both races, e.g. {got[extra[0]]['row']!r}", key=list(extra[0]), row=got[extra[0]]["row"])
    ctx.clause("rich-equals-plain")
    if len(rich) != len(plain) or any([ANSI.sub("", x) if isinstance(x, str) else x for x in rr] != list(pr) for rr, pr in zip(rich, plain)):
        bad("rich-equals-plain", "the console table differs from the file table in more than colour codes")
    for key, info in got.items():
        e = exp.get(key) or optional.get(key)
        if e is None:
            continue
        label, task, bcell, ccell, dcell, unit, pcell = info["row"]
        rrow = rich[info["i"]] if info["i"] < len(rich) else None
        bv, cv = e["b"], e["c"]
        info.update(b=bv, c=cv, higher=e["higher_better"], optional=key not in exp)
        if e["higher_better"]:
            feats.add("higher-better-row")
        rb, rc = convert_ref(bv, e["src"], unit), convert_ref(cv, e["src"], unit)
        ctx.clause("cells-baseline-contender")
        if rb is None or not near(bcell, rb, rb) or not near(ccell, rc, rc):
            bad("cells-baseline-contender", f"row {label!r}/{task!r}: cells {bcell!r}, {ccell!r} [{unit}] are not the stored values {bv!r}, {cv!r}", key=list(key), row=info["row"], b=bv, c=cv)
            continue
        for col, cell, is_pct in (("Diff", dcell, False), ("Diff %", pcell, True)):
            parsed = parse_cell(cell) if isinstance(cell, str) and (PCT_RE if is_pct else DIFF_RE).match(cell) else None
            focus = dict(key=list(key), column=col, cell=cell, b=bv, c=cv, higher_better=e["higher_better"])
            if parsed is None:
                bad("diff-percent" if is_pct else "diff-value", f"row {label!r}/{task!r}: {col} cell {cell!r} is not a number with {2 if is_pct else 5} decimals", **focus)
                continue
            val, plus = parsed
            info["pct" if is_pct else "diff"] = val
            if not is_pct:
                ctx.clause("diff-value")
                ref = rc - rb
                tol = 5e-6 + 1e-9 * max(abs(rb), abs(rc))
                if abs(val - ref) > tol:
                    bad("diff-value", f"row {label!r}/{task!r}: Diff {cell!r} but contender - baseline = {float(rc)!r} - {float(rb)!r} = {float(ref)!r}", expected=float(ref), **focus)
                if 0 < abs(ref) < 1e-5:
                    feats.add("below-threshold")
            elif bv != 0:
                ctx.clause("diff-percent")
                ref = float((Fraction(cv) - Fraction(bv)) / Fraction(bv) * 100)
                tol = 5e-3 + 1e-9 * abs(ref) + 1e-7 * abs(100 * max(abs(bv), abs(cv)) / bv)
                if abs(val - ref) > tol:
                    bad("diff-percent", f"row {label!r}/{task!r}: Diff % {cell!r} but (c-b)/b*100 = {float(ref)!r} (b={bv!r}, c={cv!r})", expected=float(ref), **focus)
            else:
                feats.add("baseline-zero")
            # sign / colour semantics, judged against the number printed in this very cell
            col_name = colour_of(rrow[4 if not is_pct else 6]) if rrow is not None and isinstance(rrow[4 if not is_pct else 6], str) else None
            info["pct_colour" if is_pct else "diff_colour"] = col_name
            focus["colour"] = col_name
            if col_name is None:
                bad("colour-direction", f"row {label!r}/{task!r}: {col} cell on the console carries no colour code: {rrow[4 if not is_pct else 6] if rrow else None!r}", **focus)
                continue
            if col_name in ("green", "red"):
                feats.add(col_name + "-cell")
            ctx.clause("plus-prefix")
            if plus and val <= 0:
                bad("plus-prefix", f"row {label!r}/{task!r}: {col} {cell!r} has a '+' but is not positive", **focus)
            if val == 0:
                ctx.clause("zero-prints-neutral")
                if col_name != "neutral":
                    bad("zero-prints-neutral", f"row {label!r}/{task!r}: {col} prints as zero ({cell!r}) but is coloured {col_name}", **focus)
                continue
            ctx.clause("colour-direction")
            improvement = (val > 0) == e["higher_better"]
            if col_name != "neutral" and (col_name == "green") != improvement:
                bad("colour-direction", f"row {label!r}/{task!r}: {col} {cell!r} is coloured {col_name} although {'higher' if e['higher_better'] else 'lower'} is better", **focus)
            ctx.clause("nonzero-print-marked")
            if col_name == "neutral" or (val > 0 and not plus):
                bad("nonzero-print-marked", f"row {label!r}/{task!r}: {col} prints the non-zero difference {cell!r} but it is "
                    f"{'coloured neutral' if col_name == 'neutral' else 'coloured ' + col_name}{'' if plus or val < 0 else ' and has no + sign'} (b={bv!r}, c={cv!r})", **focus)
    return probs, got


def check_output(ctx, run):
    probs = []
    ctx.clause("file-equals-console")
    stripped = ANSI.sub("", run["console"])
    marker = reporter.FINAL_SCORE + "\n"
    table = stripped.split(marker, 1)[1] if marker in stripped else None
    if table != run["file"] + "\n":
        probs.append(("file-equals-console", f"report file ({run['fmt']}) differs from the console table without colour codes: file starts {run['file'][:120]!r}, console table starts {str(table)[:120]!r}", {"fmt": run["fmt"]}))
    if "\x1b[" in run["file"]:
        probs.append(("file-equals-console", "report file contains colour codes", {"fmt": run["fmt"]}))
    if run["fmt"] == "csv":
        ctx.clause("csv-cells")
        parsed = list(csv.reader(io.StringIO(run["file"])))
        want = [HEADERS] + [[str(x) for x in row] for row in run["plain"]]
        if parsed != want:
            i = next((i for i, (x, y) in enumerate(zip(parsed, want)) if x != y), min(len(parsed), len(want)))
            probs.append(("csv-cells", f"csv file row {i}: {parsed[i] if i < len(parsed) else None!r} != table row {want[i] if i < len(want) else None!r}", {"fmt": "csv"}))
    return probs


def check_self(ctx, got):
    probs = []
    for key, info in got.items():
        ctx.clause("self-no-difference")
        row = info["row"]
        if info.get("diff") != 0 or info.get("pct") != 0 or info.get("diff_colour") != "neutral" or info.get("pct_colour") != "neutral" or row[2] != row[3]:
            probs.append(("self-no-difference", f"comparing a race with itself: row {row!r} shows a difference or a colour ({info.get('diff_colour')}/{info.get('pct_colour')})", {"key": list(key), "row": row}))
    return probs


def check_swap(ctx, fwd, rev):
    probs = []
    ctx.clause("swap-rows")
    required = lambda rows: {k for k, v in rows.items() if not v.get("optional")}  # noqa: E731
    if required(fwd) != required(rev):
        d = sorted(required(fwd) ^ required(rev))
        probs.append(("swap-rows", f"swapping baseline and contender changes the set of rows, e.g. {d[0]!r}", {"key": list(d[0])}))
    flip = {"red": "green", "green": "red", "neutral": "neutral"}
    for key, f in fwd.items():
        r = rev.get(key)
        if r is None or "diff" not in f or "diff" not in r:
            continue
        ctx.clause("swap-diff")
        if f["diff"] != -r["diff"] or flip.get(f.get("diff_colour")) != r.get("diff_colour") or f["row"][2] != r["row"][3] or f["row"][3] != r["row"][2]:
            probs.append(("swap-diff", f"row {key!r}: Diff {f['row'][4]!r} ({f.get('diff_colour')}) becomes {r['row'][4]!r} ({r.get('diff_colour')}) when baseline and contender are swapped",
                          {"key": list(key), "b": f.get("b"), "c": f.get("c"), "fwd": f["row"], "rev": r["row"]}))
        bv, cv = f.get("b"), f.get("c")
        if "pct" in f and "pct" in r and bv and cv and (bv > 0) == (cv > 0):
            ctx.clause("swap-percent")
            same_sign = f["pct"] * r["pct"] > 0
            same_colour = f.get("pct_colour") == r.get("pct_colour") != "neutral"
            if same_sign or same_colour:
                probs.append(("swap-percent", f"row {key!r}: Diff % {f['row'][6]!r} ({f.get('pct_colour')}) and, swapped, {r['row'][6]!r} ({r.get('pct_colour')}) point the same way",
                              {"key": list(key), "b": bv, "c": cv, "fwd": f["row"], "rev": r["row"]}))
    return probs


# --------------------------------------------------------------------------- cases
def describe(e):
    tb = traceback.extract_tb(e.__traceback__)
    where = next((f"{f.name}:{f.lineno}" for f in reversed(tb) if "/esrally/" in f.filename), "")
    return f"{type(e).__name__}: {e} [{where}]"


def pair_problems(ctx, env, b, c, settings, feats):
    """Runs (b,c), (c,b), (b,b) through the real compare command. Returns [(clause, msg, focus)]."""
    tag = env.fresh()
    bid, cid = f"base-{tag}", f"cont-{tag}"
    store_race(env, bid, b)
    store_race(env, cid, c)
    show_pt = bool(settings[2])
    probs = []
    runs = {}
    for name, (x, y, dx, dy) in {"fwd": (bid, cid, b, c), "rev": (cid, bid, c, b), "self": (bid, bid, b, b)}.items():
        ctx.clause("comparison-completes")
        try:
            run = run_compare(env, f"{tag}-{name}", x, y, settings)
        except Exception as e:
            missing = lambda d: sorted(g for g in LEGACY_GROUPS if not any(k.startswith(g) for k in d))  # noqa: E731
            has_transform = lambda d: bool(d.get("total_transform_processing_times"))  # noqa: E731
            probs.append(("comparison-completes", f"comparing two stored races raised {describe(e)}",
                          {"run": name, "error": type(e).__name__, "where": describe(e).rsplit("[", 1)[-1].split(":")[0], "baseline_lacks": missing(dx), "contender_lacks": missing(dy),
                           "baseline_has_transforms": has_transform(dx)}))
            continue
        p, got = check_table(ctx, dx, dy, run, show_pt, feats)
        for clause, msg, focus in p:
            focus["run"] = name
        probs.extend(p)
        probs.extend((cl, m, dict(f, run=name)) for cl, m, f in check_output(ctx, run))
        runs[name] = got
    if "self" in runs:
        probs.extend((cl, m, dict(f, run="self")) for cl, m, f in check_self(ctx, runs["self"]))
    if "fwd" in runs and "rev" in runs:
        probs.extend((cl, m, dict(f, run="swap")) for cl, m, f in check_swap(ctx, runs["fwd"], runs["rev"]))
    return probs


def results_from_calculator(env, rng):
    """A result structure computed by the real calculator from a generated store, and a relative of it from perturbed records."""
    spec = gen.gen_store_spec(rng, "small")
    spec2 = copy.deepcopy(spec)
    factor = rng.choice([1.0, 1.0000001, 0.97, 1.5])
    for r in spec2["records"]:
        if r["k"] in ("req", "thr") and rng.random() < 0.8:
            r["v"] = r["v"] * factor
        if r["k"] == "req" and rng.random() < 0.05:
            r["ok"] = not r["ok"]
    if spec2["records"] and rng.random() < 0.5:
        del spec2["records"][:: rng.choice([3, 7])]
    out = []
    for s in (spec, spec2):
        race, _ = c08.run_real(s, env.root / "calc", "calc")
        out.append(copy.deepcopy(race.results.as_dict()))
    return out


def gen_pair(env, rng):
    feats = set()
    r = rng.random()
    if r < 0.04:
        b, c = results_from_calculator(env, rng)
        feats.add("from-calculator")
    else:
        negative = rng.random() < 0.25
        b, f1 = gen.gen_results(rng, negative)
        if r < 0.12:
            c, f2 = gen.gen_results(rng, negative)
            feats.add("independent")
        else:
            c, f2 = gen.mutate_results(rng, b, negative)
        feats |= f1 | f2
    feats = set("section:" + f if f in ("ml", "transform", "disk-usage", "per-shard", "ingest-pipeline") else f for f in feats)
    if LEGACY_FILES and rng.random() < 0.06:
        groups = rng.sample(LEGACY_GROUPS, rng.randint(1, len(LEGACY_GROUPS)))
        for k in [k for k in c if k.startswith(tuple(groups))]:
            del c[k]
        feats.add("legacy-file")
    if rng.random() < 0.5:
        b, c = c, b
    settings = (rng.choice(["markdown", "csv", "csv"]), rng.choice(["decimal", "right", "right", "center", None]), rng.choice([None, False, True, "true"]))
    feats.add("format:" + settings[0])
    if settings[1] in ("right", "decimal"):
        feats.add("align:" + settings[1])
    if settings[2]:
        feats.add("processing-time-on")
    return b, c, settings, feats


def compact_pair(b, c, key):
    """The part of a pair a violation is about: the task, or the one global attribute / section, named by the row key."""
    if not key:
        return None
    label, task = key
    keep = [path[0] for lab, path, _ in GLOBAL_ROWS if lab == label and task == ""]
    if not keep and label.endswith("ML processing time"):
        keep = ["ml_processing_time"]
    if not keep and label.startswith("Transform "):
        keep = list(gen.TRANSFORM_METRICS)
    if not keep and task == "" and not any(o["task"] == "" for o in b.get("op_metrics") or []):
        keep = list(gen.DISK_USAGE_ATTRS)

    def part(d):
        if keep:
            return dict({"op_metrics": []}, **{k: d[k] for k in keep if k in d})
        return {"op_metrics": [o for o in d.get("op_metrics") or [] if o["task"] == task]}

    pb, pc = part(b), part(c)
    return (pb, pc) if len(str(pb)) + len(str(pc)) < 5000 else None


def report(ctx, env, b, c, settings, probs, idx):
    seen = set()
    for clause, msg, focus in probs:
        k = (clause, focus.get("column"), focus.get("run"))
        if k in seen or len(seen) >= 5:
            continue
        seen.add(k)
        witness = {"gen": {"case": idx}, "settings": list(settings), "focus": focus}
        mech = classify({"clause": clause, "witness": witness, "msg": msg}) or clause
        env.reported[mech] = env.reported.get(mech, 0) + 1
        if env.reported[mech] <= 3:
            small = compact_pair(b, c, focus.get("key"))
            if small is None and clause == "comparison-completes":
                strip = lambda d: dict({"op_metrics": []}, **{k: v for k, v in d.items() if k.startswith(tuple(LEGACY_GROUPS)) and v not in (None, [])})  # noqa: E731
                small = (strip(b), strip(c))
            if small is not None:
                # keep the reduced pair only if the same clause still fails on it
                again = pair_problems(c08._Null(), env, small[0], small[1], settings, set())
                if any(cl == clause for cl, _, _ in again):
                    witness["baseline"], witness["contender"] = small
            if "baseline" not in witness and len(str(b)) + len(str(c)) < 8000:
                witness["baseline"], witness["contender"] = b, c
        ctx.violation(clause, witness, msg)


def one_case(ctx, env, idx, explicit=None):
    if explicit is None:
        b, c, settings, feats = gen_pair(env, ctx.case_rng(idx))
    else:
        b, c, settings = explicit
        settings, feats = tuple(settings), set()
    probs = pair_problems(ctx, env, b, c, settings, feats)
    if any(ord(ch) > 127 for o in b.get("op_metrics") or [] for ch in o["task"]):
        feats.add("non-ascii-task")
    exp, _ = expected_rows(b, c, bool(settings[2]))
    ctx.case([b, c, list(settings)], bool(exp) and b != c, feats)
    slim = lambda d: {k: v for k, v in d.items() if v not in (None, [], {})}  # noqa: E731
    if len(str(slim(b))) + len(str(slim(c))) < 1800:
        ctx.sample({"baseline": slim(b), "contender": slim(c), "settings": list(settings), "rows_expected": len(exp)}, tag="+".join(sorted(f for f in feats if not f.startswith(("format", "align"))))[:80])
    report(ctx, env, b, c, settings, probs, idx)
    return probs


def run_shard(ctx):
    env = Env(ctx.scratch)
    i = 0
    while ctx.more():
        one_case(ctx, env, i)
        i += 1


def classify(v):
    f = (v.get("witness") or {}).get("focus") or {}
    if v["clause"] == "comparison-completes":
        # _report_transform_processing_times returns early when the *baseline* has no transform section (file of an older Rally) but iterates
        # the contender's sections unguarded
        if (f.get("error") == "TypeError" and f.get("where") == "_report_transform_processing_times" and f.get("baseline_has_transforms")
                and "total_transform_" in (f.get("contender_lacks") or []) and "total_transform_" not in (f.get("baseline_lacks") or [])):
            return "transform-section-guard-baseline-only"
    if v["clause"] == "nonzero-print-marked":
        # ComparisonReporter._diff compares the *unrounded* difference with 10**-precision but prints the rounded one:
        # 0.5*10**-p <= |diff| < 10**-p prints as 0.00001 / 0.01% yet is coloured neutral and gets no '+'
        cell = f.get("cell") or ""
        digits = cell.rstrip("%").lstrip("+-")
        if f.get("colour") == "neutral" and digits in ("0.00001", "0.01") and not cell.startswith("+"):
            return "diff-threshold-on-unrounded-value"
    return None


def replay(ctx, rec):
    env = Env(ctx.scratch)
    w = rec["witness"]
    if w.get("baseline") is not None:
        one_case(ctx, env, w["gen"]["case"], explicit=(w["baseline"], w["contender"], w["settings"]))
    else:
        one_case(ctx, env, w["gen"]["case"])


MANIFEST = {
    "text": "Exploration: up to 8*10^3 (quick) / 2*10^5 (thorough) generated pairs of stored race results (time-capped; three comparisons per pair) go through the real `esrally compare` code path (FileRaceStore, "
    "ComparisonReporter, report file as markdown / csv, colours on); rows, cells, signs and colours are compared with a reference row builder written from the statement, "
    "plus the relations self-comparison, swap and file = console minus colour codes. Holds on the pairs generated, not beyond.",
    "note": "Trusts the reference row builder (label/direction table from docs/summary_report.rst and the statement, 120 lines) and the scope decisions listed under assumptions "
    "(percentage column for zero / negative baselines, disk-usage rows of fields known to one race only).",
    "technique": "runtime monitor: reference-model oracle on the rows handed to write_single_report + metamorphic relations (self, swap, plain vs rich, file vs console)",
    "design_ref": "DESIGN.md section 4 C20",
}
