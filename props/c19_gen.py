"""Seeded generators of Elasticsearch-shaped responses for C19 (bulk, search, scroll, composite-agg pages).

Documents are plain Python objects whose dict order *is* the key order of the rendered text. The `sort` member of
the last hit of a search page is stored under the key MARK so that render() can report the text position of that
token (needed to say, independently of the code under test, whether some other "sort" token occurs after it).
"""
import json

MARK = "\u0001LASTSORT\u0001"
MARK_TXT = json.dumps(MARK)

LAYOUTS = {
    "compact": {"separators": (",", ":")},  # what Elasticsearch sends
    "spaced": {"separators": (", ", ": ")},  # json.dumps default
    "pretty": {"indent": 2, "separators": (",", ": ")},  # json.dumps(indent=2)
    "jackson": {"indent": 2, "separators": (",", " : ")},  # ?pretty of Elasticsearch (Jackson): "key" : value
}


def render(doc, layout, ascii_only):
    """-> (text, position of the last hit's "sort" key token or -1)."""
    text = json.dumps(doc, ensure_ascii=ascii_only, **LAYOUTS[layout])
    if layout in ("pretty", "jackson"):
        text += "\n"
    pos = text.find(MARK_TXT)
    if pos >= 0:
        text = text[:pos] + '"sort"' + text[pos + len(MARK_TXT):]
    return text, pos


def shuffled(o, rng):
    if isinstance(o, dict):
        items = [(k, shuffled(v, rng)) for k, v in o.items()]
        rng.shuffle(items)
        return dict(items)
    if isinstance(o, list):
        return [shuffled(v, rng) for v in o]
    return o


# ---------------------------------------------------------------- scalars
HOT = ['"', "\\", "[", "]", "{", "}", ",", ":", "sort", "errors", "took", '"sort":[', '"sort"', 'sort":', "]]", '"]', '["', '\\"', "\\\\", "\\u0022", "\\n", "]", "}]"]
PLAIN = ["a", "b", "kimchy", "x1", "0", "42", "-1", "1e5", "null", "true", " ", "_", "-", ".", "/", "@", "after_key", "hits"]
UNI = ["\u00e9", "\u00fc", "\u00df", "\u65e5\u672c\u8a9e", "\u03a9", "\U0001f600", "\u2028", "\u00a0", "\ufeff", "\U0001d4b3", "\u0416"]
CTRL = ["\n", "\t", "\r", "\x00", "\x1f", "\x7f", "\b", "\f"]


def gen_str(rng, no_rb=False):
    """Hostile string; never exactly 'sort' (that token is injected deliberately, see Cfg)."""
    if rng.random() < 0.08:
        return ""
    out = []
    for _ in range(rng.choice((1, 1, 2, 2, 3, 4, 6))):
        q = rng.random()
        pool = HOT if q < 0.5 else PLAIN if q < 0.75 else UNI if q < 0.92 else CTRL
        out.append(rng.choice(pool))
    s = "".join(out)
    if no_rb:
        s = s.replace("]", ")")
    if s == "sort":
        s = "sorted"
    return s


INTS = [0, 1, -1, 7, 42, 1609780186, 1609780186000, 2**31, 2**53 + 1, 2**63 - 1, -(2**63), 18446744073709551615]
FLOATS = [0.5, 1.5, -2.25, 0.1, 1e-7, 1e22, 123456.789, 5e-324, 1.7976931348623157e308, -0.0, 3.0, 2.5e-3]


def gen_int(rng):
    return rng.choice(INTS) if rng.random() < 0.6 else rng.randint(-10**6, 10**12)


def gen_num(rng):
    return gen_int(rng) if rng.random() < 0.55 else (rng.choice(FLOATS) if rng.random() < 0.7 else rng.uniform(-1e6, 1e6))


def gen_scalar(rng, no_rb=False):
    q = rng.random()
    if q < 0.45:
        return gen_str(rng, no_rb)
    if q < 0.75:
        return gen_num(rng)
    if q < 0.88:
        return rng.random() < 0.5
    return None


KEYS = ["title", "user", "message", "tags", "my_sort", "took", "errors", "timestamp", "geo", "n", "after_key", "_sort", "sort_by", "a.b", "items"]


def gen_key(rng):
    return rng.choice(KEYS) if rng.random() < 0.85 else (gen_str(rng) or "k")


class Cfg:
    """Which hostile mechanisms a search page may contain."""

    def __init__(self, **kw):
        self.rb_in_sort = False  # ']' allowed inside string sort values
        self.rb_last = False  # force a string with ']' into the last hit's sort
        self.src_sort = False  # _source / fields / highlight may hold a key "sort" or the value "sort"
        self.inner_hits = 0  # 0 none, 1 without sort, 2 with sort
        self.top_hits = 0  # 0 none, 1 without sort, 2 with sort
        self.mq_sort = False  # matched_queries holds the name "sort"
        self.bucket_sort = False  # an aggregation is named "sort" or has the bucket key "sort"
        self.sort_has_sort = False  # the last hit's own sort array holds the string "sort"
        self.aggs = False
        self.es6 = False
        self.fat_scale = 1  # 1: 8-25 KiB follow the last sort key; 12 or 40: a few hundred KiB up to about a MiB (a tail-only search for the cursor misses it)
        self.fat_tail = None  # "explanation" | "aggs" | "inner": more than 8 KiB of response follow the last hit's sort key (no "sort" token in them)
        self.__dict__.update(kw)


def gen_obj(rng, cfg, depth=0):
    o = {}
    for _ in range(rng.choice((0, 1, 1, 2, 3))):
        k = gen_key(rng)
        q = rng.random()
        if q < 0.6 or depth >= 2:
            v = gen_scalar(rng)
        elif q < 0.8:
            v = gen_obj(rng, cfg, depth + 1)
        else:
            v = [gen_scalar(rng) for _ in range(rng.randint(0, 3))]
        o[k] = v
    if cfg.src_sort and rng.random() < 0.5:
        q = rng.random()
        if q < 0.45:
            o["sort"] = [gen_scalar(rng, no_rb=True) for _ in range(rng.randint(0, 2))]
        elif q < 0.65:
            o["sort"] = rng.choice(["asc", {"order": "desc"}, 3, None])
        else:
            o[rng.choice(["order", "field", "title"])] = "sort"
    return o


def gen_sort_values(rng, cfg, force_rb=False):
    n = rng.choice((1, 1, 2, 2, 3))
    vals = []
    for _ in range(n):
        q = rng.random()
        if q < 0.4:
            vals.append(gen_num(rng))
        elif q < 0.9:
            vals.append(gen_str(rng, no_rb=not cfg.rb_in_sort))
        else:
            vals.append(None)
    if force_rb:
        s = gen_str(rng)
        if "]" not in s:
            s += rng.choice(["]", "a]b", "]]", '"]', "[x]"])
        vals[rng.randrange(len(vals))] = s
    return vals


def gen_total(rng, cfg, value):
    if cfg.es6:
        return value
    return {"value": value, "relation": rng.choice(["eq", "eq", "gte"])}


def gen_hit(rng, cfg, i, last=False, nested=False, with_sort=True):
    h = {"_index": rng.choice(["logs-1", "idx", gen_str(rng) or "i"])}
    if cfg.es6:
        h["_type"] = "_doc"
    h["_id"] = str(i) if rng.random() < 0.6 else gen_str(rng)
    if nested:
        h["_nested"] = {"field": "comments", "offset": i}
    h["_score"] = rng.choice([None, 1.0, 0.2876821, 12.5])
    if rng.random() < 0.8:
        h["_source"] = gen_obj(rng, cfg)
    if rng.random() < 0.3:
        h["fields"] = {gen_key(rng): [gen_scalar(rng)] for _ in range(rng.randint(1, 2))}
        if cfg.src_sort and rng.random() < 0.3:
            h["fields"]["sort"] = [gen_scalar(rng, no_rb=True)]
    if rng.random() < 0.25:
        h["highlight"] = {gen_key(rng): ["<em>" + gen_str(rng) + "</em>"]}
    if with_sort:
        h[MARK if last else "sort"] = gen_sort_values(rng, cfg, force_rb=last and cfg.rb_last)
        if last and cfg.sort_has_sort:
            h[MARK].insert(rng.randint(0, len(h[MARK])), "sort")
    if last and not nested and cfg.fat_tail == "explanation":
        # explain=true: Elasticsearch writes _explanation after sort
        h["_explanation"] = {"value": 1.0, "description": "sum of:", "details": [
            {"value": rng.choice([0.5, 0.25, 1.5]), "description": f"weight(message:w{j} in {j}) [PerFieldSimilarity], result of:", "details": []} for j in range(rng.randint(110, 160) * cfg.fat_scale)]}
    if last and not nested and cfg.fat_tail == "inner":
        h["inner_hits"] = {"comments": {"hits": {"total": gen_total(rng, cfg, 90 * cfg.fat_scale), "max_score": None, "hits": [
            {"_index": "idx", "_id": str(j), "_nested": {"field": "comments", "offset": j}, "_score": 1.0, "_source": {"author": f"user-{j}", "text": "lorem ipsum dolor sit amet " * 3}} for j in range(90 * cfg.fat_scale)]}}}
    if not nested:
        if cfg.mq_sort and (last or rng.random() < 0.3):
            h["matched_queries"] = rng.choice([["sort"], ["q1", "sort"], ["sort", "q2"]])
        elif rng.random() < 0.1:
            h["matched_queries"] = [gen_str(rng)]
        if cfg.inner_hits and (last or rng.random() < 0.4):
            n = rng.randint(0 if cfg.inner_hits == 1 else 1, 2)
            h["inner_hits"] = {
                "comments": {
                    "hits": {
                        "total": gen_total(rng, cfg, n),
                        "max_score": None,
                        "hits": [gen_hit(rng, cfg, j, nested=True, with_sort=cfg.inner_hits == 2) for j in range(n)],
                    }
                }
            }
    return h


def gen_aggs(rng, cfg):
    aggs = {}
    for _ in range(rng.randint(1, 2)):
        name = rng.choice(["by_user", "avg_n", "top", "t.s", "my_sort"])
        q = rng.random()
        if q < 0.4:
            aggs[name] = {"value": rng.choice([None, 1.5, 3, 1e22])}
        else:
            aggs[name] = {
                "doc_count_error_upper_bound": 0,
                "sum_other_doc_count": rng.randint(0, 9),
                "buckets": [{"key": rng.choice([gen_str(rng), gen_int(rng)]), "doc_count": rng.randint(1, 99)} for _ in range(rng.randint(0, 2))],
            }
    if cfg.bucket_sort:
        if rng.random() < 0.5:
            aggs["sort"] = {"doc_count_error_upper_bound": 0, "sum_other_doc_count": 0, "buckets": [{"key": gen_str(rng), "doc_count": 1}]}
        else:
            aggs["by_field"] = {"doc_count_error_upper_bound": 0, "sum_other_doc_count": 0, "buckets": [{"key": "sort", "doc_count": 2}]}
    if cfg.top_hits:
        n = rng.randint(0 if cfg.top_hits == 1 else 1, 2)
        th = {"hits": {"total": gen_total(rng, cfg, n), "max_score": None, "hits": [gen_hit(rng, cfg, j, nested=True, with_sort=cfg.top_hits == 2) for j in range(n)]}}
        for h in th["hits"]["hits"]:
            h.pop("_nested", None)
        if rng.random() < 0.5:
            aggs["top_docs"] = th
        else:
            aggs["per_user"] = {"doc_count_error_upper_bound": 0, "sum_other_doc_count": 0, "buckets": [{"key": gen_str(rng), "doc_count": n, "top_docs": th}]}
    return aggs


def gen_shards(rng):
    t = rng.choice([1, 2, 5, 808])
    f = rng.choice([0, 0, 0, 1])
    sk = rng.choice([0, 0, 1])
    return {"total": t, "successful": max(0, t - f), "skipped": min(sk, t), "failed": min(f, t)}


def gen_search_page(rng, cfg, nhits, total, pit_id=None, scroll_id=None, sorted_hits=True):
    d = {}
    if scroll_id is not None:
        d["_scroll_id"] = scroll_id
    if pit_id is not None:
        d["pit_id"] = pit_id
    d["took"] = rng.choice([0, 1, 5, 10, 250, 30000])
    d["timed_out"] = rng.random() < 0.2
    d["_shards"] = gen_shards(rng)
    d["hits"] = {
        "total": gen_total(rng, cfg, total),
        "max_score": rng.choice([None, 1.0]),
        "hits": [gen_hit(rng, cfg, i, last=(i == nhits - 1), with_sort=sorted_hits) for i in range(nhits)],
    }
    if cfg.aggs or cfg.top_hits or cfg.bucket_sort:
        d["aggregations"] = gen_aggs(rng, cfg)
    if cfg.fat_tail == "aggs":
        # a terms aggregation with a few hundred buckets: Elasticsearch writes aggregations after the hits
        d.setdefault("aggregations", {})["by_user_all"] = {"doc_count_error_upper_bound": 0, "sum_other_doc_count": 0,
                                                          "buckets": [{"key": f"user-{j:05d}", "doc_count": rng.randint(1, 999)} for j in range(rng.randint(300, 420) * cfg.fat_scale)]}
    return d


def gen_id(rng):
    alphabet = "ABCDEFGHIJKLMNOPQRSTUVWXYZabcdefghijklmnopqrstuvwxyz0123456789-_="
    return "".join(rng.choice(alphabet) for _ in range(rng.choice((8, 16, 40))))


# ---------------------------------------------------------------- composite aggregation pages
def gen_after_key(rng, names, nulls):
    ak = {}
    for n in names:
        q = rng.random()
        if nulls and q < 0.3:
            v = None
        elif q < 0.55:
            v = gen_str(rng)
        elif q < 0.75:
            v = gen_int(rng)
        elif q < 0.9:
            v = rng.choice(FLOATS) if rng.random() < 0.7 else rng.uniform(-1e6, 1e6)
        else:
            v = rng.random() < 0.5
        ak[n] = v
    if nulls and all(v is not None for v in ak.values()):
        ak[rng.choice(names)] = None
    return ak


def gen_composite_page(rng, cfg, path, names, nulls, last, total, pit_id=None):
    d = {}
    if pit_id is not None:
        d["pit_id"] = pit_id
    d["took"] = rng.choice([0, 1, 5, 10, 250])
    d["timed_out"] = rng.random() < 0.2
    d["_shards"] = gen_shards(rng)
    d["hits"] = {"total": gen_total(rng, cfg, total), "max_score": None, "hits": []}
    comp = {}
    nb = 0 if last else rng.randint(1, 3)
    buckets = []
    for _ in range(nb):
        b = {"key": gen_after_key(rng, names, nulls and rng.random() < 0.5), "doc_count": rng.randint(1, 50)}
        if rng.random() < 0.3:
            b["avg_n"] = {"value": rng.choice([None, 2.5, 7])}
        buckets.append(b)
    if not last:
        comp["after_key"] = dict(buckets[-1]["key"]) if not nulls else gen_after_key(rng, names, True)
        if nulls:
            buckets[-1]["key"] = dict(comp["after_key"])
    comp["buckets"] = buckets
    node = comp
    for name in reversed(path[1:]):
        node = {"doc_count": rng.randint(0, 500), name: node}
    aggs = {path[0]: node}
    if rng.random() < 0.3:
        aggs["other"] = {"value": 1.5}
    d["aggregations"] = aggs
    return d


def composite_body(path, names):
    node = {"composite": {"sources": [{n: {"terms": {"field": n}}} for n in names]}}
    for name in reversed(path[1:]):
        node = {"filter": {"term": {"vendor": "x"}}, "aggs": {name: node}}
    return {"query": {"match_all": {}}, "aggs": {path[0]: node}}


# ---------------------------------------------------------------- bulk responses
def gen_bulk_item(rng, kind, err_as_string):
    """kind: ok | shard-fail | not-found | error"""
    op = rng.choice(["index", "index", "create", "update", "delete"])
    if kind == "not-found":
        op = "delete"
    d = {"_index": rng.choice(["logs-1", "idx"]), "_id": gen_str(rng) if rng.random() < 0.4 else str(rng.randint(0, 999))}
    if kind == "error":
        status = rng.choice([400, 409, 429, 404, 500, 503])
        if err_as_string:
            err = rng.choice(["", "VersionConflictEngineException"]) + gen_str(rng)
        else:
            err = {"type": rng.choice(["mapper_parsing_exception", "version_conflict_engine_exception", "es_rejected_execution_exception"]), "reason": gen_str(rng)}
            if rng.random() < 0.3:
                err["caused_by"] = {"type": "illegal_argument_exception", "reason": gen_str(rng)}
            if rng.random() < 0.3:
                err["index"] = d["_index"]
                err["shard"] = "0"
        if op == "update" and rng.random() < 0.4:
            status, err = 404, ("document missing" if err_as_string else {"type": "document_missing_exception", "reason": "[_doc][" + d["_id"] + "]: document missing"})
        d["status"] = status
        d["error"] = err
        return {op: d}
    d["_version"] = rng.randint(1, 9)
    if kind == "not-found":
        d["result"] = "not_found"
        status = 404
    else:
        d["result"] = {"index": rng.choice(["created", "updated"]), "create": "created", "update": rng.choice(["updated", "noop"]), "delete": "deleted"}[op]
        status = 201 if d["result"] == "created" else 200
    if not (op == "update" and d["result"] == "noop" and rng.random() < 0.5):
        t = rng.choice([1, 2, 3])
        f = rng.randint(1, t - 1) if (kind == "shard-fail" and t > 1) else (1 if kind == "shard-fail" else 0)
        t = max(t, f + 1)
        d["_shards"] = {"total": t, "successful": t - f, "failed": f}
    elif kind == "shard-fail":
        d["_shards"] = {"total": 2, "successful": 1, "failed": 1}
    d["_seq_no"] = rng.randint(0, 10**6)
    d["_primary_term"] = 1
    d["status"] = status
    return {op: d}


def gen_bulk_response(rng, profile, n=None):
    """profile: ok | errors | errors-mixed | hidden-shard-fail | hidden-not-found"""
    n = n or rng.choice((1, 2, 3, 3, 5, 8))
    err_as_string = rng.random() < 0.25
    kinds = []
    for _ in range(n):
        if profile == "ok":
            kinds.append("ok")
        elif profile == "errors":
            kinds.append(rng.choice(["ok", "ok", "error"]))
        elif profile == "errors-mixed":
            kinds.append(rng.choice(["ok", "error", "shard-fail", "not-found"]))
        elif profile == "hidden-shard-fail":
            kinds.append(rng.choice(["ok", "shard-fail"]))
        else:
            kinds.append(rng.choice(["ok", "not-found"]))
    if profile in ("errors", "errors-mixed") and "error" not in kinds:
        kinds[rng.randrange(n)] = "error"
    if profile == "hidden-shard-fail" and "shard-fail" not in kinds:
        kinds[rng.randrange(n)] = "shard-fail"
    if profile == "hidden-not-found" and "not-found" not in kinds:
        kinds[rng.randrange(n)] = "not-found"
    items = [gen_bulk_item(rng, k, err_as_string) for k in kinds]
    d = {"took": rng.choice([0, 3, 30, 12000])}
    if rng.random() < 0.2:
        d["ingest_took"] = rng.randint(0, 50)
    d["errors"] = "error" in kinds  # Elasticsearch: true iff some item carries a failure
    d["items"] = items
    if rng.random() < 0.3:  # 8.x order
        d = {"errors": d["errors"], "took": d["took"], **{k: v for k, v in d.items() if k not in ("errors", "took")}}
    return d
