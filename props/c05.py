"""C05 - iterations, time periods, warm-up, progress and pacing follow the task spec.

Monitor: same executions as C04 (real executor stack on a virtual clock). The oracle is a set of reference functions over the
task spec, evaluated on the tuples the real ScheduleHandle yielded, the wire log and the recorded samples.
"""
import math

from engines import vclock
from props import c04_gen as g

ID = "C05"
LEVEL = "exploration"
RULE = (
    "seeded generator of task specs: warm-up/measurement iterations 0-50, warm-up/time periods, 1-16 clients, target throughput/interval in "
    "ops|docs|pages per second, weights constant or changing mid-task, ramp-up, deterministic|poisson|unthrottled, service-time scripts; "
    "non-trivial = at least 2 requests executed; distinct = hash of the case"
)
ASSUMPTIONS = [
    "virtual time; exact comparisons up to 1e-9",
    "time-based tasks: a request whose schedule tuple was produced before the deadline (or warm-up end) but issued after it is the single "
    "straddling request per client the statement allows; its flag may be either value",
    "pacing is checked on the scheduled times the real ScheduleHandle yields, from the second tuple on (the unit-aware scheduler runs the first request "
    "unthrottled until it has seen a response weight)",
    "Poisson schedule: monotonicity always; mean inter-arrival within 6 sigma of 1/rate only when >= 2000 draws were observed",
]
REQUIRED_CLAUSES = [
    "iteration-count", "finite-source-count", "warmup-flag-iterations", "time-based-stops", "warmup-flag-time", "type-never-back", "progress-monotone-in-range", "progress-ends-at-1",
    "scheduled-monotone", "deterministic-pacing", "ramp-up-delay", "poisson-mean",
]
REQUIRED_FEATURES = {"mode-iter": 20, "mode-time": 20, "ramp-up": 3, "changing-weight-throttled": 3, "straddling-request": 3, "poisson": 5}
BUDGET = {"quick": {"cases": 6000, "seconds": 40}, "thorough": {"cases": 150000, "seconds": 600}}
EPS = 1e-9


def close(a, b, rel=1e-9):
    return abs(a - b) <= rel * max(1.0, abs(a), abs(b)) + 1e-9


def target_rate(spec):
    """(per-second rate in units, unit) from the task spec, as docs/track.rst defines target-throughput / target-interval."""
    if "target_interval" in spec:
        return 1.0 / spec["target_interval"], "ops"
    tt = spec.get("target_throughput")
    if tt is None:
        return None, None
    if isinstance(tt, str):
        v, u = tt.split(" ")
        return float(v), u[:-2]
    return float(tt), "ops"


def check(ctx, case, h, exc, problems, feats):
    log = {r["id"]: r for r in h.sim.log}
    rec = h.rec
    total_clients = sum(t["clients"] for t in case["tasks"])
    gidx = 0
    for spec in case["tasks"]:
        rate, rate_unit = target_rate(spec)
        for ci in range(spec["clients"]):
            key = (gidx, spec["name"])
            my_gidx = gidx
            gidx += 1
            sched = rec.schedule.get(key, [])
            logical = [e for e in rec.logical if (e["client"], e["task"]) == key]
            samples = [s for s in rec.samples if (s["client"], s["task"]) == key]
            info = rec.start_info.get(key)
            if info is None:
                continue
            start = info["vt_total_start"]
            aborted = exc is not None
            where = f"client {key[0]} of {spec['name']}"
            # ---------------- iteration based
            if spec["mode"] == "iter" and not aborted:
                w, n = spec["warmup_iterations"], spec["iterations"]
                ctx.clause("iteration-count")
                if len(logical) != w + n:
                    problems.append(("iteration-count", f"{where}: executed {len(logical)} requests, spec says warmup {w} + iterations {n}", None))
                ctx.clause("warmup-flag-iterations")
                flags = [s["sample_type"] for s in samples]
                if flags != [0] * min(w, len(flags)) + [1] * max(0, len(flags) - w):
                    problems.append(("warmup-flag-iterations", f"{where}: sample types {flags[:30]} but the first {w} requests are warm-up", None))
                if samples:
                    ctx.clause("progress-ends-at-1")
                    if samples[-1]["percent"] != 1.0:
                        problems.append(("progress-ends-at-1", f"{where}: last reported progress is {samples[-1]['percent']!r}, not 1", None))
            # ---------------- the parameter source decides (it runs dry after `finite` requests per client)
            if spec["mode"] == "finite-source" and not aborted:
                ctx.clause("finite-source-count")
                if len(logical) != spec["finite"]:
                    problems.append(("finite-source-count", f"{where}: executed {len(logical)} requests, its parameter source hands out {spec['finite']}", None))
            # ---------------- time based
            if spec["mode"] == "time":
                wp, tp = spec["warmup_time_period"], spec["time_period"]
                deadline = start + wp + tp
                late = 0
                for e, tup in zip(logical, sched):
                    wires = [log[x] for x in e["wire"]]
                    issue = min((x["vt_start"] for x in wires), default=e["vt_begin"])
                    produced = tup["vt"]
                    ctx.clause("time-based-stops")
                    if produced >= deadline + 1e-7:
                        problems.append(("time-based-stops", f"{where}: request #{e['ordinal']} was scheduled at {produced - start!r}s although warmup+time-period {wp + tp} had elapsed", None))
                    if issue >= deadline + 1e-7:
                        late += 1
                    ctx.clause("warmup-flag-time")
                    st = tup["sample_type"]
                    lo, hi = min(produced, issue), max(produced, issue)
                    if hi < start + wp - EPS and st != 0:
                        problems.append(("warmup-flag-time", f"{where}: request #{e['ordinal']} issued {issue - start!r}s after start is flagged normal, warm-up lasts {wp}", None))
                    elif lo >= start + wp + EPS and st != 1:
                        problems.append(("warmup-flag-time", f"{where}: request #{e['ordinal']} issued {issue - start!r}s after start is flagged warm-up, warm-up lasts only {wp}", None))
                    elif lo < start + wp <= hi or lo < deadline <= hi:
                        feats.add("straddling-request")
                if late > 1:
                    problems.append(("time-based-stops", f"{where}: {late} requests were issued after warmup+time-period had elapsed (one straddling request is allowed)", None))
            # ---------------- all modes
            flags = [s["sample_type"] for s in samples]
            ctx.clause("type-never-back")
            if any(a > b for a, b in zip(flags, flags[1:])):
                problems.append(("type-never-back", f"{where}: sample types go back from normal to warm-up: {flags[:40]}", None))
            progress = [s["percent"] for s in samples if s["percent"] is not None]
            ctx.clause("progress-monotone-in-range")
            if any(not (0.0 <= p <= 1.0) for p in progress) or any(a > b + EPS for a, b in zip(progress, progress[1:])):
                problems.append(("progress-monotone-in-range", f"{where}: reported progress {progress[:30]}", None))
            times = [t["scheduled"] for t in sched]
            ctx.clause("scheduled-monotone")
            if any(a > b + EPS for a, b in zip(times, times[1:])) or any(t < 0 for t in times):
                problems.append(("scheduled-monotone", f"{where}: scheduled times decrease: {times[:20]}", None))
            # ---------------- pacing
            if rate is not None and spec.get("schedule") in (None, "deterministic") and len(sched) >= 2:
                # weight the scheduler has seen when tuple k+1 was produced: the most recent response with weight > 0 (request k or earlier)
                cur_w = None
                for k in range(len(sched) - 1):
                    e = logical[k] if k < len(logical) else None
                    if e is None or "result" not in e:
                        break
                    wgt = e["result"]["ops"]
                    if wgt > 0:
                        cur_w = 1 if (rate_unit == "ops" and e["result"]["unit"] != "ops") else wgt
                    if cur_w is None:
                        continue  # still unthrottled: nothing is promised yet
                    expect = cur_w * spec["clients"] / rate
                    ctx.clause("deterministic-pacing")
                    if not close(times[k + 1] - times[k], expect, 1e-7):
                        problems.append(("deterministic-pacing", f"{where}: requests #{k} and #{k + 1} are scheduled {times[k + 1] - times[k]!r}s apart, expected weight*C/T = {cur_w}*{spec['clients']}/{rate} = {expect!r}", None))
                        break
                ws = {r.get("weight", 1) for r in spec["requests"][ci % len(spec["requests"])]}
                if len(ws) > 1:
                    feats.add("changing-weight-throttled")
            if rate is not None and spec.get("schedule") == "poisson" and len(times) >= 2002:
                # from the tuple after the first response on, inter-arrival times are exponential with mean weight*C/T (constant weight cases only)
                ws = {r.get("weight", 1) for lst in spec["requests"] for r in lst}
                if len(ws) == 1:
                    wgt = next(iter(ws))
                    wgt = 1 if (rate_unit == "ops" and spec["unit"] != "ops") else wgt
                    mean = wgt * spec["clients"] / rate
                    gaps = [b - a for a, b in zip(times[1:], times[2:])]
                    got = sum(gaps) / len(gaps)
                    ctx.clause("poisson-mean")
                    if abs(got - mean) > 6 * mean / math.sqrt(len(gaps)):
                        problems.append(("poisson-mean", f"{where}: mean inter-arrival {got!r} over {len(gaps)} draws, expected {mean!r}", None))
            # ---------------- ramp-up
            ramp = spec.get("ramp_up_time_period")
            if ramp and logical:
                expect = ramp * my_gidx / total_clients
                ctx.clause("ramp-up-delay")
                if not close(logical[0]["vt_begin"] - start, expect):
                    problems.append(("ramp-up-delay", f"{where}: first request {logical[0]['vt_begin'] - start!r}s after task start, expected ramp-up*i/total = {ramp}*{my_gidx}/{total_clients} = {expect!r}", None))


def poisson_case(rng):
    """A long single-client Poisson task so that the mean clause has >= 2000 draws."""
    rate = rng.choice([5, 50, 200])
    return {
        "tasks": [{
            "name": "task0", "clients": rng.choice([1, 2]), "mode": "iter", "unit": "ops", "target_throughput": rate, "schedule": "poisson",
            "warmup_iterations": 0, "iterations": 2100, "requests": [[{"wire": 1, "unit": "ops"}]],
            "svc": {"mode": "zero", "base": 0.001, "err": "none", "seed": rng.randint(0, 1 << 30)},
        }],
        "pc_offset": 0.0, "poisson_seed": rng.randint(0, 1 << 30),
    }


def one_case(ctx, rng, explicit=None, special=None):
    case = explicit or (poisson_case(rng) if special == "poisson" else g.gen_case(rng))
    feats = g.features(case)
    h, exc, _ = g.run_case(case, ctx.scratch)
    problems = []
    if isinstance(exc, vclock.BudgetExceeded):
        ctx.feature("budget-exceeded")
        ctx.case(case, False, ())
        if ctx.features["budget-exceeded"] > 5:
            ctx.mark_inconclusive("more than 5 cases exceeded the virtual-time budget")
        return problems
    if exc is not None:
        feats.add("aborted")
    check(ctx, case, h, exc, problems, feats)
    nreq = len(h.rec.logical)
    ctx.case(case, nreq >= 2, feats)
    if nreq <= 8 and len(case["tasks"]) == 1:
        t = case["tasks"][0]
        ctx.sample(
            {"spec": {k: v for k, v in t.items() if k not in ("requests", "svc")},
             "observed": {str(k): [{"scheduled": x["scheduled"], "type": x["sample_type"], "progress": x["percent"]} for x in v][:8] for k, v in h.rec.schedule.items()}},
            tag=t["mode"] + ("-throttled" if "throttled" in feats else ""),
        )
    for clause, msg, detail in problems[:2]:
        ctx.violation(clause, {"case": case}, msg)
    return problems


def run_shard(ctx):
    one_case(ctx, ctx.case_rng("poisson"), special="poisson")
    i = 0
    while ctx.more():
        one_case(ctx, ctx.case_rng(i))
        i += 1


def classify(v):
    return None


def replay(ctx, rec):
    one_case(ctx, None, explicit=rec["witness"]["case"])


MANIFEST = {
    "text": "Exploration: generated task specs run through rally's real executor/scheduler stack on a virtual clock; request counts, warm-up flags, "
    "time-period cut-off, sample-type and progress monotonicity, scheduled-time monotonicity, deterministic pacing weight*C/T, ramp-up delays (also with a wider schedule element before or after the executed one) and the "
    "Poisson mean are compared with reference functions over the spec on every execution.",
    "note": "Trusts the virtual-time loop and the simulated node; scheduled times are those the real ScheduleHandle yields.",
    "technique": "runtime monitor: reference functions over the task spec evaluated on recorded schedule tuples, wire log and samples (virtual time)",
    "engines": ["vclock", "simes"],
}
