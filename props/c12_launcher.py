"""C12, launcher class: rally's real ProcessLauncher.stop and real Mechanic.stop_engine over nodes whose processes are in every state
that can be met when the engine is stopped (alive, already gone, gone between lookup and terminate, not reacting to SIGTERM, gone
before SIGKILL). psutil.Process is scripted, the node's telemetry is a recording object; the metrics store is a real in-memory store.

Oracle (statement: "stopping the engine stops every started node exactly once (stop, flush and store system metrics, clean up unless
preserve is set)"): per node and independently of the state of its neighbours - a living process is asked to terminate exactly once and
killed only after it did not terminate in time; system metrics of EVERY started node are stored exactly once; flush and cleanup happen
once per stop; the returned list names exactly the nodes rally stopped.
"""
import psutil

from esrally import config, metrics
from esrally.mechanic import cluster, launcher, mechanic, provisioner

STATES = ["alive", "gone-at-lookup", "gone-at-terminate", "hangs-then-killed", "hangs-gone-at-kill"]


class FakeProcess:
    def __init__(self, pid, state, log):
        self.pid, self.state, self.log = pid, state, log

    def terminate(self):
        self.log.append(("terminate", self.pid))
        if self.state == "gone-at-terminate":
            raise psutil.NoSuchProcess(self.pid)

    def wait(self, timeout=None):
        self.log.append(("wait", self.pid))
        if self.state in ("hangs-then-killed", "hangs-gone-at-kill"):
            raise psutil.TimeoutExpired(timeout, self.pid)

    def kill(self):
        self.log.append(("kill", self.pid))
        if self.state == "hangs-gone-at-kill":
            raise psutil.NoSuchProcess(self.pid)


class Telemetry:
    def __init__(self, name, log):
        self.name, self.log = name, log

    def detach_from_node(self, node, running):
        self.log.append(("detach", node.pid, running))

    def store_system_metrics(self, node, metrics_store):
        self.log.append(("store_system_metrics", node.pid))
        metrics_store.put_value_node_level(node.node_name, "node_startup_time", 1.5, "s")


def launcher_case(ctx, rng, explicit=None):
    states = explicit or [rng.choice(STATES) for _ in range(rng.randint(1, 4))]
    log = []
    cfg = config.Config()
    cfg.add(config.Scope.application, "system", "env.name", "verif")
    cfg.add(config.Scope.application, "system", "race.id", "c12-launcher")
    cfg.add(config.Scope.application, "system", "time.start", __import__("datetime").datetime(2026, 1, 1))
    cfg.add(config.Scope.application, "race", "user.tags", {})
    cfg.add(config.Scope.application, "mechanic", "preserve.install", False)
    cfg.add(config.Scope.application, "mechanic", "car.names", ["defaults"])
    cfg.add(config.Scope.application, "reporting", "datastore.type", "in-memory")
    cfg.add(config.Scope.application, "node", "root.dir", str(ctx.scratch / "c12root"))
    store = metrics.InMemoryMetricsStore(cfg)
    store.open(race_id="c12-launcher", race_timestamp=__import__("datetime").datetime(2026, 1, 1), track_name="t", challenge_name="c", car_name="defaults", create=True)
    nodes = [cluster.Node(1000 + i, f"/verif/bin/{i}", "127.0.0.1", f"rally-node-{i}", Telemetry(f"rally-node-{i}", log)) for i in range(len(states))]
    by_pid = {1000 + i: s for i, s in enumerate(states)}

    def process(pid=None):
        log.append(("lookup", pid))
        if by_pid[pid] == "gone-at-lookup":
            raise psutil.NoSuchProcess(pid)
        return FakeProcess(pid, by_pid[pid], log)

    saved = (launcher.psutil.Process, launcher.telemetry.add_metadata_for_node, provisioner.cleanup)
    launcher.psutil.Process = process
    launcher.telemetry.add_metadata_for_node = lambda store_, name, host: None
    cleaned = []
    provisioner.cleanup = lambda preserve, install_dir, data_paths: cleaned.append(install_dir)
    flushes = []
    try:
        l = launcher.ProcessLauncher(cfg)
        m = mechanic.Mechanic(cfg, store, lambda: None, [], l)
        m.nodes = list(nodes)

        class NC:
            def __init__(self, i):
                self.binary_path, self.data_paths = f"/verif/bin/{i}", [f"/verif/data/{i}"]

        m.node_configs = [NC(i) for i in range(len(states))]
        orig_flush = m.flush_metrics
        m.flush_metrics = lambda refresh=False: (flushes.append(refresh), orig_flush(refresh))[1]
        orig_stop = l.stop
        returned = []
        l.stop = lambda ns, ms: returned.extend(orig_stop(ns, ms)) or returned
        err = None
        try:
            m.stop_engine()
        except BaseException as e:  # noqa
            err = f"{type(e).__name__}: {e}"
    finally:
        launcher.psutil.Process, launcher.telemetry.add_metadata_for_node, provisioner.cleanup = saved
    problems = []
    where = f"node process states {states}"
    ctx.clause("launcher:stop-completes")
    if err:
        problems.append(("launcher:stop-completes", f"{where}: stop_engine raised {err}", None))
    for i, st in enumerate(states):
        pid = 1000 + i
        ev = [e for e in log if e[1] == pid]
        n_term = sum(1 for e in ev if e[0] == "terminate")
        n_kill = sum(1 for e in ev if e[0] == "kill")
        n_store = sum(1 for e in ev if e[0] == "store_system_metrics")
        ctx.clause("launcher:terminate-exactly-once")
        if n_term != (0 if st == "gone-at-lookup" else 1):
            problems.append(("launcher:terminate-exactly-once", f"{where}: node {i} ({st}) was asked to terminate {n_term} times", None))
        ctx.clause("launcher:kill-only-after-timeout")
        if n_kill != (1 if st.startswith("hangs") else 0):
            problems.append(("launcher:kill-only-after-timeout", f"{where}: node {i} ({st}) was killed {n_kill} times", None))
        ctx.clause("launcher:system-metrics-stored-once")
        if n_store != 1:
            problems.append(("launcher:system-metrics-stored-once", f"{where}: system metrics of node {i} ({st}) were stored {n_store} times", None))
        ctx.clause("launcher:stopped-list")
        really_stopped = st in ("alive", "hangs-then-killed")
        if (nodes[i] in returned) != really_stopped:
            problems.append(("launcher:stopped-list", f"{where}: node {i} ({st}) {'is' if nodes[i] in returned else 'is not'} in the list of stopped nodes", None))
    ctx.clause("launcher:flush-and-cleanup")
    if True not in flushes or sorted(cleaned) != sorted(f"/verif/bin/{i}" for i in range(len(states))):
        problems.append(("launcher:flush-and-cleanup", f"{where}: flushes {flushes}, cleaned {cleaned}", None))
    feats = {"launcher", "launcher:" + "+".join(sorted(set(states)))}
    if len(states) > 1 and "gone-at-lookup" in states and len(set(states)) > 1:
        feats.add("launcher:dead-node-among-living")
    ctx.case(["launcher", states], len(states) > 1, feats)
    ctx.sample({"class": "launcher", "states": states, "calls": log[:12]}, tag="launcher")
    for clause, msg, detail in problems:
        ctx.violation(clause, {"workload": "launcher", "states": states}, msg)


# ------------------------------------------------------------------------------------------------------------------------------------------
# start path: the real ProcessLauncher.start with the real telemetry devices; only the spawning of Elasticsearch is scripted
START_STATES = ["alive", "dead-before-attach"]


def _dead_pid():
    """pid of a process that has already terminated and been reaped."""
    import subprocess
    import sys

    p = subprocess.Popen([sys.executable, "-c", "pass"])
    p.wait()
    return p.pid


def start_case(ctx, rng, explicit=None):
    """Statement: "a start failure on any host ... is reported instead of an acknowledgement". `bin/elasticsearch -d` may exit 0 and leave a
    pid file behind although the node died right away (bootstrap check, OOM): the node is then gone when the telemetry devices attach.
    Such a start must fail - the launcher must not hand back a node that is not running."""
    import os

    from esrally.mechanic import java_resolver

    states = explicit or [rng.choice(START_STATES) for _ in range(rng.randint(1, 3))]
    cfg = config.Config()
    cfg.add(config.Scope.application, "mechanic", "runtime.jdk", None)
    cfg.add(config.Scope.application, "telemetry", "devices", [])
    cfg.add(config.Scope.application, "telemetry", "params", {})
    cfg.add(config.Scope.application, "system", "env.name", "verif")
    root = str(ctx.scratch / "c12start")
    os.makedirs(root, exist_ok=True)
    pids = [os.getpid() if s == "alive" else _dead_pid() for s in states]
    ncs = [provisioner.NodeConfiguration("tar", ["17"], True, "127.0.0.1", f"rally-node-{i}", os.path.join(root, f"n{i}"), os.path.join(root, f"n{i}", "install"), [os.path.join(root, f"n{i}", "data")])
           for i in range(len(states))]
    spawned = []
    saved = (java_resolver.java_home, launcher.ProcessLauncher._start_process)
    java_resolver.java_home = lambda *a, **k: (17, None)

    def start_process(self, binary_path, env):
        i = len(spawned)
        spawned.append(binary_path)
        return pids[i]

    launcher.ProcessLauncher._start_process = start_process
    err, nodes = None, None
    try:
        try:
            nodes = launcher.ProcessLauncher(cfg).start(ncs)
        except BaseException as e:  # noqa
            err = e
    finally:
        java_resolver.java_home, launcher.ProcessLauncher._start_process = saved
    problems = []
    where = f"node processes at the time the telemetry attaches: {states}"
    ctx.clause("launcher:dead-node-fails-start")
    if "dead-before-attach" in states:
        if err is None:
            problems.append(("launcher:dead-node-fails-start", f"{where}: ProcessLauncher.start returned {len(nodes)} node(s) as started although the process of node {states.index('dead-before-attach')} no longer exists", None))
    else:
        if err is not None or len(nodes) != len(states) or [n.pid for n in nodes] != pids:
            problems.append(("launcher:dead-node-fails-start", f"{where}: start of living nodes gave {err!r} / {nodes!r}", None))
    ctx.case(["launcher-start", states], len(states) > 1, {"launcher-start", "launcher-start:" + "+".join(sorted(set(states)))})
    ctx.sample({"class": "launcher-start", "states": states, "outcome": "raised " + type(err).__name__ if err is not None else "returned nodes"}, tag="launcher-start")
    for clause, msg, detail in problems:
        ctx.violation(clause, {"workload": "launcher-start", "states": states}, msg)
