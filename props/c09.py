"""C09 - any failure or cancellation ends the race as failed, never as success.

Workload (fault enumeration): for a set of base schedules (hand-picked small ones, enumerated exhaustively, plus generated ones,
sampled) the fault-free race is run once to learn its logical requests and message deliveries; then the same race (same seed =>
same execution up to the fault) is re-run with ONE fault injected at a chosen request index, message index or post-processing
call. Fault alphabet: request fails with HTTP 4xx/5xx under on-error=abort; fatal connection error under on-error=continue;
parameter source raises in params() / partition(); runner raises KeyError / RuntimeError; the driver's metrics store raises while
samples are stored (step boundary or periodic tick); a track-preparation task raises in the task-executor thread; an on-prepare
processor raises in the handler; a worker process dies; the user cancels (KeyboardInterrupt out of ask()).

Monitor: terminal-state checker over the race trace: race control hears BenchmarkFailure/PoisonMessage (or the cancellation),
the requester gets a failure, rally's exit status is ERROR (INTERRUPTED for cancellation), race.json has no results, no summary
was printed, and the kernel saw no stall.
"""
import json
import os

from esrally import metrics
from esrally.track import loader

from engines import race, simes
from props import c01, c04_gen

ID = "C09"
LEVEL = "fault_enumeration"
RULE = (
    "fault alphabet (13 kinds) x injection points: every logical-request index / every 3rd message index of 4 small base schedules (exhaustive part), "
    "random points of generated schedules (C01 generator, shortened); under the delay profiles of C01; non-trivial = the fault was really injected before "
    "the benchmark completed; distinct = hash of (base case, fault)"
)
ASSUMPTIONS = [
    "same actor/ES model as C01; process death = ChildActorExited to the parent without running any handler",
    "a fault injected after BenchmarkComplete was produced is 'too late' and excluded",
    "bounded time = no kernel stall (400 virtual seconds without progress) within the step / virtual-time budget; budget hits are inconclusive",
]
REQUIRED_CLAUSES = ["failure-reaches-race-control", "never-success", "no-results-stored", "no-summary-printed", "bounded-time", "baseline-succeeds"]
KINDS = ["http-abort", "http-400-abort", "refused-continue", "params-raise", "partition-raise", "runner-keyerror", "runner-exception", "store-raises",
         "prepare-task-raises", "prepare-handler-raises", "worker-dies", "cancel", "timeout-abort", "http-status-abort", "rc-store-raises", "store-down"]
_COMMON_FEATURES = {"driver-profiling-on": 5, "exc:params-raise:RuntimeError": 1, "exc:params-raise:NotImplementedError": 1, "exc:prepare-task-raises:two-arg": 1,
                    "exc:prepare-handler-raises:two-arg": 1, "exc:prepare-handler-raises:system-exit": 1, "own-actor-system:hangs": 3}
# the work list starts with ONE fault of every kind per base schedule (a kind that only one base schedule has - http-status-abort - is there once):
# that head is what a heavily loaded machine still reaches within the quick budget
REQUIRED_FEATURES = {"quick": dict({"kind:" + k: 1 for k in KINDS}, **_COMMON_FEATURES), "thorough": dict({"kind:" + k: 2 for k in KINDS}, **_COMMON_FEATURES)}
BUDGET = {"quick": {"cases": 1500, "seconds": 34}, "thorough": {"cases": 40000, "seconds": 700}}
EXHAUSTIVE_WHOLE = False


def T(name, clients, base=0.05, **kw):
    d = {"name": name, "clients": clients, "requests": [[{"wire": 1}]], "svc": {"mode": "const", "base": base, "seed": 1}}
    d.update(kw)
    return d


def R(name, real_op, clients=1, iterations=1):
    return {"name": name, "clients": clients, "warmup_iterations": 0, "iterations": iterations, "requests": [[{"wire": 1}]], "real_op": real_op,
            "svc": {"mode": "const", "base": 0.05, "seed": 1}}


STATUSES = [400, 404, 408, 409, 429, 500, 503, "timeout"]


def base_cases():
    common = {"test_mode": True, "delay": "small", "epsilon": 0.0, "clock_offsets": True, "wakeup_jitter": 0.0}
    return [
        dict(common, seed=101, cores=1, hosts=["localhost"], elements=[{"tasks": [T("a", 1, warmup_iterations=0, iterations=3)]}, {"tasks": [T("b", 2, warmup_iterations=1, iterations=2)]}]),
        dict(common, seed=102, cores=2, hosts=["localhost"], elements=[
            {"tasks": [T("a", 2, warmup_iterations=0, iterations=2)]},
            {"parallel": True, "completed_by": "b", "tasks": [T("b", 1, warmup_iterations=0, iterations=3), T("c", 2, base=0.3, warmup_time_period=0, time_period=300)]},
            {"tasks": [T("d", 3, warmup_iterations=0, iterations=1)]}]),
        dict(common, seed=103, cores=2, hosts=["localhost", "10.0.0.2"], test_mode=False, elements=[
            {"parallel": True, "clients_cap": 2, "tasks": [T("a", 2, base=0.6, warmup_iterations=0, iterations=2), T("b", 2, warmup_iterations=0, iterations=2)]},
            {"tasks": [T("c", 4, base=7.0, warmup_iterations=0, iterations=5)]}]),
        # rally's own operation types with their registered runners (cluster-health, refresh and force-merge sit behind runner.Retry)
        dict(common, seed=105, cores=1, hosts=["localhost"], elements=[
            {"tasks": [R("health", {"operation-type": "cluster-health", "request-params": {"wait_for_status": "green"}, "retry-until-success": False})]},
            {"tasks": [R("refresh", {"operation-type": "refresh", "index": "idx"}, clients=2)]},
            {"tasks": [R("health-retries", {"operation-type": "cluster-health", "retries": 2, "retry-wait-period": 0.1, "retry-until-success": False}, iterations=2)]},
            {"tasks": [R("merge", {"operation-type": "force-merge", "index": "idx"})]},
            {"tasks": [R("search", {"operation-type": "search", "index": "idx", "body": {"query": {"match_all": {}}}}, iterations=2)]},
            {"tasks": [R("raw", {"operation-type": "raw-request", "path": "/_verif/raw", "method": "GET"})]},
            # asks with HEAD whether the index exists before deleting it: a HEAD answered with an error status is a failed request, too
            {"tasks": [R("delete", {"operation-type": "delete-index", "index": "idx", "only-if-exists": True})]}]),
        # a task that tolerates non-fatal response errors (ignore-response-error-level) runs in the same worker, listed before a task that does
        # not: under --on-error=abort a failed request of the second one still fails the race
        dict(common, seed=106, cores=1, hosts=["localhost"], elements=[
            {"parallel": True, "tasks": [T("lenient", 1, warmup_iterations=0, iterations=2, ignore_response_error_level="non-fatal"),
                                         T("strict", 2, warmup_iterations=0, iterations=2)]},
            {"tasks": [T("after", 1, warmup_iterations=0, iterations=1)]}]),
        # a really over-committed parallel element (no other element is wider): every worker runs its tasks in two rows between the same pair of
        # join points, so a failure in the FIRST row is found at a wake-up after which the worker would go on to the second row
        dict(common, seed=107, cores=2, hosts=["localhost"], elements=[
            {"parallel": True, "clients_cap": 2, "tasks": [T("first", 2, warmup_iterations=0, iterations=2), T("second", 2, base=0.3, warmup_iterations=0, iterations=2)]},
            {"tasks": [T("after", 2, warmup_iterations=0, iterations=1)]}]),
        # the schedule and delay profile under which a BenchmarkComplete overtook the bounced failure notification of race control's
        # TaskFinished handler (found by the thorough tier, repaired in /repo d77538d); only the race-control store faults are enumerated here
        json.load(open(os.path.join(os.path.dirname(__file__), "c09_base_overtake.json"))),
        dict(common, seed=104, cores=1, hosts=["localhost"], test_mode=False, delay="adversarial", elements=[
            {"tasks": [T("a", 1, base=2.0, warmup_time_period=0, time_period=70)]}, {"tasks": [T("b", 1, warmup_iterations=0, iterations=2)]}]),
    ]


def shorten(case, rng):
    """Generated C01 cases, cut down so that a race is cheap."""
    for el in case["elements"]:
        for t in el["tasks"]:
            if "iterations" in t:
                t["iterations"] = min(t["iterations"], rng.choice([1, 2, 4, 40]))
            if "time_period" in t:
                t["time_period"] = min(t["time_period"], rng.choice([5, 40, 400]))
            t["svc"]["base"] = min(t["svc"]["base"], 3.0)
    case["elements"] = case["elements"][:3]
    return case


# ------------------------------------------------------------------------------------------------------------ fault injection
class Injector:
    def __init__(self, fault):
        self.fault = fault
        self.fired_at = None
        self.too_late = False
        self.detail = None

    def install(self, k, sim, tr):
        f = self.fault
        kind = f["kind"]
        me = self
        tr.injector = self

        def benchmark_complete_seen():
            """The benchmark is over: race control heard BenchmarkComplete, the driver produced it, or every worker has already reached
            (and reported) the final join point and only message delivery is outstanding."""
            if any(m[1] == "BenchmarkComplete" for m in tr.to_racecontrol) or tr.benchmark_complete_sent_at is not None:
                return True
            workers = [x.inst for x in k.recs.values() if x.cls is not None and x.cls.__name__ == "Worker" and x.inst is not None and x.inst.client_allocations is not None]
            if not workers:
                return False
            try:
                return all(w.current_task_index == len(w.client_allocations.allocations[0]["tasks"]) - 1 for w in workers)
            except Exception:
                return False

        if kind == "http-status-abort":
            inner = sim.script

            def script(rec):
                out = inner(rec)
                # every wire request of that logical request is answered with the status (the transport itself retries 429/502/503/504)
                if rec["task"] == f["task"] and rec["client"] == f["phys_client"] and rec["logical"] == f["ordinal"] and f.get("only_method") in (None, rec["method"]):
                    if me.fired_at is None:
                        me.fired_at = k.clock.now
                    if f["status"] == "timeout":
                        out.fail = "timeout"
                    else:
                        out.status, out.body = f["status"], b'{"error":{"type":"verif","reason":"simulated"},"status":%d}' % f["status"]
                    out.before_headers = out.before_body = 0.0
                return out

            sim.script = script
        elif kind in ("http-abort", "http-400-abort", "refused-continue", "timeout-abort"):
            inner = sim.script

            def script(rec):
                out = inner(rec)
                if me.fired_at is None and rec["task"] == f["task"] and rec["client"] == f["phys_client"] and rec["logical"] == f["ordinal"]:
                    me.fired_at = k.clock.now
                    if kind == "http-abort":
                        out.status, out.body = 500, b'{"error":{"type":"verif"},"status":500}'
                    elif kind == "http-400-abort":
                        out.status, out.body = 400, b'{"error":{"type":"verif_bad_request"},"status":400}'
                    elif kind == "timeout-abort":
                        out.fail = "timeout"
                    else:
                        out.fail = "refused"
                    out.before_headers = out.before_body = 0.0  # the injected outcome is immediate (a slow answer could be pre-empted by the client's own request timeout)
                elif me.fired_at is not None and kind == "refused-continue" and rec["task"] == f["task"] and rec["client"] == f["phys_client"] and rec["logical"] == f["ordinal"]:
                    out.fail = "refused"  # elastic-transport retries a refused connection: keep refusing
                    out.before_headers = out.before_body = 0.0
                return out

            sim.script = script
        elif kind in ("params-raise", "partition-raise", "runner-keyerror", "runner-exception"):
            c04_gen.FAULT = {"kind": kind, "task": f["task"], "client": f.get("client"), "k": f.get("ordinal"), "exc": f.get("exc")}
            del c04_gen.FAULT_FIRED[:]
        elif kind == "store-raises":
            orig = metrics.InMemoryMetricsStore._add
            count = [0]

            def _add(store, doc):
                if k.current_proc is not None and k.current_proc.cls.__name__ == "DriverActor" and doc.get("name") in ("latency", "service_time", "processing_time", "throughput"):
                    count[0] += 1
                    if count[0] == f["nth"] and me.fired_at is None:
                        me.fired_at = k.clock.now
                        me.detail = k.current_msg
                        raise IOError("verif: metrics store is broken")
                return orig(store, doc)

            metrics.InMemoryMetricsStore._add = _add
            self._undo = lambda: setattr(metrics.InMemoryMetricsStore, "_add", orig)
        elif kind == "store-down":
            # the driver's metrics store goes down and stays down (a remote Elasticsearch store that became unreachable): from the n-th record
            # on every write fails, and so does the flush that closing the store implies
            orig_add, orig_flush = metrics.InMemoryMetricsStore._add, metrics.InMemoryMetricsStore.flush
            count = [0]

            def in_driver():
                return k.current_proc is not None and k.current_proc.cls.__name__ == "DriverActor"

            def _add(store, doc):
                if in_driver() and doc.get("name") in ("latency", "service_time", "processing_time", "throughput"):
                    count[0] += 1
                    if count[0] >= f["nth"]:
                        if me.fired_at is None:
                            me.fired_at = k.clock.now
                            me.detail = k.current_msg
                        raise IOError("verif: metrics store is down")
                return orig_add(store, doc)

            def flush(store, refresh=True):
                if in_driver() and me.fired_at is not None:
                    raise IOError("verif: metrics store is down (flush)")
                return orig_flush(store, refresh)

            metrics.InMemoryMetricsStore._add = _add
            metrics.InMemoryMetricsStore.flush = flush

            def undo_down():
                metrics.InMemoryMetricsStore._add, metrics.InMemoryMetricsStore.flush = orig_add, orig_flush

            self._undo = undo_down
        elif kind == "rc-store-raises":
            # race control's own metrics store fails while it takes over the samples of a finished task / of the whole benchmark, or while the
            # final results are calculated. The benchmark itself may be over by then - the race is not: it must still end as failed.
            target, when = f["call"].split("@")
            origs = {"bulk_add": metrics.InMemoryMetricsStore.bulk_add, "flush": metrics.InMemoryMetricsStore.flush, "calculate_results": metrics.calculate_results}
            seen = [0]

            def make(name):
                def wrapper(*a, **kw):
                    if name == target and me.fired_at is None and k.current_proc is not None and k.current_proc.cls.__name__ == "BenchmarkActor" and k.current_msg == when:
                        seen[0] += 1
                        if seen[0] >= f.get("nth", 1):
                            me.fired_at = k.clock.now
                            me.detail = f["call"]
                            raise IOError("verif: race control's metrics store is broken")
                    return origs[name](*a, **kw)
                return wrapper

            metrics.InMemoryMetricsStore.bulk_add = make("bulk_add")
            metrics.InMemoryMetricsStore.flush = make("flush")
            metrics.calculate_results = make("calculate_results")

            def undo_rc():
                metrics.InMemoryMetricsStore.bulk_add = origs["bulk_add"]
                metrics.InMemoryMetricsStore.flush = origs["flush"]
                metrics.calculate_results = origs["calculate_results"]

            self._undo = undo_rc
        elif kind in ("prepare-task-raises", "prepare-handler-raises"):
            orig = loader.DefaultTrackPreparator.on_prepare_track

            def on_prepare_track(prep, track, data_root_dir):
                if kind == "prepare-handler-raises":
                    me.fired_at = k.clock.now
                    if f.get("exc") == "system-exit":
                        raise SystemExit("verif: a track plugin gives up with sys.exit()")  # not an Exception: only a handler guard for BaseException reports it
                    raise (TwoArgError("on_prepare_track", "verif") if f.get("exc") == "two-arg" else RuntimeError("verif: on_prepare_track failed"))
                PREPARE_TASK_FIRED.append(0)
                return [(failing_task_two_arg if f.get("exc") == "two-arg" else failing_task, {})]

            loader.DefaultTrackPreparator.on_prepare_track = on_prepare_track
            self._undo = lambda: setattr(loader.DefaultTrackPreparator, "on_prepare_track", orig)
        elif kind == "worker-dies":
            n = [0]

            def observer(kernel, r, msg, sender):
                n[0] += 1
                if n[0] >= f["at_message"] and me.fired_at is None:
                    workers = [x for x in kernel.recs.values() if x.cls is not None and x.cls.__name__ == "Worker" and not x.dead and x.inst is not None and x.inst.worker_id is not None]
                    if workers:
                        if benchmark_complete_seen():
                            me.too_late = True
                            me.fired_at = kernel.clock.now
                            return None
                        victim = workers[f["at_message"] % len(workers)]
                        me.fired_at = kernel.clock.now
                        w = victim.inst
                        try:
                            if w.client_allocations is not None and w.current_task_index == len(w.client_allocations.allocations[0]["tasks"]) - 1:
                                # the victim has already reached (and reported) the final join point: its part of the benchmark is over,
                                # only teardown is left - "too late"
                                me.too_late = True
                        except Exception:
                            pass
                        kernel.kill(victim.addr)

            k.observers.append(observer)
        elif kind == "cancel":
            def hook(kernel):
                if me.fired_at is None and kernel.deliver_count >= f["at_message"]:
                    me.fired_at = kernel.clock.now
                    if benchmark_complete_seen():
                        me.too_late = True
                    raise KeyboardInterrupt()

            k.pre_step_hooks.append(hook)

    def uninstall(self):
        c04_gen.FAULT = None
        del PREPARE_TASK_FIRED[:]
        u = getattr(self, "_undo", None)
        if u:
            u()

    def fired(self):
        if self.fault["kind"] in ("params-raise", "partition-raise", "runner-keyerror", "runner-exception"):
            return bool(c04_gen.FAULT_FIRED)
        if self.fault["kind"] == "prepare-task-raises":
            return 1 in PREPARE_TASK_FIRED
        return self.fired_at is not None


PREPARE_TASK_FIRED = []


def failing_task():
    PREPARE_TASK_FIRED.append(1)
    raise RuntimeError("verif: track preparation task failed")


class TwoArgError(Exception):
    """An exception the way track plugins and client libraries write them: the constructor takes more than the message. An instance pickles, but
    re-creating it from its args (the one formatted message) fails - an actor message that carries the instance never arrives."""

    def __init__(self, what, why):
        super().__init__(f"{what}: {why}")


def failing_task_two_arg():
    PREPARE_TASK_FIRED.append(1)
    raise TwoArgError("track preparation task", "verif: failed")


# ------------------------------------------------------------------------------------------------------------ one faulted race
def run_faulted(ctx, case, fault, problems, base_steps=None):
    import time as _t

    inj = Injector(fault)
    on_error = "abort" if fault["kind"] in ("http-abort", "http-400-abort", "timeout-abort", "http-status-abort") else "continue"
    run_case = dict(case, on_error=on_error, wall_deadline=_t.monotonic() + max(15.0, ctx.time_left() + 10.0))
    if fault.get("own_actor_system"):
        run_case["own_actor_system"] = fault["own_actor_system"]
    if base_steps:
        # a faulted race has no reason to need many more kernel events than its fault-free twin (waiting for a dead worker costs one
        # driver tick per virtual second until the stall horizon): 40x is the livelock bound
        run_case["max_steps"] = max(20000, 40 * base_steps)
    extra = ["--enable-driver-profiling"] if fault.get("profiling") else []
    try:
        tr = race.run_race(run_case, ctx.scratch, extra_args=extra, faults=inj.install, instrument=c01.instrument)
        inj.was_fired = inj.fired()
    finally:
        inj.uninstall()
    return tr, inj


def check_failed(ctx, case, fault, tr, inj, problems):
    kind = fault["kind"]
    where = f"fault {json.dumps(fault)}"
    ctx.clause("bounded-time")
    if tr.stalled:
        problems.append(("bounded-time", f"{where}: the race hangs: {tr.stall_reason}; race control heard {[m[1] for m in tr.to_racecontrol][-5:]}", {"kind": kind}))
        return
    cancelled = kind == "cancel"
    heard = [m[1] for m in tr.to_racecontrol]
    ctx.clause("failure-reaches-race-control")
    if kind == "rc-store-raises":
        # the failure happens IN race control: what counts is that it tells its requester (it need not hear about its own failure again)
        first = [d[2] for d in tr.kernel.deliveries if d[1] == "external"][:1]
        if first not in (["BenchmarkFailure"], ["PoisonMessage"]) and not any(m in ("BenchmarkFailure", "PoisonMessage") for m in heard):
            problems.append(("failure-reaches-race-control", f"{where}: race control neither told its requester about the failure (first reply: {first}) nor heard of it again; it heard {heard[-6:]}", {"kind": kind}))
    elif not cancelled and not any(m in ("BenchmarkFailure", "PoisonMessage") for m in heard):
        problems.append(("failure-reaches-race-control", f"{where}: race control never received a failure notification; it heard {heard[-6:]}", {"kind": kind}))
    if cancelled and "BenchmarkCancelled" not in heard:
        problems.append(("failure-reaches-race-control", f"{where}: race control was not told about the cancellation; it heard {heard[-6:]}", {"kind": kind}))
    ctx.clause("never-success")
    expected_status = "INTERRUPTED" if cancelled else "ERROR"
    # what ask() returned to race() is the FIRST message that reached the requester; a Success that race control sends into the void
    # after the failure has already been reported is not observable by the user
    to_ext = [d[2] for d in tr.kernel.deliveries if d[1] == "external"]
    success_to_requester = bool(to_ext) and to_ext[0] == "Success"
    if tr.exit_status != expected_status or success_to_requester:
        problems.append(("never-success", f"{where}: exit status {tr.exit_status} (expected {expected_status}), Success delivered to the requester: {success_to_requester}; console tail {tr.console[-200:]!r}", {"kind": kind}))
    ctx.clause("no-results-stored")
    if tr.race_file is not None and tr.race_file.get("results"):
        problems.append(("no-results-stored", f"{where}: race.json contains final results although the race failed", {"kind": kind}))
    ctx.clause("no-summary-printed")
    if tr.summaries:
        problems.append(("no-summary-printed", f"{where}: the summary report was printed although the race failed", {"kind": kind}))


def points_for(case, base_tr, rng, exhaustive):
    """All (kind, point) pairs for one base case."""
    logical = [e for e in base_tr.rec.logical]
    runs = base_tr.rec.runs
    n_msgs = len(base_tr.kernel.deliveries)
    faults = []
    req_points = range(len(logical)) if exhaustive else sorted(rng.sample(range(len(logical)), min(len(logical), 3)))
    for j in req_points:
        e = logical[j]
        idx = runs[e["run"]]["index_in_task"]
        lenient = any(t.get("ignore_response_error_level") for el in case["elements"] for t in el["tasks"] if t["name"] == e["task"])
        for kind in ("http-abort", "http-400-abort", "timeout-abort", "refused-continue", "params-raise", "runner-keyerror", "runner-exception"):
            if not exhaustive and rng.random() < 0.6:
                continue
            if lenient and kind in ("http-abort", "http-400-abort", "timeout-abort"):
                continue  # tolerated by that task's own configuration: no failure in the statement's sense
            if any(t.get("real_op") for el in case["elements"] for t in el["tasks"] if t["name"] == e["task"]):
                # rally's own runners get the persistent fault family below: a fault that hits one attempt only is, behind runner.Retry with
                # retries > 0, recovered by design and no failure at all; the other kinds live in the harness's runner / parameter source
                continue
            faults.append({"kind": kind, "task": e["task"], "phys_client": e["client"], "client": idx, "ordinal": e["ordinal"]})
            if kind == "params-raise":
                faults[-1]["exc"] = ("ValueError", "RuntimeError", "NotImplementedError", "KeyError")[(j + e["ordinal"]) % 4]
            if (j + len(faults)) % 7 == 3:
                # rally runs on an actor system it started itself and has to shut down afterwards - cleanly, or with a load generator that hangs
                # and keeps the system alive past the shutdown timeout: the failure of the race must survive that, too
                faults.append({"kind": kind, "task": e["task"], "phys_client": e["client"], "client": idx, "ordinal": e["ordinal"], "own_actor_system": "hangs" if j % 2 else "clean"})
            if (j + len(faults)) % 5 == 0:
                # the same fault with the rarely used driver profiling switched on (every executor runs inside AsyncProfiler)
                faults.append({"kind": kind, "task": e["task"], "phys_client": e["client"], "client": idx, "ordinal": e["ordinal"], "profiling": True})
    real = {t["name"] for el in case["elements"] for t in el["tasks"] if t.get("real_op")}
    for j in req_points:
        e = logical[j]
        if e["task"] in real:
            head = any(base_tr.sim.log[w]["method"] == "HEAD" for w in e["wire"])
            if head:
                # only the existence check (HEAD) is answered with an error status; 404 is its regular "no" and left out
                for status in (401, 403, 500, 503):
                    faults.append({"kind": "http-status-abort", "status": status, "only_method": "HEAD", "task": e["task"], "phys_client": e["client"], "client": runs[e["run"]]["index_in_task"], "ordinal": e["ordinal"]})
            for status in STATUSES:
                if head and status == 404:
                    continue
                faults.append({"kind": "http-status-abort", "status": status, "task": e["task"], "phys_client": e["client"], "client": runs[e["run"]]["index_in_task"], "ordinal": e["ordinal"]})
    tasks = sorted({e["task"] for e in logical} - real)
    for t in (tasks if exhaustive else tasks[:1]):
        faults.append({"kind": "partition-raise", "task": t})
    n_store = 4 * len(base_tr.rec.samples)
    for nth in (range(1, n_store + 1, 3) if exhaustive else [rng.randint(1, max(1, n_store))]):
        faults.append({"kind": "store-raises", "nth": nth})
    for nth in (range(1, n_store + 1, 7) if exhaustive else [rng.randint(1, max(1, n_store))]):
        faults.append({"kind": "store-down", "nth": nth})
    for call in ("bulk_add@TaskFinished", "bulk_add@BenchmarkComplete", "flush@BenchmarkComplete", "calculate_results@BenchmarkComplete"):
        if exhaustive or rng.random() < 0.3:
            faults.append({"kind": "rc-store-raises", "call": call})
    if exhaustive and len(case["elements"]) > 2:
        faults.append({"kind": "rc-store-raises", "call": "bulk_add@TaskFinished", "nth": 2})
    faults.append({"kind": "prepare-task-raises"})
    faults.append({"kind": "prepare-handler-raises"})
    if exhaustive or rng.random() < 0.3:
        faults.append({"kind": "prepare-handler-raises", "exc": "system-exit"})
    if exhaustive or rng.random() < 0.5:
        # the same with an exception class whose instances do not survive the trip between two actor processes
        faults.append({"kind": "prepare-task-raises", "exc": "two-arg"})
        faults.append({"kind": "prepare-handler-raises", "exc": "two-arg"})
    msg_points = range(1, n_msgs, 3) if exhaustive else [rng.randint(1, max(1, n_msgs - 1)) for _ in range(2)]
    for m in msg_points:
        faults.append({"kind": "worker-dies", "at_message": m})
        faults.append({"kind": "cancel", "at_message": m})
    if case.get("only_kinds"):
        faults = [f for f in faults if f["kind"] in case["only_kinds"]]
    return faults


def run_shard(ctx):
    import time as _t

    bases = base_cases()
    done_exhaustive = True
    # ---- exhaustive part: every base case, every fault point. The work list is ordered so that the first fault of every kind of every base
    # comes first (a slow machine then still sees every kind) and is dealt out to the shards round-robin.
    work, head = [], []
    for bi, case in enumerate(bases):
        base_tr = race.run_race(dict(case, wall_deadline=_t.monotonic() + 60), ctx.scratch, instrument=c01.instrument)
        c01.finish_trace(base_tr)
        ctx.clause("baseline-succeeds")
        if base_tr.exit_status != "SUCCESSFUL" or base_tr.stalled:
            ctx.mark_inconclusive(f"fault-free base race {bi} did not succeed: {base_tr.exit_status} {base_tr.stall_reason} {base_tr.console[-200:]!r}")
            continue
        faults = points_for(case, base_tr, ctx.case_rng(f"base{bi}"), exhaustive=True)
        ctx.feature(f"base{bi}-fault-points", len(faults) if ctx.shard == 0 else 0)
        seen_kinds = set()
        for fault in faults:
            item = (bi, case, fault, base_tr.kernel.steps)
            key = (fault["kind"], bool(fault.get("profiling")), fault.get("own_actor_system"))
            if key not in seen_kinds:
                seen_kinds.add(key)
                head.append(item)
            else:
                work.append(item)
    # all profiling firsts after the plain firsts, so that the very first items cover the kinds
    head.sort(key=lambda it: (bool(it[2].get("profiling")) or bool(it[2].get("own_actor_system")), it[0]))
    for wi, (bi, case, fault, steps) in enumerate(head + work):
        if wi % ctx.nshards != ctx.shard:
            continue
        if _t.monotonic() > ctx.deadline + 20:
            done_exhaustive = False
            break
        one_fault(ctx, case, fault, f"base{bi}", base_steps=steps)
    ctx.exhaustive["base-schedules: every request index x 7 request faults, every 3rd message index x {worker-dies,cancel}, every 3rd store call"] = done_exhaustive
    # ---- sampled part: generated cases
    i = 0
    while ctx.more():
        rng = ctx.case_rng(i)
        i += 1
        case = shorten(c01.gen_case(rng), rng)
        base_tr = race.run_race(dict(case, wall_deadline=_t.monotonic() + 30), ctx.scratch, instrument=c01.instrument)
        c01.finish_trace(base_tr)
        if base_tr.exit_status != "SUCCESSFUL" or base_tr.stalled or base_tr.budget or not base_tr.rec.logical:
            ctx.feature("generated-base-not-usable")
            continue
        for fault in points_for(case, base_tr, rng, exhaustive=False):
            if not ctx.more():
                break
            one_fault(ctx, case, fault, "generated", base_steps=base_tr.kernel.steps)


def one_fault(ctx, case, fault, origin, base_steps=None):
    problems = []
    tr, inj = run_faulted(ctx, case, fault, problems, base_steps)
    feats = {"kind:" + fault["kind"], "origin:" + origin}
    if fault.get("exc"):
        feats.add(f"exc:{fault['kind']}:{fault['exc']}")
    if fault.get("profiling"):
        feats.add("driver-profiling-on")
    if fault.get("own_actor_system"):
        feats.add("own-actor-system:" + fault["own_actor_system"])
    if tr.budget:
        k = tr.kernel
        if k.budget_reason == "steps" and inj.was_fired and not inj.too_late and base_steps and k.max_steps >= 10 * base_steps and tr.benchmark_complete_sent_at is None:
            # the same race without the fault needed base_steps kernel events; with the fault it is still busy after at least ten times as
            # many: a livelock (e.g. a failure notification bouncing between two actors) never "ends the race as failed"
            recent = {}
            for d in k.deliveries[-3000:]:
                recent[(d[1], d[2], d[3])] = recent.get((d[1], d[2], d[3]), 0) + 1
            top = sorted(recent.items(), key=lambda kv: -kv[1])[:3]
            if len(recent) > 4 or any(t[1] == "WakeupMessage" for t in recent):
                # many different exchanges, or timers among them: slow rather than circular - stays inconclusive
                ctx.feature("budget-exceeded")
                ctx.case([case["seed"], fault], False, ())
                return
            ctx.clause("bounded-time")
            ctx.case([case["seed"], fault], True, feats | {"livelock-after-fault"})
            ctx.violation("bounded-time", {"case": case, "fault": fault, "detail": {"kind": fault["kind"], "livelock": True}},
                          f"fault {json.dumps(fault)}: the race is still exchanging messages after {k.steps} kernel events at virtual second {k.clock.now:.1f} "
                          f"(the fault-free race needed {base_steps}); most frequent recent deliveries (receiver, message, sender): {top}; race control heard {[m[1] for m in tr.to_racecontrol][-4:]}")
            return
        ctx.feature("budget-exceeded")
        ctx.case([case["seed"], fault], False, ())
        return
    sent = tr.benchmark_complete_sent_at
    if fault["kind"] == "rc-store-raises":
        sent = None  # never "too late": storing the final metrics and results is part of the race
    if not inj.was_fired or inj.too_late or (sent is not None and inj.fired_at is not None and sent <= inj.fired_at):
        # never reached (e.g. the request was not executed in this run) or after the benchmark had completed: excluded
        ctx.feature("fault-not-injected-or-too-late")
        ctx.case([case["seed"], fault], False, ())
        return
    check_failed(ctx, case, fault, tr, inj, problems)
    if fault["kind"] == "store-raises":
        feats.add("store-raises-in:" + str(inj.detail))
    ctx.distinct("delivery-order-fingerprints", repr(tr.fingerprint))
    ctx.case([case["seed"], fault], True, feats)
    ctx.sample({"fault": fault, "schedule": [[t["name"] for t in el["tasks"]] for el in case["elements"]], "observed": {"race_control_heard": [m[1] for m in tr.to_racecontrol][-4:], "exit_status": tr.exit_status,
                "virtual_seconds": round(tr.kernel.clock.now, 1)}}, tag=fault["kind"])
    for clause, msg, detail in problems:
        ctx.violation(clause, {"case": case, "fault": fault, "detail": detail}, msg)


def tr_complete_time(tr):
    for m in tr.to_racecontrol:
        if m[1] == "BenchmarkComplete":
            return m[0]
    return None


def classify(v):
    return None


def replay(ctx, rec):
    import time as _t

    w = rec["witness"]
    base_tr = race.run_race(dict(w["case"], wall_deadline=_t.monotonic() + 60), ctx.scratch, instrument=c01.instrument)
    one_fault(ctx, w["case"], w["fault"], "replay", base_steps=None if base_tr.budget else base_tr.kernel.steps)


MANIFEST = {
    "text": "Fault enumeration: for a handful of small base schedules (one of them really over-committed: two rows of tasks between two join points on every worker) every logical-request index x seven request-level faults, every third message index x {worker death, user "
    "cancellation}, every third store call and both track-preparation faults are injected (exhaustive for those schedules); generated schedules get sampled "
    "points; a base schedule of rally's own operation types (cluster-health, refresh, force-merge, search, raw-request, delete-index behind their registered runners) gets a persistent status / timeout fault family (also on the HEAD existence check only), and race control's own metrics store fails while it takes over samples or calculates the results; a fifth of the request-level faults also run with --enable-driver-profiling; parameter-source faults rotate through ValueError / RuntimeError / NotImplementedError / KeyError and preparator faults also raise an exception whose instances cannot be unpickled (the kernel, like Thespian, drops a message it cannot decode) or leave the handler through SystemExit (the kernel then ends the actor's process). Each faulted race runs through rally's real CLI/actors on the simulated kernel and is checked for: failure (or cancellation) reaches race control, "
    "exit status ERROR/INTERRUPTED and never Success, no results in race.json, no summary printed, no stall and no livelock (a faulted race that is still busy after ten times the kernel events of its fault-free twin).",
    "note": "Single faults only; same actor/ES model as C01; process death modelled as ChildActorExited without handlers.",
    "technique": "runtime monitor: terminal-state checker over traces of simulated races with one injected fault (fault points enumerated from the fault-free run)",
    "engines": ["vclock", "simactor", "simes", "race"],
    "engine": "race",
}
