"""C08, Elasticsearch metrics store class: the same records in rally's real EsMetricsStore and in the in-memory store must give the same results.

The real EsMetricsStore (query construction, aggregations, flush) talks to a small in-process index that executes exactly the query
language the store uses: bool/filter of term queries, size, sort, and the stats / percentiles / terms aggregations. Percentiles are
answered with the same linear interpolation the in-memory store uses (what matters here is WHICH documents a query selects, not how
Elasticsearch approximates percentiles). The oracle is differential: GlobalStatsCalculator over the real EsMetricsStore must report
what it reports over the in-memory store for the same records.
"""
import json
import math


def _field(doc, path):
    cur = doc
    for part in path.split("."):
        if not isinstance(cur, dict) or part not in cur:
            return None
        cur = cur[part]
    return cur


def _pct(sorted_values, p):
    rank = float(p) / 100.0 * (len(sorted_values) - 1)
    if rank == int(rank):
        return sorted_values[int(rank)]
    lo, hi = math.floor(rank), math.ceil(rank)
    return sorted_values[lo] + (sorted_values[hi] - sorted_values[lo]) * (rank - lo)


class FakeIndex:
    def __init__(self):
        self.indices = {}
        self.templates = {}
        self.searches = 0

    # ---- what metrics.EsClient offers to the stores
    def template_exists(self, name):
        return name in self.templates

    def get_template(self, name):
        class R:
            body = {"index_templates": []}
        return R()

    def put_template(self, name, template):
        self.templates[name] = template

    def exists(self, index):
        return index in self.indices

    def create_index(self, index):
        self.indices.setdefault(index, [])

    def refresh(self, index):
        pass

    def bulk_index(self, index, items):
        # what Elasticsearch keeps is the JSON document
        self.indices.setdefault(index, []).extend(json.loads(json.dumps(list(items))))

    def index(self, index, item, id=None):
        self.indices.setdefault(index, []).append(json.loads(json.dumps(item)))

    def delete_by_query(self, index, body):
        pass

    def search(self, index, body):
        self.searches += 1
        docs = self.indices.get(index, [])
        q = body.get("query", {"match_all": {}})
        hits = [d for d in docs if self._match(d, q)]
        for s in reversed(body.get("sort", [])):
            (key, spec), = s.items()
            hits.sort(key=lambda d: (_field(d, key) is None, _field(d, key)), reverse=spec.get("order") == "desc")
        out = {"hits": {"total": {"value": len(hits), "relation": "eq"}, "hits": [{"_source": d} for d in hits[: body.get("size", 10)]]}}
        aggs = {}
        for name, agg in (body.get("aggs") or {}).items():
            (kind, spec), = agg.items()
            vals = [_field(d, spec["field"]) for d in hits]
            vals = [v for v in vals if v is not None]
            if kind == "stats":
                aggs[name] = {"count": len(vals), "min": min(vals) if vals else None, "max": max(vals) if vals else None,
                              "avg": (sum(vals) / len(vals)) if vals else None, "sum": sum(vals) if vals else 0.0}
            elif kind == "percentiles":
                sv = sorted(vals)
                aggs[name] = {"values": {str(float(p)): (_pct(sv, p) if sv else None) for p in spec["percents"]}}
            elif kind == "terms":
                counts = {}
                for v in vals:
                    counts[v] = counts.get(v, 0) + 1
                aggs[name] = {"buckets": [{"key": int(k) if isinstance(k, bool) else k, "key_as_string": ("true" if k else "false") if isinstance(k, bool) else str(k), "doc_count": c}
                                          for k, c in sorted(counts.items(), key=lambda kv: -kv[1])]}
            else:
                raise NotImplementedError(kind)
        if aggs:
            out["aggregations"] = aggs
        return out

    def _match(self, doc, q):
        (kind, spec), = q.items()
        if kind == "match_all":
            return True
        if kind == "term":
            (field, value), = spec.items()
            if isinstance(value, dict):
                value = value.get("value")
            return _field(doc, field) == value
        if kind == "bool":
            return all(self._match(doc, f) for f in spec.get("filter", [])) and all(self._match(doc, f) for f in spec.get("must", []))
        raise NotImplementedError(kind)


def es_results(metrics, cfg, spec, trk, ch, race, fill_store):
    """Results of the real GlobalStatsCalculator over the real EsMetricsStore holding the records of `spec`."""
    index = FakeIndex()

    class Factory:
        def __init__(self, cfg_):
            pass

        def create(self):
            return index

    class Templates:
        def __init__(self, cfg_):
            pass

        def metrics_template(self):
            return "{}"

    store = metrics.EsMetricsStore(cfg, client_factory_class=Factory, index_template_provider_class=Templates)
    store.open(race_id=cfg.opts("system", "race.id"), race_timestamp=cfg.opts("system", "time.start"), track_name=trk.name, challenge_name=ch.name,
               car_name="+".join(cfg.opts("mechanic", "car.names")), create=True)
    fill_store(store, spec)
    store.flush()
    results = metrics.calculate_results(store, race)
    store.close()
    return results, index
