"""C14 helpers: corpus / archive generation, the scripted HTTP server, independent reference computations.

Nothing in here imports esrally; everything is plain files, sockets and the standard compression libraries, so the
reference values (document bytes, line ends, parsed offset tables) do not depend on the code under test.
"""
import bz2
import gzip
import io as pyio
import os
import random
import socket
import struct
import tarfile
import threading
import time
import urllib.parse
import zipfile
from http.server import BaseHTTPRequestHandler, ThreadingHTTPServer

import zstandard

FORMATS = [".bz2", ".gz", ".zst", ".zip", ".tar", ".tar.gz", ".tgz", ".tar.bz2"]
TAR_FORMATS = (".tar", ".tar.gz", ".tgz", ".tar.bz2")
DOC_NAME = "documents.json"

# fixed instants in the past for everything that "happened before" the run under test; files the code under test writes
# get the current time, which is later than all of them. No wall-clock value is ever read for a verdict.
T_BASE = 1_600_000_000
T_TABLE_V1 = T_BASE + 10_000  # the offset table of the earlier corpus version was built
T_MEMBER_OLDER = T_BASE + 5_000  # archive member mtime: author packed the new version before our old table was built
T_MEMBER_NEWER = T_BASE + 15_000  # ... or after it
T_ARCHIVE = T_BASE + 20_000  # archive file arrived on disk
T_DOC = T_BASE + 30_000  # document file was written
T_TABLE_CURRENT = T_BASE + 40_000  # offset table built for that document file
T_DOC_DAMAGED = T_BASE + 50_000  # something truncated / altered the document file afterwards

_ALPHABET = "abcdefghijklmnopqrstuvwxyz     0123456789äöüßéñ€日本語中文😀"


# ------------------------------------------------------------------ corpora
def gen_docs(seed, lines, width=12, eol="\n", final_newline=True, meta=False):
    """`lines` lines of JSON (optionally alternating action-and-meta-data / document lines), UTF-8 with multi-byte characters."""
    rng = random.Random(f"c14-docs:{seed}:{lines}:{width}")
    pool = ["".join(rng.choice(_ALPHABET) for _ in range(rng.randint(0, width))) for _ in range(61)]
    step = rng.randrange(1, 61)
    out = []
    for i in range(lines):
        if meta and i % 2 == 0:
            out.append('{"index":{"_id":"%d"}}' % (i // 2))
        else:
            out.append('{"i":%d,"w":"%s"}' % (i, pool[(i * step + i // 7) % 61]))
    text = eol.join(out) + (eol if final_newline else "")
    return text.encode("utf-8")


def line_ends(data):
    """Byte position after each line when reading lines one by one (a last line without newline ends at EOF)."""
    ends = []
    pos = data.find(b"\n")
    while pos != -1:
        ends.append(pos + 1)
        pos = data.find(b"\n", pos + 1)
    if data and not data.endswith(b"\n"):
        ends.append(len(data))
    return ends


def parse_table(raw):
    """Independent parser for `<line>;<offset>` tables. Returns (entries, malformed_lines)."""
    entries, bad = [], []
    text = raw.decode("utf-8", "replace")
    for ln in text.split("\n"):
        if ln == "":
            continue
        parts = ln.split(";")
        if len(parts) == 2 and parts[0].isdigit() and parts[1].isdigit():
            entries.append((int(parts[0]), int(parts[1])))
        else:
            bad.append(ln)
    if text and not text.endswith("\n") and not bad:
        # last entry is not terminated: it may be a cut number
        bad.append("<unterminated>" + text.rsplit("\n", 1)[-1])
    return entries, bad


def build_archive(fmt, doc, member_mtime, name=DOC_NAME):
    if fmt == ".bz2":
        return bz2.compress(doc, 1)
    if fmt == ".gz":
        return gzip.compress(doc, 1, mtime=0)
    if fmt == ".zst":
        return zstandard.ZstdCompressor(level=1).compress(doc)
    buf = pyio.BytesIO()
    if fmt == ".zip":
        with zipfile.ZipFile(buf, "w", zipfile.ZIP_DEFLATED, compresslevel=1) as z:
            zi = zipfile.ZipInfo(name, date_time=time.gmtime(member_mtime)[:6])
            zi.compress_type = zipfile.ZIP_DEFLATED
            z.writestr(zi, doc)
        return buf.getvalue()
    mode = {".tar": "w", ".tar.gz": "w:gz", ".tgz": "w:gz", ".tar.bz2": "w:bz2"}[fmt]
    kw = {"compresslevel": 1} if mode != "w" else {}
    with tarfile.open(fileobj=buf, mode=mode, **kw) as t:
        ti = tarfile.TarInfo(name)
        ti.size = len(doc)
        ti.mtime = member_mtime
        ti.mode = 0o644
        t.addfile(ti, pyio.BytesIO(doc))
    return buf.getvalue()


def write_file(path, data, mtime=None):
    os.makedirs(os.path.dirname(path), exist_ok=True)
    with open(path, "wb") as f:
        f.write(data)
    if mtime is not None:
        os.utime(path, (mtime, mtime))


def read_file(path):
    try:
        with open(path, "rb") as f:
            return f.read()
    except (FileNotFoundError, IsADirectoryError):
        return None


def mtime_of(path):
    try:
        return os.path.getmtime(path)
    except OSError:
        return None


def damage_doc(doc, state, rng):
    """Initial document-file states other than absent / correct."""
    ends = line_ends(doc)
    n = len(ends)
    if state == "empty":
        return b""
    if state == "trunc-line":  # complete lines only, at least one line missing
        if n < 2:
            return b""
        return doc[: ends[rng.randrange(0, n - 1)]]
    if state == "trunc-mid":  # cut inside a line that is not the last one
        if n < 2:
            return doc[: max(0, len(doc) // 2)]
        i = rng.randrange(0, n - 1)
        start = ends[i - 1] if i else 0
        return doc[: rng.randrange(start + 1, ends[i])] if ends[i] - start > 1 else doc[:start]
    if state == "trunc-last":  # all lines begun, the tail of the last one (at least its last byte) missing
        start = ends[-2] if n > 1 else 0
        lo = start + 1 if n > 1 else 1
        return doc[: rng.randrange(lo, len(doc))] if len(doc) > lo else doc[: len(doc) - 1]
    if state == "wrong-same-size":  # same size, same line structure, other characters
        b = bytearray(doc)
        idx = [i for i in range(len(b)) if 0x61 <= b[i] <= 0x7A or 0x30 <= b[i] <= 0x39]
        for i in rng.sample(idx, max(1, min(len(idx), 3))):
            b[i] = 0x58  # 'X'
        return bytes(b)
    raise ValueError(state)


def damage_archive(arc, state, rng):
    if state == "empty":
        return b""
    if state == "truncated":
        if len(arc) < 2:
            return b""
        return arc[: rng.choice([len(arc) - 1, len(arc) - rng.randint(1, min(8, len(arc) - 1)), rng.randrange(1, len(arc)), len(arc) // 2 or 1])]
    if state == "garbage":  # same size, no structure
        return bytes(rng.getrandbits(8) for _ in range(len(arc)))
    raise ValueError(state)


# ------------------------------------------------------------------ scripted HTTP server
class ServerState:
    def __init__(self, entities=None, script=None, tail=None, max_requests=700):
        self.lock = threading.Lock()
        self.entities = dict(entities or {})  # file name -> bytes as published
        self.script = list(script or [])
        self.tail = tail or {"o": "ok"}
        self.max_requests = max_requests
        self.requests = 0
        self.log = []  # (file name, outcome)
        self.served_wrong = []  # wrong-size entities served in full with a consistent Content-Length
        self.runaway = False


def _rst(sock):
    try:
        sock.setsockopt(socket.SOL_SOCKET, socket.SO_LINGER, struct.pack("ii", 1, 0))
    except OSError:
        pass
    try:
        sock.close()
    except OSError:
        pass


class _Handler(BaseHTTPRequestHandler):
    protocol_version = "HTTP/1.1"
    disable_nagle_algorithm = True

    def log_message(self, *a):  # silence
        pass

    def _head(self, status, length=None, close=False):
        self.send_response(status)
        self.send_header("Content-Type", "application/octet-stream")
        if length is not None:
            self.send_header("Content-Length", str(length))
        if close:
            self.send_header("Connection", "close")
            self.close_connection = True
        self.end_headers()

    def do_GET(self):
        st = self.server.state
        name = urllib.parse.urlparse(self.path).path.rsplit("/", 1)[-1]
        with st.lock:
            st.requests += 1
            if st.requests > st.max_requests:
                st.runaway = True
                out = {"o": "404"}
            elif st.script:
                out = st.script.pop(0)
            else:
                out = st.tail
            body = st.entities.get(name)
            st.log.append((name, out["o"]))
        o = out["o"]
        try:
            if body is None or o in ("404", "500", "503"):
                status = 404 if body is None else int(o)
                msg = b"error %d" % status
                self._head(status, len(msg))
                self.wfile.write(msg)
                return
            part = body[: max(0, min(len(body) - 1, int(len(body) * out.get("f", 0.5))))]
            if o == "ok":
                self._head(200, len(body))
                self.wfile.write(body)
            elif o == "ok-nocl":  # body delimited by connection close, complete
                self._head(200, None, close=True)
                self.wfile.write(body)
            elif o == "slow":
                self._head(200, len(body))
                step = max(1, len(body) // 5)
                for i in range(0, len(body), step):
                    self.wfile.write(body[i : i + step])
                    self.wfile.flush()
                    time.sleep(0.001)
            elif o == "reset-pre":
                self.close_connection = True
                _rst(self.connection)
            elif o == "reset-mid":
                self._head(200, len(body))
                self.wfile.write(part)
                self.wfile.flush()
                time.sleep(0.002)
                self.close_connection = True
                _rst(self.connection)
            elif o == "stall":  # part of the body, then silence for longer than the client's read timeout (c14_drive.READ_TIMEOUT)
                self._head(200, len(body), close=True)
                self.wfile.write(part)
                self.wfile.flush()
                time.sleep(STALL_SECONDS)
            elif o == "short":  # full Content-Length, body ends early, orderly close
                self._head(200, len(body), close=True)
                self.wfile.write(part)
            elif o in ("wrong-short", "wrong-long", "wrong-empty"):  # another entity, consistent Content-Length
                ent = part if o == "wrong-short" else (body + b"\0trailing-bytes" if o == "wrong-long" else b"")
                with st.lock:
                    st.served_wrong.append(ent)
                self._head(200, len(ent))
                self.wfile.write(ent)
            else:
                raise ValueError(o)
        except (BrokenPipeError, ConnectionResetError, OSError):
            self.close_connection = True


class _Server(ThreadingHTTPServer):
    daemon_threads = True
    allow_reuse_address = True

    def handle_error(self, request, client_address):  # resets are part of the workload
        pass


def start_server():
    srv = _Server(("127.0.0.1", 0), _Handler)
    srv.state = ServerState()
    t = threading.Thread(target=srv.serve_forever, kwargs={"poll_interval": 0.05}, daemon=True)
    t.start()
    return srv


FAULTS = ["404", "500", "reset-pre", "reset-mid", "short", "wrong-short", "wrong-long", "wrong-empty", "slow", "ok-nocl", "stall"]
INCOMPLETE = ("reset-mid", "short", "stall")  # body of an HTTP 200 ends before Content-Length bytes arrived (or stops arriving)
STALL_SECONDS = 0.7
