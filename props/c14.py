"""C14 - corpus preparation ends with complete, verified data or an explicit error.

Monitor: the real DocumentSetPreparator (real Downloader, Decompressor, net.download over urllib3 against a scripted
http.server on 127.0.0.1, real bz2/gzip/zstd/zip/tar decompression incl. the external pigz) is run on generated initial
disk states, fault sequences and on what a crashed earlier run (subprocess with an os._exit failpoint) left behind.
After every run a post-state oracle looks at the files: a NORMAL return needs the document file with the declared size and
the published content plus an offset table whose entries are the byte positions obtained by reading lines one by one and
that makes skip_lines() land on the same byte; after ANY outcome the download target under its final name is either
untouched or complete. Exceptions are "explicit errors": their type is recorded, never judged.
"""
import json
import os
import random
import subprocess
import sys

from props import c14_env as E

ID = "C14"
LEVEL = "fault_enumeration"
RULE = (
    "enumerated parts: (initial document x archive x .tmp x offset-table state x declared sizes x 8 archive formats), (one HTTP fault "
    "repeated n=0..12 times, then healthy or for ever), (offset table of an earlier corpus version x format x archive-member mtime), "
    "(failpoint of an earlier run: download / decompression / offset-table bytes), (archive cut at every byte position, sizes undeclared); plus seeded random combinations with fault scripts of "
    "up to 12 outcomes, offline, no base-url, bundled/track-directory entry points and follow-up runs. Distinct = hash of the case "
    "description; non-trivial = anything but (document correct, table current, healthy network, no crash)."
)
ASSUMPTIONS = [
    "declared sizes and document counts are the true ones of the published archive unless the case says 'declared-wrong' (then only an error is acceptable)",
    "a document file that was on disk before with the SAME size but other content (no size or line-count evidence) is outside the statement's "
    "'missing, partial or wrong-sized'; its content is not judged, its offset table is judged against the file on disk",
    "a response with a consistent Content-Length is complete at HTTP level; when the track declares no size for it, it is what was published "
    "(a corrupt archive): acceptable outcomes are an error or the original documents",
    "offset-table entries for line numbers beyond the end of the file position no reader and are not judged; missing entries (slower, same byte) are not judged",
    "documents are JSON lines ending in \\n or \\r\\n (no lone \\r), as bulk corpora are",
    "initial states are histories with increasing timestamps (table of the earlier version < archive < document < current table < later damage); "
    "archive member mtimes are the author's and lie before or after the earlier table",
    "clause incomplete-download-retried comes from Rally's CHANGELOG (#1521, #1578 'Retry incomplete HTTP downloads'), not from the statement: it only asks that "
    "a second request is made after the first incomplete body, not that preparation succeeds",
    "crash of an earlier run = process death with exactly k bytes of the file being written on disk (k on a grid incl. 0, inside the last line, size-1, size)",
    "a hang is detected deterministically: > 64 retry pauses, > 700 requests or > 40 announced download/decompression steps in one preparation; wall clock only feeds the framework watchdog",
]
REQUIRED_CLAUSES = [
    "every-corpus-prepared",
    "terminates-within-retry-budget",
    "no-partial-file-under-final-name",
    "doc-exists",
    "doc-size-declared",
    "doc-content",
    "offset-table-present",
    "offset-entries-correct",
    "skip-lines-same-byte",
    "incomplete-download-retried",
]
REQUIRED_FEATURES = {
    "quick": {
        "returned": 200, "raised": 200, "lines>=50000": 16, "stale-table:member-older": 8, "stale-table:member-newer": 8,
        "crash-fired:download": 8, "crash-fired:decompress": 8, "crash-fired:offset": 4, "net:recovered-after-10-incomplete": 1,
        "net:gave-up-after-11-incomplete": 1, "net:offline": 5, "net:no-base-url": 5, "entry:bundled": 5, "bundled-entry-with-stale-table": 8, "crlf-with-table-entries": 2, "entry:docs": 5, "followup-run": 10,
        "external-decompressor-failed-library-fallback": 3, "fmt:.bz2": 20, "fmt:.gz": 20, "fmt:.zst": 20, "fmt:.zip": 20, "fmt:.tar": 20,
        "fmt:.tar.gz": 20, "fmt:.tgz": 20, "fmt:.tar.bz2": 20, "fmt:none": 10,
    },
    "thorough": {
        "returned": 2000, "raised": 2000, "lines>=50000": 60, "stale-table:member-older": 20, "stale-table:member-newer": 20,
        "crash-fired:download": 40, "crash-fired:decompress": 40, "crash-fired:offset": 20, "net:recovered-after-10-incomplete": 2,
        "net:gave-up-after-11-incomplete": 2, "net:offline": 50, "net:no-base-url": 50, "entry:bundled": 50, "bundled-entry-with-stale-table": 8, "crlf-with-table-entries": 2, "entry:docs": 50, "followup-run": 100,
        "external-decompressor-failed-library-fallback": 20,
    },
}
BUDGET = {
    "quick": {"cases": 20000, "seconds": 30},
    "thorough": {"cases": 400000, "seconds": 420},
}
EXHAUSTIVE_WHOLE = False

DOC_STATES = ["absent", "correct", "trunc-line", "trunc-mid", "trunc-last", "empty", "wrong-same-size"]
ARC_STATES = ["absent", "correct", "truncated", "garbage", "empty"]
TMP_STATES = ["absent", "stale"]
TABLE_STATES = ["absent", "stale", "current"]
DECLS = [(True, True), (True, False), (False, True), (False, False)]
SMALL = {"seed": 1, "lines": 12, "width": 10, "eol": "\n", "final_newline": True, "meta": False}
V1_LONG = {"seed": 901, "lines": 100001, "width": 40, "eol": "\n", "final_newline": True, "meta": False}  # earlier version: longer lines
V1_SHORT = {"seed": 902, "lines": 100001, "width": 2, "eol": "\n", "final_newline": True, "meta": False}  # earlier version: shorter lines
STRIDE = 50000
VERIF_DIR = os.path.dirname(os.path.dirname(os.path.abspath(__file__)))


# ------------------------------------------------------------------ caches (per shard process)
_docs_cache, _arc_cache, _table_cache, _srv = {}, {}, {}, None


def _cached(cache, key, big, make):
    """Big corpora (a handful of distinct ones) stay for the life of the shard; small ones rotate."""
    slot = cache.setdefault("big" if big else "small", {})
    if key not in slot:
        if not big and len(slot) > 64:
            slot.clear()
        slot[key] = make()
    return slot[key]


def docs_of(c):
    return _cached(_docs_cache, json.dumps(c, sort_keys=True), c["lines"] >= 5000,
                   lambda: E.gen_docs(c["seed"], c["lines"], c["width"], c["eol"], c["final_newline"], c["meta"]))


def archive_of(c, fmt, member_mtime):
    key = (json.dumps(c, sort_keys=True), fmt, member_mtime if fmt in E.TAR_FORMATS or fmt == ".zip" else 0)
    return _cached(_arc_cache, key, c["lines"] >= 5000, lambda: E.build_archive(fmt, docs_of(c), member_mtime))


def table_bytes(c):
    """The table of corpus c in the format the reader parses (`<line>;<offset>` every 50000 lines), written without the code under test."""

    def make():
        ends = E.line_ends(docs_of(c))
        return "".join(f"{n};{ends[n - 1]}\n" for n in range(STRIDE, len(ends) + 1, STRIDE)).encode()

    return _cached(_table_cache, json.dumps(c, sort_keys=True), c["lines"] >= 5000, make)


def server():
    global _srv
    if _srv is None:
        _srv = E.start_server()
    return _srv


# ------------------------------------------------------------------ case generators
def base_case(kind, **kw):
    c = {
        "kind": kind, "corpus": dict(SMALL), "v1": None, "fmt": ".bz2", "declared": {"comp": True, "uncomp": True, "wrong": None},
        "init": {"doc": "absent", "archive": "absent", "tmp": "absent", "table": "absent", "member": "older", "where": 1},
        "net": {"mode": "online", "script": [], "tail": {"o": "ok"}, "test_mode": False, "slash": False},
        "entry": "cache", "crash": None, "runs": 1, "rseed": 0,
    }
    c.update(kw)
    return c


GRID_SIZE = len(DOC_STATES) * len(ARC_STATES) * len(TMP_STATES) * len(TABLE_STATES) * len(DECLS) * len(E.FORMATS)


def grid_case(i, variant=0):
    """Mixed-radix decoding of the initial-state grid; variant selects network mode / entry point (thorough)."""
    gi = i
    i, f = divmod(i, len(E.FORMATS))
    i, d = divmod(i, len(DECLS))
    i, t = divmod(i, len(TABLE_STATES))
    i, p = divmod(i, len(TMP_STATES))
    i, a = divmod(i, len(ARC_STATES))
    i, s = divmod(i, len(DOC_STATES))
    mode = ["online", "offline", "no-base-url"][variant % 3]
    entry = ["cache", "bundled"][(variant // 3) % 2]
    c = base_case("grid", fmt=E.FORMATS[f], entry=entry, rseed=gi)
    c["declared"] = {"comp": DECLS[d][0], "uncomp": DECLS[d][1], "wrong": None}
    c["init"] = {"doc": DOC_STATES[s], "archive": ARC_STATES[a], "tmp": TMP_STATES[p], "table": TABLE_STATES[t], "member": "older", "where": 0 if entry == "bundled" else 1}
    c["net"]["mode"] = mode
    if TABLE_STATES[t] == "stale":
        c["v1"] = dict(V1_SHORT)
    return c


SEQ_FAULTS = ["404", "500", "reset-pre", "reset-mid", "short", "wrong-short", "wrong-empty", "slow", "stall"]
SEQ_N = {"quick": [0, 1, 2, 9, 10, 11, 12], "thorough": list(range(13))}


def faultseq_cases(tier):
    out = []
    for fi, f in enumerate(SEQ_FAULTS):
        for n in SEQ_N[tier]:
            for tail in ("ok", "forever"):
                if tail == "forever" and n not in (1, 12):
                    continue
                fmt = (E.FORMATS + [None])[(fi + n) % 9]
                c = base_case("faultseq", fmt=fmt, rseed=fi * 100 + n)
                c["declared"] = {"comp": (n + fi) % 2 == 0, "uncomp": (n // 2 + fi) % 2 == 0, "wrong": None}
                if fmt is None and f.startswith("wrong") and not c["declared"]["uncomp"]:
                    c["declared"]["uncomp"] = True
                c["net"]["script"] = [{"o": f, "f": 0.1 + 0.07 * (k % 10)} for k in range(n)]
                c["net"]["tail"] = {"o": "ok"} if tail == "ok" else {"o": f, "f": 0.5}
                c["runs"] = 2 if n in (11, 12) else 1
                out.append(c)
    return out


BIG = [
    {"seed": 11, "lines": 50000, "width": 10, "eol": "\n", "final_newline": True, "meta": False},
    {"seed": 12, "lines": 50001, "width": 14, "eol": "\n", "final_newline": True, "meta": False},
    {"seed": 13, "lines": 100003, "width": 8, "eol": "\n", "final_newline": True, "meta": False},
    {"seed": 14, "lines": 100000, "width": 12, "eol": "\n", "final_newline": True, "meta": True},
    {"seed": 15, "lines": 50002, "width": 12, "eol": "\r\n", "final_newline": True, "meta": False},
    {"seed": 16, "lines": 49999, "width": 12, "eol": "\n", "final_newline": False, "meta": False},
]


def stale_cases(tier):
    """Offset table left from an earlier corpus version x every format x archive member older/newer than that table."""
    out = []
    i = 0
    for fmt in E.FORMATS + [None]:
        for member in ("older", "newer"):
            # quick: the document file is missing, or a partial one (an extraction that died) lies beside the old table and the archive is there
            variants = [("absent", "absent"), ("trunc-mid", "correct")] if tier == "quick" else [("absent", "absent"), ("absent", "correct"), ("trunc-mid", "correct"), ("correct", "absent")]
            for doc_state, arc_state in variants:
                for v1 in ([V1_LONG, V1_SHORT][i % 2 :][:1] if tier == "quick" else [V1_LONG, V1_SHORT]):
                    if fmt is None and arc_state != "absent":
                        continue
                    c = base_case("stale", fmt=fmt, corpus=dict(([BIG[0], BIG[1], BIG[2], BIG[4]] if tier == "quick" else BIG)[i % (4 if tier == "quick" else len(BIG))]), v1=dict(v1), rseed=i)
                    c["declared"] = {"comp": i % 3 != 0, "uncomp": True if doc_state.startswith("trunc") else i % 2 == 0, "wrong": None}
                    c["init"].update({"doc": doc_state, "archive": arc_state, "table": "stale", "member": member})
                    out.append(c)
                    i += 1
            if fmt is not None:
                # the same through the OTHER caller of the decompressor: the document set is bundled with the track (archive next to track.json,
                # prepare_bundled_document_set) and has to be extracted again beside the table of the earlier version
                c = base_case("stale", fmt=fmt, corpus=dict(BIG[i % 3]), v1=dict([V1_LONG, V1_SHORT][i % 2]), rseed=i, entry="bundled")
                c["declared"] = {"comp": i % 3 != 0, "uncomp": i % 2 == 0, "wrong": None}
                c["init"].update({"doc": "absent", "archive": "correct", "table": "stale", "member": member, "where": 0})
                c["slice"] = "bundled-stale-table"
                out.append(c)
                i += 1
    return out


def crash_cases(tier):
    out = []
    i = 0
    ks_file = [{"pos": "abs", "k": 0}, {"pos": "abs", "k": 1}, {"pos": "frac", "x": 0.5}, {"pos": "line"}, {"pos": "last-line"}, {"pos": "end", "d": 1}, {"pos": "end", "d": 0}]
    for phase in ("download", "decompress"):
        fmts = E.FORMATS + [None] if phase == "download" else E.FORMATS
        for fi, fmt in enumerate(fmts):
            for ki, k in enumerate(ks_file):
                if phase == "download" and k["pos"] in ("line", "last-line") and fmt is not None:
                    continue
                if tier == "quick" and (fi + ki) % 2 == (0 if phase == "download" else 1) and k["pos"] not in ("last-line",):
                    continue
                for decl in (DECLS if tier == "thorough" else [DECLS[(i + 1) % 4], DECLS[3]]):
                    corpus = dict(SMALL, lines=40, seed=3) if i % 5 else dict(SMALL, lines=9000, seed=4, width=30)  # the larger one spans several write calls
                    c = base_case("crash", fmt=fmt, corpus=corpus, rseed=i)
                    c["declared"] = {"comp": decl[0], "uncomp": decl[1], "wrong": None}
                    c["crash"] = dict(k, phase=phase)
                    if i % 4 == 0:
                        c["init"]["table"], c["v1"] = "stale", dict(V1_SHORT)
                    out.append(c)
                    i += 1
    # offset-table build interrupted: needs a table with entries, i.e. >= 50000 lines
    table_ks = [0, 1, 5, 6, 7, 9, 12, 13, 14, 18, 20, 22, 25, 27, 200] if tier == "thorough" else [0, 6, 7, 9, 13, 14, 20, 200]
    for j, k in enumerate(table_ks):
        for fmt in ([None, ".tar.gz", ".zst"] if tier == "thorough" else [[None, ".tar.gz", ".zst"][j % 3]]):
            c = base_case("crash", fmt=fmt, corpus=dict(BIG[2] if j % 2 else BIG[0]), rseed=1000 + j)
            c["declared"] = {"comp": j % 2 == 0, "uncomp": j % 3 != 0, "wrong": None}
            c["crash"] = {"phase": "offset", "pos": "abs", "k": k}
            if fmt is not None and j % 2:
                c["init"]["archive"] = "correct"
            if j % 4 == 1:
                c["init"]["table"], c["v1"] = "stale", dict(V1_LONG)
            out.append(c)
    return out


def truncsweep_cases(tier):
    """Corrupt archive = the published archive cut at (nearly) every byte position, sizes undeclared so that it is accepted as it is."""
    out = []
    for fmt in E.FORMATS:
        n = len(archive_of(SMALL, fmt, E.T_MEMBER_OLDER))
        cuts = list(range(n)) if n <= 600 else sorted(set(range(0, n, max(1, n // (300 if tier == "thorough" else 120)))) | set(range(n - 16, n)))
        for j, cut in enumerate(cuts):
            c = base_case("truncsweep", fmt=fmt, rseed=cut)
            c["declared"] = {"comp": False, "uncomp": tier == "thorough" and j % 2 == 1, "wrong": None}
            c["init"].update({"archive": "truncated", "cut": cut})
            c["net"]["mode"] = "no-base-url" if j % 3 == 0 else "online"
            c["runs"] = 2
            out.append(c)
    return out


K_POSITIONS = [{"pos": "abs", "k": 0}, {"pos": "abs", "k": 1}, {"pos": "line"}, {"pos": "last-line"}, {"pos": "end", "d": 1}, {"pos": "end", "d": 0}]


def random_case(rng, tier="quick"):
    fmt = rng.choice(E.FORMATS + E.FORMATS + [None])
    lines = rng.choice([1, 2, 3, 5, 8, 20, 60, 300])
    meta = rng.random() < 0.2
    if meta:
        lines += lines % 2
    corpus = {"seed": rng.randrange(1000), "lines": lines, "width": rng.choice([0, 3, 12, 40]), "eol": "\r\n" if rng.random() < 0.1 else "\n",
              "final_newline": rng.random() > 0.1, "meta": meta}
    if rng.random() < (0.004 if tier == "quick" else 0.03):
        corpus = dict(rng.choice(BIG))
    c = base_case("random", fmt=fmt, corpus=corpus, rseed=rng.randrange(10**6))
    c["declared"] = {"comp": rng.random() < 0.5, "uncomp": rng.random() < 0.5, "wrong": rng.choice(["comp", "uncomp"]) if rng.random() < 0.05 else None}
    if c["declared"]["wrong"]:
        c["declared"][c["declared"]["wrong"]] = True
    w = lambda xs, ws: rng.choices(xs, ws)[0]  # noqa: E731
    c["init"] = {
        "doc": w(DOC_STATES, [8, 2, 1, 1, 1, 1, 1]), "archive": "absent" if fmt is None else w(ARC_STATES, [7, 3, 2, 1, 1]),
        "tmp": w(TMP_STATES, [3, 1]), "table": w(TABLE_STATES, [3, 1, 1]), "member": rng.choice(["older", "newer"]), "where": 1,
    }
    if c["init"]["table"] == "stale":
        c["v1"] = dict(rng.choice([V1_LONG, V1_SHORT]))
    c["entry"] = w(["cache", "bundled", "docs"], [6, 1, 3])
    if c["entry"] != "cache":
        c["init"]["where"] = 0 if c["entry"] == "bundled" else rng.randrange(2)
    mode = w(["online", "offline", "no-base-url"], [10, 1, 1])
    n = rng.choice([0, 0, 1, 1, 2, 3, 5, 9, 10, 11, 12])
    faults = [f for f in E.FAULTS if not (f.startswith("wrong") and fmt is None and not c["declared"]["uncomp"]) and not (f == "stall" and n > 3)]  # a stall costs a read timeout of wall time
    few = rng.sample(faults, rng.randint(1, 3))
    script = [{"o": rng.choice(few), "f": round(rng.random(), 2)} for _ in range(n)]
    tail = {"o": "ok"} if rng.random() < 0.75 else {"o": rng.choice(few), "f": 0.5}
    c["net"] = {"mode": mode, "script": script, "tail": tail, "test_mode": rng.random() < 0.1, "slash": rng.random() < 0.3}
    c["runs"] = 2 if rng.random() < 0.35 else 1
    if c["entry"] == "cache" and rng.random() < (0.02 if tier == "quick" else 0.06):
        # an earlier run on the same initial state (healthy network) that dies somewhere; the run under test sees the fault script
        phase = rng.choice(["download", "decompress", "offset"] if fmt else ["download", "offset"])
        pos = dict(rng.choice(K_POSITIONS)) if rng.random() < 0.7 else {"pos": "frac", "x": round(rng.random(), 3)}
        if phase == "offset":
            pos = {"pos": "abs", "k": rng.randrange(0, 30)}
        if phase == "download" and fmt and pos["pos"] in ("line", "last-line"):
            pos = {"pos": "frac", "x": round(rng.random(), 3)}
        c["crash"] = dict(pos, phase=phase)
    return c


# ------------------------------------------------------------------ materialisation
class Env:
    pass


def materialise(case, workdir, port):
    rng = random.Random(f"c14-init:{case['rseed']}")
    env = Env()
    env.case = case
    env.unfinished = {}  # root index -> mtime of an offset table left by a run that did not finish building it
    env.dir = workdir
    fmt = case["fmt"]
    env.doc = docs_of(case["corpus"])
    env.ends = E.line_ends(env.doc)
    env.member_mtime = E.T_MEMBER_OLDER if case["init"]["member"] == "older" else E.T_MEMBER_NEWER
    env.archive = archive_of(case["corpus"], fmt, env.member_mtime) if fmt else None
    env.doc_name = E.DOC_NAME
    env.arc_name = E.DOC_NAME + fmt if fmt else None
    env.target_name = env.arc_name or env.doc_name
    env.published = env.archive if fmt else env.doc
    track_dir = os.path.join(workdir, "tracks", "c14track")
    cache_dir = os.path.join(workdir, "data", "c14corpus")
    for d_ in (track_dir, cache_dir):  # directories are reused (rmdir is slow on the scratch file system), files are not
        os.makedirs(d_, exist_ok=True)
        for e_ in os.scandir(d_):
            os.unlink(e_.path)
    E.write_file(os.path.join(track_dir, "track.json"), b"{}")
    env.roots = {"cache": [cache_dir], "bundled": [track_dir], "docs": [track_dir, cache_dir]}[case["entry"]]
    init = case["init"]
    root = env.roots[min(init["where"], len(env.roots) - 1)]
    env.init_root = root
    env.stale_table = table_bytes(case["v1"]) if case["v1"] else b""
    env.current_table = table_bytes(case["corpus"])
    p = lambda name: os.path.join(root, name)  # noqa: E731
    if init["table"] == "stale":
        E.write_file(p(env.doc_name + ".offset"), env.stale_table, E.T_TABLE_V1)
    if fmt and init["archive"] != "absent":
        data = env.archive if init["archive"] == "correct" else env.archive[: init["cut"]] if "cut" in init else E.damage_archive(env.archive, init["archive"], rng)
        E.write_file(p(env.arc_name), data, E.T_ARCHIVE)
    if init["doc"] != "absent":
        ok = init["doc"] == "correct"
        E.write_file(p(env.doc_name), env.doc if ok else E.damage_doc(env.doc, init["doc"], rng), E.T_DOC if ok else E.T_DOC_DAMAGED)
    if init["table"] == "current":
        E.write_file(p(env.doc_name + ".offset"), env.current_table, E.T_TABLE_CURRENT)
    if init["tmp"] == "stale":
        E.write_file(p(env.target_name + ".tmp"), b"stale partial download " * 3, E.T_ARCHIVE - 10)
    d = case["declared"]
    comp = len(env.archive) if (fmt and d["comp"]) else None
    uncomp = len(env.doc) if d["uncomp"] else None
    if d["wrong"] == "comp" and comp is not None:
        comp += 3
    if d["wrong"] == "uncomp" and uncomp is not None:
        uncomp += 3
    lines = len(env.ends)
    env.call = {
        "entry": case["entry"], "position": case.get("rseed", 0), "roots": env.roots, "doc_name": env.doc_name, "archive_name": env.arc_name, "meta": case["corpus"]["meta"],
        "n_docs": lines // 2 if case["corpus"]["meta"] else lines, "comp": comp, "uncomp": uncomp,
        "offline": case["net"]["mode"] == "offline", "test_mode": case["net"]["test_mode"],
    }
    env.base_url = None if case["net"]["mode"] == "no-base-url" else f"http://127.0.0.1:{port}/corpora/c14" + ("/" if case["net"]["slash"] else "")
    return env


def snapshot(env):
    snap = []
    for root in env.roots:
        s = {}
        for key, name in (("doc", env.doc_name), ("arc", env.arc_name), ("table", env.doc_name + ".offset"), ("tmp", env.target_name + ".tmp")):
            path = os.path.join(root, name) if name else None
            s[key] = E.read_file(path) if path else None
            s[key + "_mtime"] = E.mtime_of(path) if path else None
        snap.append(s)
    return snap


def relation(data, expected):
    if data is None:
        return "absent"
    if data == expected:
        return "equal"
    if len(data) == 0:
        return "empty"
    if len(data) < len(expected) and expected.startswith(data):
        return "strict-prefix"
    if len(data) == len(expected):
        return "same-size-other-content"
    return "other"


def resolve_k(env, crash):
    phase = crash["phase"]
    full = {"download": env.published, "decompress": env.doc, "offset": env.current_table}[phase]
    n = len(full)
    pos = crash["pos"]
    if pos == "abs":
        return crash["k"]
    if pos == "frac":
        return int(n * crash["x"])
    if pos == "end":
        return max(0, n - crash["d"])
    ends = E.line_ends(full) if phase != "download" or env.case["fmt"] is None else [n]
    if pos == "line":
        return ends[len(ends) // 2] if ends else 0
    if pos == "last-line":
        start = ends[-2] if len(ends) > 1 else 0
        return min(n - 1, start + 1 + (env.case["rseed"] % max(1, n - start - 1)))
    raise ValueError(pos)


# ------------------------------------------------------------------ running the real code
def run_real(env):
    from props import c14_drive as D

    try:
        value = D.call(env.call, env.base_url)
        out = {"returned": value if isinstance(value, bool) else None}
    except D.HangDetected as e:
        out = {"hang": str(e)}
    except Exception as e:  # explicit error: recorded, not judged
        out = {"raised": type(e).__name__, "msg": str(e)[:160]}
    out["sleeps"] = D.SLEEP.calls
    out["marks"] = sorted(D.TAP.marks)
    if env.call.get("entry") == "docs":
        out["decoys_unprepared"] = list(D.DECOYS_UNPREPARED)
    return out


def run_crashed_earlier(env, target, k, prefix):
    spec = {"target": target, "k": k, "prefix": prefix, "exclude": [".offset"], "call": env.call, "base_url": env.base_url}
    spec_path = os.path.join(env.dir, "crash-spec.json")
    with open(spec_path, "w") as f:
        json.dump(spec, f)
    try:
        r = subprocess.run([sys.executable, "-m", "props.c14_crash", spec_path], cwd=VERIF_DIR,
                           stdout=subprocess.DEVNULL, stderr=subprocess.PIPE, timeout=120)
    except subprocess.TimeoutExpired:
        return None, "timeout"
    return r.returncode, r.stderr.decode("utf-8", "replace")[-200:]


# ------------------------------------------------------------------ the monitor
SKIP_TARGETS = [0, 1, 2, 49999, 50000, 50001, 99999, 100000, 100001]


def check_skip_lines(doc_path, data, ends, rng):
    """skip_lines on a real MmapSource against reading lines one by one. Returns list of (target, got, expected)."""
    from esrally.utils import io

    n = len(ends)
    targets = sorted({t for t in SKIP_TARGETS + [n, n - 1, rng.randint(0, n), rng.randint(0, n), rng.randint(0, n)] if 0 <= t <= n})
    bad = []
    for t in targets:
        expected = ends[t - 1] if t else 0
        src = io.MmapSource(doc_path, "r").open()
        try:
            io.skip_lines(doc_path, src, t)
            got = src.mm.tell()
        except Exception as e:  # pylint: disable=broad-except
            got = f"{type(e).__name__}: {e}"
        finally:
            src.close()
        if got != expected:
            bad.append((t, got, expected))
    return len(targets), bad


def observe(ctx, env, run, pre, post, out, srv_state, crash_info, first_pre):
    """Evaluates every clause on one finished run. Returns list of (clause, msg, facts)."""
    case = env.case
    problems = []
    fmt = case["fmt"]
    d = case["declared"]
    dl = len(env.roots) - 1  # downloads go to the last root
    tkey = "arc" if fmt else "doc"
    facts = {
        "run": run, "fmt": fmt, "declared_comp": env.call["comp"] is not None, "declared_uncomp": env.call["uncomp"] is not None, "declared_wrong": d["wrong"],
        "outcome": {k: v for k, v in out.items() if k in ("returned", "raised", "msg", "hang")}, "requests": [o for _, o in srv_state.log][:30],
        "crash": crash_info,
    }

    ctx.clause("terminates-within-retry-budget")
    if "hang" in out or srv_state.runaway:
        problems.append(("terminates-within-retry-budget", f"preparation did not give up: {out.get('hang') or 'more than %d requests' % srv_state.max_requests}", facts))

    # -- a download never leaves a partial file under the final name (any outcome)
    if case["entry"] != "bundled":
        ctx.clause("no-partial-file-under-final-name")
        after, before = post[dl][tkey], pre[dl][tkey]
        size_declared = env.call["comp" if fmt else "uncomp"] is not None and d["wrong"] is None
        allowed = after is None or after == before or after == env.published or (not size_declared and after in srv_state.served_wrong)
        if not allowed:
            problems.append(("no-partial-file-under-final-name",
                             f"{env.target_name} under its final name has {len(after)} bytes after the run: neither what was there before "
                             f"({None if before is None else len(before)} bytes) nor the published {len(env.published)} bytes",
                             dict(facts, target_after=relation(after, env.published), target_before=relation(before, env.published))))

    # -- documented retry of incomplete downloads
    log = [o for name, o in srv_state.log if name == env.target_name]
    inc = [i for i, o in enumerate(log) if o in E.INCOMPLETE]
    if inc and inc[0] < 10:
        ctx.clause("incomplete-download-retried")
        if len(log) <= inc[0] + 1:
            problems.append(("incomplete-download-retried", f"the body of request {inc[0] + 1} ended early ({log[inc[0]]}) and no further request was made", facts))

    returned_ok = "returned" in out and not (case["entry"] == "bundled" and out["returned"] is False)
    if not returned_ok:
        return problems, facts
    if case["entry"] == "docs":
        # preparation of the track returned normally: every corpus the challenge uses has been prepared, not just one of them
        ctx.clause("every-corpus-prepared")
        if out.get("decoys_unprepared"):
            problems.append(("every-corpus-prepared", f"track preparation returned normally but the corpora {out['decoys_unprepared']} of the same challenge were never prepared (no offset table next to their document file)", facts))

    # -- post-state after a NORMAL return
    ri = next((i for i, s in enumerate(post) if s["doc"] is not None), None)
    ctx.clause("doc-exists")
    if ri is None:
        problems.append(("doc-exists", "preparation returned normally but the document file does not exist", facts))
        return problems, facts
    s, b = post[ri], pre[ri]
    data = s["doc"]
    doc_path = os.path.join(env.roots[ri], env.doc_name)
    member_mtime = env.member_mtime if fmt in E.TAR_FORMATS else None
    facts.update({
        "doc_before": relation(b["doc"], env.doc), "doc_after": relation(data, env.doc), "doc_unchanged_by_run": b["doc"] == data, "doc_size": len(data),
        "expected_size": len(env.doc), "expected_lines": len(env.ends), "doc_lines": len(E.line_ends(data)),
        "table_before": ("absent" if b["table"] is None else "left-by-unfinished-build" if env.unfinished.get(ri) == b["table_mtime"]
                         else "stale-earlier-version" if case["v1"] and b["table"] == env.stale_table and b["table"] != env.current_table
                         else "current" if b["table"] == env.current_table else "other"),
        "table_unchanged_by_run": b["table"] == s["table"],
        "doc_older_than_table": s["table_mtime"] is not None and s["doc_mtime"] < s["table_mtime"],
        "doc_mtime_is_archive_member_mtime": member_mtime is not None and s["doc_mtime"] == member_mtime,
        "archive_on_disk": relation(s["arc"], env.archive) if fmt else None,
    })

    if env.call["uncomp"] is not None:
        ctx.clause("doc-size-declared")
        if len(data) != env.call["uncomp"]:
            problems.append(("doc-size-declared", f"returned normally with a document file of {len(data)} bytes, the track declares {env.call['uncomp']}", facts))

    kept_same_size_file = first_pre[ri]["doc"] is not None and first_pre[ri]["doc"] == data and relation(data, env.doc) == "same-size-other-content"
    if kept_same_size_file:
        ctx.feature("content-not-judged:same-size-file-was-there-before")
    else:
        ctx.clause("doc-content")
        if data != env.doc:
            diff = next((i for i in range(min(len(data), len(env.doc))) if data[i] != env.doc[i]), min(len(data), len(env.doc)))
            problems.append(("doc-content", f"returned normally but the document file ({len(data)} bytes) differs from the published documents "
                                            f"({len(env.doc)} bytes) from byte {diff}", dict(facts, first_difference=diff)))

    ctx.clause("offset-table-present")
    if s["table"] is None:
        problems.append(("offset-table-present", "returned normally without an offset table next to the document file", facts))
        return problems, facts
    ends = E.line_ends(data)
    entries, malformed = E.parse_table(s["table"])
    ctx.clause("offset-entries-correct")
    wrong = [(n, off, ends[n - 1]) for n, off in entries if 1 <= n <= len(ends) and off != ends[n - 1]]
    if any(n > len(ends) for n, _ in entries):
        ctx.feature("table-entry-beyond-eof(not judged)")
    if len(ends) >= STRIDE and not entries:
        ctx.feature("table-without-entries-for-long-file(not judged)")
    if wrong or malformed:
        problems.append(("offset-entries-correct",
                         f"offset table next to a {len(ends)}-line file: " + (f"entry line {wrong[0][0]} -> byte {wrong[0][1]}, reading lines one by one gives {wrong[0][2]}" if wrong
                                                                               else f"unreadable entry {malformed[0][:40]!r}"),
                         dict(facts, table_head=s["table"][:60].decode("utf-8", "replace"))))
    if data:
        n_eval, bad = check_skip_lines(doc_path, data, ends, random.Random(case["rseed"]))
        ctx.clause("skip-lines-same-byte", n_eval)
        if bad:
            t, got, exp = bad[0]
            problems.append(("skip-lines-same-byte", f"skip_lines({t}) on the prepared file: {'raised ' + got if isinstance(got, str) else 'positioned at byte %d' % got}, "
                                                     f"skipping lines one by one ends at byte {exp}", dict(facts, table_head=s["table"][:60].decode("utf-8", "replace"))))
    return problems, facts


def note_unfinished_build(env, before, after, died_in_build):
    """Remembers (by mtime) an offset table that a run wrote but did not finish: the run died in the build or raised afterwards."""
    for ri, (b, a) in enumerate(zip(before, after)):
        if died_in_build and a["table"] is not None and a["table_mtime"] != b["table_mtime"]:
            env.unfinished[ri] = a["table_mtime"]


def features_of(case):
    f = {f"fmt:{case['fmt'] or 'none'}", f"kind:{case['kind']}", f"entry:{case['entry']}", f"net:{case['net']['mode']}", f"init-doc:{case['init']['doc']}",
         f"init-archive:{case['init']['archive']}", f"init-table:{case['init']['table']}", f"init-tmp:{case['init']['tmp']}",
         f"declared:comp={int(case['declared']['comp'])},uncomp={int(case['declared']['uncomp'])}"}
    if case["corpus"]["lines"] >= STRIDE:
        f.add("lines>=50000")
    if case["init"]["table"] == "stale" and case["corpus"]["lines"] >= STRIDE:
        f.add(f"stale-table:member-{case['init']['member']}")
    if case.get("slice") == "bundled-stale-table":
        f.add("bundled-entry-with-stale-table")
    if case["declared"]["wrong"]:
        f.add("declared-wrong")
    for o in {o["o"] for o in case["net"]["script"]} | ({case["net"]["tail"]["o"]} - {"ok"}):
        f.add(f"fault:{o}")
    if case["corpus"]["eol"] == "\r\n":
        f.add("crlf")
        if case["corpus"]["lines"] >= STRIDE:
            f.add("crlf-with-table-entries")
    return f


def one_case(ctx, case):
    srv = server()
    port = srv.server_address[1]
    workdir = os.path.join(str(ctx.scratch), "case")
    os.makedirs(workdir, exist_ok=True)
    env = materialise(case, workdir, port)
    feats = features_of(case)
    entities = {env.target_name: env.published}
    all_problems = []
    crash_info = None
    first_pre = snapshot(env)

    if case["crash"]:
        phase = case["crash"]["phase"]
        k = resolve_k(env, case["crash"])
        dl_root = env.roots[-1]
        # download / offset phase: the first file written whose name starts with the final name (any temporary suffix, or none)
        target = {"download": os.path.join(dl_root, env.target_name), "decompress": os.path.join(dl_root, env.doc_name),
                  "offset": os.path.join(dl_root, env.doc_name + ".offset")}[phase]
        srv.state = E.ServerState(entities)
        rc, err = run_crashed_earlier(env, target, k, prefix=phase != "decompress")
        if rc is None:
            ctx.mark_inconclusive("crashed-earlier-run child timed out (wall clock)")
            return []
        fired = rc == 77
        left = snapshot(env)
        crash_info = {"phase": phase, "k": k, "fired": fired, "exit": rc, "left_doc": relation(left[-1]["doc"], env.doc),
                      "left_target": relation(left[-1]["arc" if case["fmt"] else "doc"], env.published), "left_table": None if left[-1]["table"] is None else len(left[-1]["table"])}
        note_unfinished_build(env, first_pre, left, died_in_build=(fired and phase == "offset") or rc == 1)
        feats.add(f"crash-fired:{phase}" if fired else f"crash-not-reached:{phase}")
        if rc not in (0, 1, 77):
            ctx.mark_inconclusive(f"crashed-earlier-run child exit {rc}: {err}")
            return []
        # what the dead run left under the final name of the download target
        ctx.clause("no-partial-file-under-final-name")
        tkey = "arc" if case["fmt"] else "doc"
        after, before = left[-1][tkey], first_pre[-1][tkey]
        if phase == "download" and not (after is None or after == before or after == env.published):
            all_problems.append(("no-partial-file-under-final-name", f"an earlier run died after {k} downloaded bytes and left {len(after)} of {len(env.published)} bytes under the final name "
                                 f"{env.target_name}", {"run": "crashed-earlier-run", "fmt": case["fmt"], "crash": crash_info}))

    outcomes = []
    for run in range(case["runs"]):
        if run == 0:
            srv.state = E.ServerState(entities, [dict(o) for o in case["net"]["script"]], dict(case["net"]["tail"]))
        else:
            srv.state = E.ServerState(entities)  # follow-up run on a healthy network
            feats.add("followup-run")
        pre = snapshot(env)
        out = run_real(env)
        post = snapshot(env)
        problems, facts = observe(ctx, env, run, pre, post, out, srv.state, crash_info, first_pre)
        note_unfinished_build(env, pre, post, died_in_build="raised" in out)
        all_problems.extend(problems)
        outcomes.append(out)
        kind = "returned" if "returned" in out else "raised" if "raised" in out else "hang"
        feats.add(kind)
        if "raised" in out:
            ctx.distinct("exception-types", out["raised"])
            feats.add(f"raised:{out['raised']}")
        if out.get("returned") is False:
            feats.add("bundled-returned-false")
        for m in out["marks"]:
            feats.add(m)
        if any(post[i]["tmp"] is not None for i in range(len(post))):
            feats.add("tmp-file-left(not judged)")
        nreq = len(srv.state.log)
        if run == 0 and case["net"]["mode"] == "online":
            inc = sum(1 for _, o in srv.state.log if o in E.INCOMPLETE)
            if inc == 10 and kind == "returned" and all(o["o"] in E.INCOMPLETE for o in case["net"]["script"]):
                feats.add("net:recovered-after-10-incomplete")
            if inc == 11 and kind == "raised" and all(o["o"] in E.INCOMPLETE for o in case["net"]["script"][:11]):
                feats.add("net:gave-up-after-11-incomplete")
            pre_resets = sum(1 for _, o in srv.state.log if o == "reset-pre")
            if pre_resets == 10 and kind == "returned":
                feats.add("net:recovered-after-10-resets-before-headers")
            if pre_resets >= 11 and kind == "raised":
                feats.add("net:gave-up-after-11-resets-before-headers")
        ctx.distinct("post-states", (facts.get("doc_after"), facts.get("table_before"), kind, out.get("raised"), nreq > 1))
        if kind == "returned" and run + 1 < case["runs"] and case["kind"] != "faultseq":
            break  # a follow-up run is only interesting after a failure

    nontrivial = not (case["init"]["doc"] == "correct" and case["init"]["table"] == "current" and not case["net"]["script"] and not case["crash"])
    ctx.case(case, nontrivial, feats)
    summary = {"case": compact(case), "outcomes": [{k: v for k, v in o.items() if k in ("returned", "raised", "hang")} for o in outcomes]}
    ctx.sample(summary, tag=f"{case['kind']}:{'+'.join(sorted(k for o in outcomes for k in o if k in ('returned', 'raised', 'hang')))}")
    for clause, msg, facts in all_problems[:4]:
        ctx.violation(clause, {"case": case, "facts": facts}, msg)
    return all_problems


def compact(case):
    c = {k: v for k, v in case.items() if k not in ("v1",)}
    c["net"] = dict(case["net"], script=[o["o"] for o in case["net"]["script"]])
    return c


# ------------------------------------------------------------------ shard driver
def plan(tier):
    """The enumerated part, in a fixed global order; item i runs on shard i % nshards."""
    items = []
    items += stale_cases(tier)
    items += crash_cases(tier)
    items += faultseq_cases(tier)
    items += truncsweep_cases(tier)
    return items


def run_shard(ctx):
    tier = ctx.tier
    items = plan(tier)
    mine = [c for i, c in enumerate(items) if i % ctx.nshards == ctx.shard]
    done = True
    for c in mine:
        if ctx.time_left() <= 0:
            done = False
            break
        one_case(ctx, c)
    ctx.exhaustive["fault-sequences+stale-table-matrix+crash-grid+archive-truncation-sweep"] = done
    i = 0
    # a first batch of random combinations before the long grid, so that a slow machine still sees every entry point and network mode
    while i < 80 and ctx.more():
        one_case(ctx, random_case(ctx.case_rng(i), tier))
        i += 1
    # initial-state grid: complete in both tiers for the healthy network; thorough adds offline / no base-url / bundled entry
    variants = 1 if tier == "quick" else 6
    done = True
    for v in range(variants):
        for g in range(ctx.shard, GRID_SIZE, ctx.nshards):
            if ctx.time_left() <= 0:
                done = False
                break
            one_case(ctx, grid_case(g, v))
    ctx.exhaustive["initial-state-grid"] = done
    while ctx.more():
        one_case(ctx, random_case(ctx.case_rng(i), tier))
        i += 1


# ------------------------------------------------------------------ known-finding classifier (mechanisms, never seeds)
def classify(v):
    w = v["witness"]
    f = w.get("facts") or {}
    clause = v["clause"]
    if clause in ("offset-entries-correct", "skip-lines-same-byte") and f.get("table_unchanged_by_run"):
        if f.get("table_before") == "stale-earlier-version" and f.get("fmt") in E.TAR_FORMATS and f.get("doc_mtime_is_archive_member_mtime") and f.get("doc_older_than_table"):
            return "stale-offset-table-kept-because-tar-extraction-restores-old-mtime"
        if f.get("table_before") == "left-by-unfinished-build":
            return "offset-table-from-unfinished-build-reused"
    if clause == "doc-content" and not f.get("declared_uncomp"):
        if f.get("table_before") == "left-by-unfinished-build" and f.get("table_unchanged_by_run") and f.get("doc_before") == "strict-prefix" and f.get("doc_unchanged_by_run"):
            # the table is "valid", so the line-count check that would reject the partial file never runs
            return "offset-table-from-unfinished-build-reused"
        if f.get("doc_size") == 0 and f.get("expected_lines", 0) > 0:
            return "empty-document-file-passes-line-count-check-when-size-undeclared"
        same_lines = f.get("doc_lines") == f.get("expected_lines")  # the cut is inside the last line: the line-count check cannot see it
        if same_lines and f.get("doc_before") == "strict-prefix" and f.get("doc_unchanged_by_run"):
            return "undeclared-size-preexisting-partial-document-file-accepted"
        if same_lines and f.get("fmt") == ".zst" and f.get("archive_on_disk") == "strict-prefix" and f.get("doc_after") == "strict-prefix" and not f.get("doc_unchanged_by_run"):
            return "truncated-zst-archive-decompressed-without-error"
    return None


def replay(ctx, rec):
    one_case(ctx, rec["witness"]["case"])


MANIFEST = {
    "text": "Fault enumeration: the real DocumentSetPreparator/Downloader/Decompressor/net.download/io.decompress/offset-table code runs on real files against a "
    "scripted http.server on loopback. Enumerated completely: the initial-state grid (7 document x 5 archive x 2 .tmp x 3 offset-table states x declared/undeclared "
    "sizes x 8 archive formats = 6720 states; thorough also offline / no base-url / bundled), one HTTP fault (a server that stalls in the middle of the body included; the 240 s read timeout is substituted by 0.25 s) repeated 0..12 times then healthy or for ever "
    "(retry budget crossed both ways), the archive cut at every byte position, the stale-offset-table x format x member-mtime matrix with 50k-100k-line corpora (through the data cache and for document sets bundled with the track; missing or partial document file; LF and CRLF corpora), and a "
    "failpoint grid of an earlier run killed (subprocess, os._exit) after k bytes of download / decompression / offset-table writing; plus seeded random combinations "
    "with follow-up runs. Through the track-preparator entry the corpus under test has sibling document sets (one bundled before it, one cached after it) and sibling corpora, all of which must end up prepared. A post-state oracle checks existence, declared size, content against the generator's original, every offset entry and skip_lines() on an "
    "MmapSource against line-by-line reading, and the download target under its final name after every outcome. Holds for the enumerated alphabet and bounds, not beyond.",
    "note": "Trusts the generator's original bytes, a 10-line newline scanner, loopback TCP semantics of RST/FIN and that os._exit after k flushed bytes models a crash. "
    "Exception types are recorded, not judged; .tmp leftovers, missing table entries and same-size-other-content files are observed, not judged. Five mechanisms fire on "
    "the unchanged tree and are classified as known findings (three with a proposed fix).",
    "technique": "runtime monitor: post-state oracle (reference content, independent offset computation, differential skip_lines) over enumerated initial states, "
    "HTTP fault scripts and crash points of the real preparation code",
    "design_ref": "DESIGN.md section 4 C14, section 5 item 14",
}
