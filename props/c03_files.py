"""C03 helper: corpus files with an unambiguous history.

A file is fully described by a small *spec* dict, so a witness only has to carry the spec:

    {"docs": n, "meta": bool, "crlf": k, "mb": bool, "eofnl": bool, "seed": s}

Every document line is  {"n":<i>,"f":"<uid>","p":"<padding>"}  - (uid, i) identifies the source line. The padding varies in length,
contains multi-byte UTF-8 (2-, 3- and 4-byte sequences, U+2028 / U+0085 which str.splitlines() would split but the bulk format does not),
escaped quotes / newlines and text that looks like an action line. Every k-th line ends with CRLF (k = 0: none, 1: all).
With meta=True each document is preceded by an action-and-meta-data line that carries the same (uid, i).
Lone "\r" inside a line is never produced (DESIGN.md section 5).
"""
import hashlib
import json
import os
import re

PADS_ASCII = [
    "", "x", "lorem ipsum dolor sit amet", "a" * 57, 'quote \\" and backslash \\\\', "escaped \\n newline \\r\\n inside",
    '{\\"index\\":{\\"_index\\":\\"fake\\"}}', "b" * 150, "tab\\tseparated", "0123456789" * 3, " leading and trailing ", "c" * 7,
    "}{][,:", "d" * 301, "short", "e" * 23,
]
PADS_MB = PADS_ASCII[:8] + [
    "\u00e4\u00f6\u00fc\u00df", "\u65e5\u672c\u8a9e\u30c6\u30ad\u30b9\u30c8", "\U0001F600\U0001F680\U0001F4A9", "line\u2028sep\u2029para",
    "nel\u0085here", "\u00e9" * 40, "\u4e2d" * 33, "mix a\u00e4\u4e2d\U0001F600" * 5, "\u0416\u0438\u0432\u0430\u0433\u043e",
    "\U0001F468\u200d\U0001F469\u200d\U0001F467", "\u00a0nbsp\u00a0", "\ufeffbom-inside", "z\u0300\u0301\u0302", "\u20ac" * 101,
    "raw\x0b\x0cvt-ff", "raw\x1c\x1d\x1e-separators",  # str.splitlines() would split here; a line-oriented reader must not
]
PADS_ASCII_B = [p.encode("utf-8") for p in PADS_ASCII]
PADS_MB_B = [p.encode("utf-8") for p in PADS_MB]

DOC_RE = re.compile(rb'^\{"n":(\d+),"f":"([a-z0-9]+)"')
UPDATE_PREFIX = b'{"doc":'


def spec_uid(spec):
    canon = json.dumps({k: spec[k] for k in ("docs", "meta", "crlf", "mb", "eofnl", "seed")}, sort_keys=True)
    return "f" + hashlib.blake2b(canon.encode(), digest_size=5).hexdigest()


def build_lines(spec):
    """Returns (uid, lines): the content of every line without its "\n" terminator (a CRLF line keeps its "\r")."""
    n, seed = spec["docs"], spec["seed"]
    uid = spec_uid(spec)
    uidb = uid.encode()
    pads = PADS_MB_B if spec["mb"] else PADS_ASCII_B
    np_, mul = len(pads), 7 + 2 * (seed % 5)
    docs = [b'{"n":%d,"f":"%s","p":"%s"}' % (i, uidb, pads[(i * mul + seed) % np_]) for i in range(n)]
    if spec["meta"]:
        acts = [
            (b'{"create":{"_id":"%s-%d","routing":"r%d"}}' % (uidb, i, i % 3)) if (i + seed) % 5 == 0 else (b'{"index":{"_index":"src-%s","_id":"%s-%d"}}' % (uidb, uidb, i))
            for i in range(n)
        ]
        lines = [None] * (2 * n)
        lines[0::2] = acts
        lines[1::2] = docs
    else:
        lines = docs
    k = spec["crlf"]
    if k:
        for i in range((seed % k), len(lines), k):
            lines[i] += b"\r"
        if not spec["eofnl"] and lines and lines[-1].endswith(b"\r"):
            lines[-1] = lines[-1][:-1]  # no lone CR at the end of the file (DESIGN.md section 5)
    return uid, lines


class CorpusFile:
    def __init__(self, spec, path, uid, lines):
        self.spec = spec
        self.path = path
        self.uid = uid
        self.lines = lines  # ground truth, one entry per line
        self.docs = spec["docs"]
        self.meta = spec["meta"]
        self.lines_per_doc = 2 if spec["meta"] else 1
        self.nlines = len(lines)
        self.has_table = False

    def doc_line(self, i):
        return self.lines[2 * i + 1] if self.meta else self.lines[i]


class FileCache:
    """Per shard: spec -> CorpusFile on disk under <scratch>/corpora. Big files are generated once and reused."""

    def __init__(self, scratch, keep_small=40):
        self.root = os.path.join(str(scratch), "corpora")
        os.makedirs(self.root, exist_ok=True)
        self.files = {}
        self.small_order = []
        self.keep_small = keep_small
        self.big_order = []  # big files outside the fixed menu (seed != 1): only the most recent few are kept
        self.keep_big = 3

    def get(self, spec):
        uid = spec_uid(spec)
        cf = self.files.get(uid)
        if cf is not None:
            return cf
        uid, lines = build_lines(spec)
        path = os.path.join(self.root, uid + ".json")
        with open(path, "wb") as f:
            if lines:
                f.write(b"\n".join(lines))
                if spec["eofnl"]:
                    f.write(b"\n")
        cf = CorpusFile(spec, path, uid, lines)
        self.files[uid] = cf
        if spec["docs"] < 20000:
            self.small_order.append(uid)
            while len(self.small_order) > self.keep_small:
                self._drop(self.small_order.pop(0))
        elif spec["seed"] != 1:
            self.big_order.append(uid)
            while len(self.big_order) > self.keep_big:
                self._drop(self.big_order.pop(0))
        return cf

    def _drop(self, uid):
        cf = self.files.pop(uid, None)
        if cf is None:
            return
        for p in (cf.path, cf.path + ".offset"):
            try:
                os.remove(p)
            except FileNotFoundError:
                pass

    def set_table(self, cf, want, build):
        """Makes sure the offset table of the file is present (built by the real code through `build`) or absent."""
        off = cf.path + ".offset"
        if want and not (cf.has_table and os.path.exists(off)):
            if os.path.exists(off):
                os.remove(off)
            build(cf)
            cf.has_table = True
        elif not want and os.path.exists(off):
            os.remove(off)
            cf.has_table = False
