"""C03 - bulk indexing ingests every corpus document exactly once across clients.

Workload (a): generated corpus files on disk (every document carries (file id, line number), see c03_files.py), real
track.Track / DocumentCorpus / Documents objects, real offset tables built by the loader's DocumentSetPreparator
(io.prepare_file_offset_table). For every worker group of a generated split the parameter source is created and partitioned exactly
as AsyncIoAdapter.run / schedule_for do it: ONE source per task per worker (loader.operation_parameters), partition(client index in
task, task.clients) once per co-located client (all calls return the same shared PartitionBulkIndexParamSource), and then the
co-located clients read `percent_completed` and call `params()` in a seeded order until each of them got StopIteration
(ScheduleHandle.__call__). Every bulk is checked against the files while it is produced.

Workload (b): bounds() / number_of_bulks() against exact integer arithmetic (c03_arith.py).
"""
import json
import math
import random
from fractions import Fraction

from esrally.driver import driver
from esrally.track import loader, params, track
from esrally.utils import console

from props import c03_arith as arith
from props import c03_files as cfiles

ID = "C03"
LEVEL = "exploration"
RULE = (
    "seeded generator of (1-3 corpora x 1-3 files of 0..120000 lines with/without action-and-meta-data lines, multi-byte, CRLF, offset table built/absent; "
    "N=1..32 clients; split of the client range into worker groups from calculate_worker_assignments on random host layouts, the real Allocator with a "
    "sibling task / over-commit, or a random contiguous split; order in which co-located clients ask; bulk/batch size; ingest-percentage; conflict mode); "
    "a file case is non-trivial when >= 2 clients read >= 2 documents; arithmetic cases (total docs <= 10^12, clients <= 10^4, client ranges) are non-trivial "
    "when clients >= 2 and total >= 1; distinct = hash of the whole case description"
)
ASSUMPTIONS = [
    "document files agree with the declared document-count (the loader enforces this when it builds the offset table) and contain no lone CR inside a line",
    "a 'client' of the id-conflict clause is the shared parameter source of a worker group (co-located clients share one source and one id range)",
    "for on-conflict=index a conflicting id cannot be told from a first use by looking at the requests; the id clause is decided on 'update' actions and on repeated ids",
    "ingest-percentage: the expected stop index is ceil(p * bulks / 100) in exact decimal arithmetic; also accepted are the exact value for the double nearest to p and the documented formula evaluated in doubles as (bulks * p) / 100",
    "the bulks of a group at 100% are taken from a second execution of the same group without ingest-percentage (metamorphic reference)",
    "percent_completed is read before every params() call, as ScheduleHandle.__call__ does; an exception while reading it counts as a value outside [0,1]",
]
REQUIRED_CLAUSES = [
    "held-bulk-unchanged", "e2e:race-succeeds", "e2e:exactly-once", "e2e:pairing", "e2e:bulk-size-bound", "e2e:client-order",
    "completes", "bulk-size-bound", "pairing", "doc-identity", "contiguous-in-order", "exactly-once", "ingest-stop", "ingest-prefix", "conflict-ids",
    "percent-completed",
] + arith.CLAUSES
REQUIRED_FEATURES = {
    "e2e": 10, "e2e:multi-worker": 3, "e2e:two-bulk-tasks-in-parallel": 3, "e2e:two-tasks-on-one-operation": 2, "e2e:throttled-batches-shared-source": 2,
    "quick": {
        "offset-table-seek": 10, "offset-table-exact-entry": 2, "big-skip-without-table": 2, "multi-byte": 50, "crlf": 50, "action-meta-data-file": 50, "generated-meta-data": 50,
        "multi-corpus": 30, "multi-file": 30, "colocated-clients": 100, "split-hosts": 30, "split-random": 30, "split-allocator": 10,
        "batch-gt-bulk": 20, "ingest-partial": 40, "conflicts-sequential": 15, "conflicts-random": 15, "on-conflict-update": 15, "recency": 10,
        "more-clients-than-docs": 20, "zero-doc-file": 10, "arith-huge-total": 100, "arith-many-clients": 20, "update-actions-seen": 10,
    },
    "thorough": {
        "offset-table-seek": 50, "offset-table-exact-entry": 5, "offset-table-two-entries": 5, "big-skip-without-table": 5, "multi-byte": 300, "crlf": 300, "action-meta-data-file": 150,
        "generated-meta-data": 300, "multi-corpus": 150, "multi-file": 150, "colocated-clients": 300, "split-hosts": 100, "split-random": 100,
        "split-allocator": 50, "batch-gt-bulk": 100, "ingest-partial": 200, "conflicts-sequential": 75, "conflicts-random": 75, "on-conflict-update": 75,
        "recency": 50, "more-clients-than-docs": 100, "zero-doc-file": 50, "arith-huge-total": 1000, "arith-many-clients": 200, "update-actions-seen": 50,
    },
}
BUDGET = {
    "quick": {"cases": 400000, "seconds": 32},
    "thorough": {"cases": 6000000, "seconds": 540},
}
ARITH_PER_FILE_CASE = {"quick": 6, "thorough": 30}

# (docs, meta, crlf, mb): files whose line count is around / above the 50000-line spacing of the offset table
BIG_QUICK = [
    (60000, False, 3, True), (30000, True, 3, True), (59999, False, 7, True), (55555, False, 1000, True), (29999, True, 1, True), (57001, False, 2, False),
    (60000, False, 1, True), (28000, True, 0, True), (58000, False, 0, True), (50001, False, 1, False), (25000, True, 3, True), (49999, False, 0, True),
]
BIG_THOROUGH = BIG_QUICK + [
    (100000, False, 3, True), (100001, False, 1, True), (120000, False, 7, True), (60000, True, 3, True), (99999, False, 0, True), (50000, True, 1, True),
    (50001, True, 2, True), (110003, False, 2, True),
]


# --------------------------------------------------------------------------------------------------------------
# generator
# --------------------------------------------------------------------------------------------------------------
def gen_groups(rng, n):
    """Split of client indices 0..n-1 into worker groups, formed by the real driver code wherever there is one."""
    mode = rng.choice(["hosts", "hosts", "hosts", "random", "random", "singles", "one", "allocator", "allocator"])
    info = {"mode": mode}
    if mode == "hosts":
        hosts = [{"host": f"h{i}", "cores": rng.choice([1, 1, 2, 3, 4, 8, 16])} for i in range(rng.randint(1, 4))]
        info["hosts"] = hosts
        groups = [list(w) for a in driver.calculate_worker_assignments(hosts, n) for w in a["workers"] if w]
    elif mode == "random":
        cuts = sorted({rng.randint(1, n - 1) for _ in range(rng.randint(0, min(6, n - 1)))}) if n > 1 else []
        groups, prev = [], 0
        for c in cuts + [n]:
            groups.append(list(range(prev, c)))
            prev = c
    elif mode == "singles":
        groups = [[i] for i in range(n)]
    elif mode == "one":
        groups = [list(range(n))]
    else:
        # real Allocator: the bulk task sits in a parallel element next to another task (its clients have global indices that differ from the
        # index in the task) and the element may be over-committed (fewer clients than tasks need => several columns per client)
        other = rng.randint(0, 5)
        bulk = track.Task("bulk-task", track.Operation("bulk-op", "bulk", params={"bulk-size": 1}), clients=n)
        tasks = [bulk]
        if other:
            tasks.insert(rng.randint(0, 1), track.Task("other", track.Operation("other-op", "sleep", params={"duration": 0}), clients=other))
        total = n + other
        par_clients = rng.choice([None, None, rng.randint(1, total), max(1, total - rng.randint(1, 3))])
        par = track.Parallel(tasks, clients=par_clients)
        alloc = driver.Allocator([par])
        matrix = alloc.allocations
        hosts = [{"host": f"h{i}", "cores": rng.choice([1, 2, 3, 4, 8])} for i in range(rng.randint(1, 3))]
        info.update({"hosts": hosts, "other": other, "parallel_clients": par_clients, "bulk_first": tasks[0] is bulk})
        groups = []
        for a in driver.calculate_worker_assignments(hosts, alloc.clients):
            for w in a["workers"]:
                if not w:
                    continue
                for col in range(len(matrix[0])):
                    g = [matrix[c][col].client_index_in_task for c in w if isinstance(matrix[c][col], driver.TaskAllocation) and matrix[c][col].task is bulk]
                    if g:
                        groups.append(g)
    return groups, info


def small_doc_count(rng, n):
    return max(0, rng.choice([0, 1, 2, 3, n - 1, n, n + 1, 2 * n + 1, rng.randint(0, 60), rng.randint(0, 60), rng.randint(0, 400), rng.randint(0, 400), rng.randint(0, 3000)]))


def gen_case(rng, tier, shard):
    n = rng.choice([1, 2, 2, 3, 4, 4, 5, 7, 8, 8, 12, 16, 31, 32, rng.randint(1, 32), rng.randint(1, 32)])
    conflicts = rng.choice([None, None, None, None, None, "sequential", "sequential", "random", "random"])
    big = rng.random() < (0.14 if tier == "quick" else 0.3)
    probe = big and rng.random() < (0.25 if tier == "quick" else 0.35)
    if probe:
        n = rng.choice([6, 6, 12, 12, 24, 30, 2, 4])  # 60000 * 5/6 = 50000, 100000 / 2 = 50000, 120000 * 5/12 = 50000, ...
    elif big and rng.random() < 0.8:
        n = rng.choice([6, 8, 8, 12, 16, 16, 24, 31, 32])  # so that some client starts beyond line 50000
    ncorp = rng.choice([1, 1, 1, 2, 2, 3])
    use_streams = (not conflicts) and rng.random() < 0.2
    corpora, used = [], set()
    fi = 0
    for c in range(ncorp):
        files = []
        for _ in range(rng.choice([1, 1, 2, 3])):
            if big and fi == 0 and probe:
                # a fresh file whose clients start exactly on / shortly after the lines the offset table knows (50000, 100000): the byte offset
                # recorded by the text-mode tell() of the table builder is then used as is by the mmap reader
                lines = rng.choice([60000] if tier == "quick" else [60000, 100000, 120000, 100002])
                meta = (not conflicts) and rng.random() < 0.35
                spec = {"docs": lines // 2 if meta else lines, "meta": meta, "crlf": rng.choice([1, 1, 2, 3]), "mb": True, "eofnl": True, "seed": rng.randint(2, 10**6)}
            elif big and fi == 0:
                menu = BIG_QUICK if tier == "quick" else BIG_THOROUGH
                per_shard = 2 if tier == "quick" else 4
                docs, meta, crlf, mb = menu[(shard * per_shard + rng.randrange(per_shard)) % len(menu)]
                if conflicts and meta:
                    docs, meta = docs * 2, False
                spec = {"docs": docs, "meta": meta, "crlf": crlf, "mb": mb, "eofnl": True, "seed": 1}
            else:
                while True:
                    spec = {
                        "docs": small_doc_count(rng, n), "meta": (not conflicts) and rng.random() < 0.4, "crlf": rng.choice([0, 0, 1, 2, 3, 7]),
                        "mb": rng.random() < 0.7, "eofnl": rng.random() < 0.9, "seed": rng.randint(0, 10**6),
                    }
                    if cfiles.spec_uid(spec) not in used:
                        break
            used.add(cfiles.spec_uid(spec))
            f = {"spec": spec}
            # what the track loader can produce: a file with its own action lines has no target at all; otherwise the track uses either indices
            # (optionally with a type) or data streams (never with a type), not both
            if not spec["meta"]:
                if use_streams:
                    f["ds"] = f"ds{rng.randint(0, 1)}"
                else:
                    f["index"] = f"idx{rng.randint(0, 2)}"
                    if rng.random() < 0.15:
                        f["type"] = rng.choice(["_doc", "t1"])
            files.append(f)
            fi += 1
        corpora.append({"name": f"c{c}", "files": files})
    bulk = rng.choice([100, 500, 1000, 5000, 999, 4999, rng.randint(50, 5000)]) if big else rng.choice([1, 1, 2, 3, 5, 10, 17, 100, 1000, 5000, rng.randint(1, 50), rng.randint(1, 5000)])
    op = {"bulk-size": bulk}
    mult = rng.choice([None, None, None, 1, 2, 3, 10])
    if mult:
        op["batch-size"] = bulk * mult
    if conflicts:
        op["conflicts"] = conflicts
        cp = rng.choice([None, 0, 10, 50, 50, 99.9, 100])
        if cp is not None:
            op["conflict-probability"] = cp
        oc = rng.choice([None, "index", "update", "update", "update"])
        if oc:
            op["on-conflict"] = oc
        rec = rng.choice([None, None, 0, 0.01, 0.5, 1])
        if rec is not None:
            op["recency"] = rec
    if rng.random() < 0.15:
        op["pipeline"] = "p1"
    if ncorp >= 2 and rng.random() < 0.3:
        names = [c["name"] for c in corpora]
        sub = rng.sample(names, rng.randint(1, len(names) - 1))
        op["corpora"] = sub[0] if len(sub) == 1 and rng.random() < 0.5 else sorted(sub)
    if rng.random() < 0.1:
        idx = sorted({f["index"] for c in corpora for f in c["files"] if "index" in f})
        if idx:
            op["indices"] = rng.sample(idx, rng.randint(1, len(idx)))
    ingest = rng.choice([None, None, None, None, "100", "33.3", "50", "99.999", "tiny", "tiny", rng.choice(["10", "66.6", "75", "12.5", "1"])])
    if ingest == "tiny":
        ingest = rng.choice(["0.0001", "1e-09", "0.5", "0.01"])
    groups, split = gen_groups(rng, n)
    if not big and not conflicts and rng.random() < 0.06:
        # percentage grid: one file, one client, a round number of bulks and a whole-number percentage, so that p% of the bulks is often an
        # integer - the place where a differently ordered float computation adds or loses a whole bulk
        nb = rng.choice([100, 100, 50, 150, 200, 300, 20, 25, 40, 400])
        b = rng.choice([1, 1, 2, 3])
        corpora = [{"name": "c0", "files": [{"spec": {"docs": nb * b, "meta": False, "crlf": 0, "mb": False, "eofnl": True, "seed": 4242}, "index": "idx0"}]}]
        op = {"bulk-size": b}
        n, groups, split = 1, [[0]], {"mode": "one"}
        ingest = str(rng.randint(1, 99))
    case = {
        "kind": "files", "corpora": corpora, "clients": n, "groups": groups, "split": split, "op": op, "ingest": ingest,
        "table": "built" if rng.random() < 0.85 else "absent",
        "order": rng.choice(["random", "random", "random", "round-robin", "hog-first", "hog-last"]), "order_seed": rng.randint(0, 10**9),
    }
    # the operation must target at least one document, otherwise Rally (rightly) refuses the operation
    if not any(targeted(case, c, f) and f["spec"]["docs"] > 0 for c in corpora for f in c["files"]):
        op.pop("indices", None)
        for c in corpora:
            for f in c["files"]:
                if targeted(case, c, f) and f["spec"]["docs"] == 0:
                    f["spec"]["docs"] = rng.randint(1, 50)
                    return case
    return case


def targeted(case, corpus, f):
    """From the docs of the bulk operation: `corpora` selects corpora by name, `indices` keeps files whose target-index matches."""
    op = case["op"]
    names = op.get("corpora")
    if names is not None:
        if isinstance(names, str):
            names = [names]
        if corpus["name"] not in names:
            return False
    idx = op.get("indices")
    if idx and f.get("index") not in idx:
        return False
    return True


# --------------------------------------------------------------------------------------------------------------
# environment: files, tables, track objects
# --------------------------------------------------------------------------------------------------------------
class Env:
    def __init__(self, scratch):
        console.init(quiet=True)
        self.cache = cfiles.FileCache(scratch)
        self.preparator = loader.DocumentSetPreparator("c03", None, None)

    def build_table(self, cf):
        # the loader's own step: io.prepare_file_offset_table + line count verification against the declared document-count
        self.preparator.create_file_offset_table(cf.path, cf.nlines)

    def materialise(self, case):
        """Returns (track, {uid: FileInfo})."""
        finfo = {}
        corpora = []
        indices, streams = set(), set()
        for c in case["corpora"]:
            docs = []
            for f in c["files"]:
                cf = self.cache.get(f["spec"])
                self.cache.set_table(cf, case["table"] == "built", self.build_table)
                docs.append(
                    track.Documents(
                        track.Documents.SOURCE_FORMAT_BULK, document_file=cf.path, includes_action_and_meta_data=cf.meta, number_of_documents=cf.docs,
                        target_index=f.get("index"), target_data_stream=f.get("ds"), target_type=f.get("type"),
                    )
                )
                if f.get("index"):
                    indices.add(f["index"])
                if f.get("ds"):
                    streams.add(f["ds"])
                finfo[cf.uid] = FileInfo(cf, f, targeted(case, c, f), c["name"])
            corpora.append(track.DocumentCorpus(c["name"], docs))
        t = track.Track(
            "c03", indices=[track.Index(i) for i in sorted(indices)], data_streams=[track.DataStream(s) for s in sorted(streams)], corpora=corpora
        )
        return t, finfo


class FileInfo:
    def __init__(self, cf, f, is_targeted, corpus):
        self.cf = cf
        self.uid = cf.uid
        self.target = f.get("index") or f.get("ds")
        self.type = f.get("type")
        self.targeted = is_targeted
        self.corpus = corpus
        self.action_ok = {}

    def label(self):
        return f"{self.corpus}/{self.uid}({self.cf.docs} docs{', with action lines' if self.cf.meta else ''})"


# --------------------------------------------------------------------------------------------------------------
# monitor: one execution of the operation by all worker groups
# --------------------------------------------------------------------------------------------------------------
class Execution:
    MAX_PER_CLAUSE = 2

    def __init__(self, obs, case, finfo, ingest):
        self.obs = obs
        self.case = case
        self.finfo = finfo
        self.ingest = ingest
        self.bulk_size = case["op"]["bulk-size"]
        self.conflict_mode = bool(case["op"].get("conflicts"))
        self.problems = []
        self._count = {}
        self.runs = {}  # group index -> [[uid, start, end], ...] in emission order (adjacent pieces merged)
        self.bulks = {}  # group index -> [(uid of first doc, line of first doc, docs)]
        self.seen_ids = {}  # (group index, target) -> ids emitted so far
        self.updates = 0

    def problem(self, clause, msg, detail=None):
        self._count[clause] = self._count.get(clause, 0) + 1
        if self._count[clause] <= self.MAX_PER_CLAUSE:
            self.problems.append((clause, msg, detail or {}))

    # -- per bulk -------------------------------------------------------------------------------------------
    def on_bulk(self, gi, group, p):
        obs = self.obs
        body = p.get("body")
        declared = p.get("bulk-size")
        if not isinstance(body, (bytes, bytearray)):
            self.problem("pairing", f"group {group[0]}..{group[-1]}: bulk body is {type(body).__name__}, not bytes")
            return
        lines = body.split(b"\n")
        terminated = lines[-1] == b""
        if terminated:
            lines.pop()
        nl = len(lines)
        k = (nl + 1) // 2
        obs.clause("bulk-size-bound")
        if k > self.bulk_size or not isinstance(declared, int) or declared > self.bulk_size:
            self.problem(
                "bulk-size-bound",
                f"group {group[0]}..{group[-1]}: bulk with {k} documents in its body (declared bulk-size {declared}) but the configured bulk-size is {self.bulk_size}",
                {"docs_in_body": k, "declared": declared, "configured": self.bulk_size},
            )
        if nl == 0:
            self.problem("doc-identity", f"group {group[0]}..{group[-1]}: empty bulk body")
            return
        # fast path: the whole body is one slice of one file
        if nl % 2 == 0:
            first = lines[1]
            m = cfiles.DOC_RE.match(first)
            fi = self.finfo.get(m.group(2).decode()) if m else None
            if fi is not None:
                n0 = int(m.group(1))
                cf = fi.cf
                ok = False
                if cf.meta:
                    ok = lines == cf.lines[2 * n0 : 2 * n0 + nl]
                elif not self.conflict_mode:
                    a0 = lines[0]
                    ok = lines[1::2] == cf.lines[n0 : n0 + k] and lines[0::2].count(a0) == k and self.generated_action_ok(fi, a0) is None
                if ok and (terminated or (n0 + k == cf.docs and not cf.spec["eofnl"])):
                    obs.clause("pairing", k)
                    obs.clause("doc-identity", k)
                    self.record(gi, fi.uid, n0, n0 + k)
                    self.bulks.setdefault(gi, []).append((fi.uid, n0, k))
                    return
        self.slow_bulk(gi, group, lines, terminated)

    def generated_action_ok(self, fi, a_line):
        """None if `a_line` is an action line Rally may generate for a document of file `fi`, else a text. Cached per distinct line."""
        if a_line in fi.action_ok:
            return fi.action_ok[a_line][0]
        res, parsed = None, None
        try:
            parsed = json.loads(a_line)
            if not isinstance(parsed, dict) or len(parsed) != 1:
                raise ValueError("not a single-key object")
            (name, meta), = parsed.items()
            if name not in ("index", "create", "update") or not isinstance(meta, dict):
                res = f"unknown action {name!r}"
            elif meta.get("_index") != fi.target:
                res = f"action line targets {meta.get('_index')!r} but the document's file targets {fi.target!r}"
            elif meta.get("_type") != fi.type:
                res = f"action line has type {meta.get('_type')!r} but the document's file has type {fi.type!r}"
            elif self.conflict_mode and not isinstance(meta.get("_id"), str):
                res = "conflicts are configured but the action line carries no _id"
            parsed = (name, meta)
        except ValueError as e:
            res = f"not an action line ({e}): {bytes(a_line[:60])!r}"
            parsed = None
        if len(fi.action_ok) < 4096 or not self.conflict_mode:
            fi.action_ok[a_line] = (res, parsed)
        return res

    def slow_bulk(self, gi, group, lines, terminated):
        obs = self.obs
        g = f"group {group[0]}..{group[-1]}"
        nl = len(lines)
        if nl % 2:
            self.problem("pairing", f"{g}: bulk body has an odd number of lines ({nl}): an action line or a document is missing its partner", {"lines": nl})
        first_id = None
        count = 0
        for i in range(0, nl - 1, 2):
            a, d = lines[i], lines[i + 1]
            count += 1
            last = i + 2 >= nl
            name = None
            if a.startswith((b'{"index"', b'{"create"', b'{"update"')):
                try:
                    pa = json.loads(a)
                    (name, meta), = pa.items()
                except ValueError:
                    name = None
            obs.clause("pairing")
            obs.clause("doc-identity")
            if name is None:
                self.problem("pairing", f"{g}: the line in front of a document is not an action-and-meta-data line: {bytes(a[:70])!r}", {"line": bytes(a[:120])})
            raw = d
            if name == "update":
                if d.startswith(cfiles.UPDATE_PREFIX) and d.endswith(b"}"):
                    raw = d[len(cfiles.UPDATE_PREFIX) : -1]
                else:
                    self.problem("pairing", f"{g}: 'update' action followed by a line that is not {{\"doc\":...}}: {bytes(d[:70])!r}")
            m = cfiles.DOC_RE.match(raw)
            fi = self.finfo.get(m.group(2).decode()) if m else None
            if fi is None:
                self.problem("doc-identity", f"{g}: emitted line in document position is not a document of any corpus file: {bytes(d[:70])!r}", {"line": bytes(d[:120])})
                continue
            n0 = int(m.group(1))
            cf = fi.cf
            if n0 >= cf.docs:
                self.problem("doc-identity", f"{g}: emitted document {n0} of {fi.label()} does not exist")
                continue
            truth = cf.doc_line(n0)
            if name == "update":
                truth = truth.strip()
            if raw != truth:
                self.problem(
                    "doc-identity", f"{g}: document {n0} of {fi.label()} was emitted with different bytes: {bytes(raw[-40:])!r} vs source {bytes(truth[-40:])!r}",
                    {"doc": n0, "file": fi.uid},
                )
            if not terminated and last and not (n0 + 1 == cf.docs and not cf.spec["eofnl"]):
                self.problem("doc-identity", f"{g}: bulk body does not end with a newline although document {n0} of {fi.label()} is terminated in the file")
            if first_id is None:
                first_id = (fi.uid, n0)
            self.record(gi, fi.uid, n0, n0 + 1)
            if name is None:
                continue
            if cf.meta:
                if a != cf.lines[2 * n0]:
                    self.problem(
                        "pairing",
                        f"{g}: document {n0} of {fi.label()} is preceded by {bytes(a[:80])!r}; in the file its action line is {bytes(cf.lines[2 * n0][:80])!r}",
                        {"doc": n0, "file": fi.uid},
                    )
                continue
            why = self.generated_action_ok(fi, a)
            if why:
                self.problem("pairing", f"{g}: document {n0} of {fi.label()}: {why}", {"doc": n0, "file": fi.uid})
                continue
            if self.conflict_mode:
                doc_id = meta.get("_id")
                seen = self.seen_ids.setdefault((gi, fi.target), set())
                if name == "update":
                    self.updates += 1
                    obs.clause("conflict-ids")
                    if doc_id not in seen:
                        self.problem(
                            "conflict-ids",
                            f"{g}: 'update' for id {doc_id} (document {n0} of {fi.label()}) but this source has not emitted that id before (ids emitted so far: {len(seen)})",
                            {"id": doc_id, "emitted_before": len(seen), "action": "update"},
                        )
                elif doc_id in seen:
                    obs.clause("conflict-ids")  # a repeated id necessarily refers to an id this source emitted before
                else:
                    seen.add(doc_id)
        if first_id is not None:
            self.bulks.setdefault(gi, []).append((first_id[0], first_id[1], count))
        else:
            self.bulks.setdefault(gi, []).append((None, -1, count))

    def record(self, gi, uid, s, e):
        runs = self.runs.setdefault(gi, [])
        if runs and runs[-1][0] == uid and runs[-1][2] == s:
            runs[-1][2] = e
        else:
            runs.append([uid, s, e])

    # -- per group / per execution -----------------------------------------------------------------------------
    def end_group(self, gi, group):
        per_file = {}
        for uid, s, e in self.runs.get(gi, []):
            per_file.setdefault(uid, []).append((s, e))
        for uid, rs in per_file.items():
            self.obs.clause("contiguous-in-order")
            if len(rs) != 1:
                fi = self.finfo[uid]
                self.problem(
                    "contiguous-in-order",
                    f"group {group[0]}..{group[-1]} read {fi.label()} in {len(rs)} pieces {rs[:4]} instead of one contiguous slice in file order",
                    {"file": uid, "pieces": rs[:6]},
                )

    def end_full(self, groups):
        """Exactly-once over all groups; only meaningful for an execution at 100%."""
        for uid, fi in self.finfo.items():
            self.obs.clause("exactly-once")
            rs = sorted((s, e, gi) for gi in self.runs for u, s, e in self.runs[gi] if u == uid)
            if not fi.targeted:
                if rs:
                    self.problem("exactly-once", f"{fi.label()} is not targeted by the operation but {sum(e - s for s, e, _ in rs)} of its documents were emitted", {"file": uid})
                continue
            cursor, missing, dup = 0, [], []
            for s, e, gi in rs:
                if s > cursor:
                    missing.append((cursor, s))
                elif s < cursor:
                    dup.append((s, min(e, cursor), gi))
                cursor = max(cursor, e)
            if cursor < fi.cf.docs:
                missing.append((cursor, fi.cf.docs))
            if missing:
                a, b = missing[0]
                self.problem(
                    "exactly-once",
                    f"{fi.label()}: documents {a}..{b - 1} ({sum(y - x for x, y in missing)} in total) appear in no bulk of any of the {len(groups)} groups",
                    {"file": uid, "missing": missing[:4], "kind": "missing"},
                )
            if dup:
                a, b, gi = dup[0]
                self.problem(
                    "exactly-once",
                    f"{fi.label()}: documents {a}..{b - 1} ({sum(y - x for x, y, _ in dup)} in total) were emitted more than once (again by group {groups[gi][0]}..{groups[gi][-1]})",
                    {"file": uid, "duplicates": [d[:2] for d in dup[:4]], "kind": "duplicate"},
                )


def run_group(obs, ex, tr, case, gi, group, ingest, max_calls):
    """One worker: creates and partitions the source as AsyncIoAdapter.run / schedule_for do, then lets the co-located clients pull."""
    n = case["clients"]
    op_params = dict(case["op"])
    if ingest is not None:
        op_params["ingest-percentage"] = float(ingest)
    op = track.Operation("bulk-op", track.OperationType.Bulk.to_hyphenated_string(), params=op_params)
    task = track.Task("bulk-task", op, clients=n)
    g = f"group {group[0]}..{group[-1]}"
    random.seed(f"{case['order_seed']}:{gi}:{ingest}")  # Rally draws conflicts from the module-level generator
    order = random.Random(f"{case['order_seed']}:{gi}:{ingest}:order")
    obs.clause("completes")
    try:
        src = loader.operation_parameters(tr, task)
        handles = [src.partition(ci, n) for ci in group]
    except Exception as e:
        ex.problem("completes", f"{g}: creating / partitioning the parameter source failed: {type(e).__name__}: {e}", {"exception": type(e).__name__, "phase": "create"})
        return
    active = list(range(len(group)))
    calls, step, stopped, last_pc = 0, 0, 0, None
    held_bulks = {}
    mode = case["order"]
    while active:
        if mode == "random":
            k = order.choice(active)
        elif mode == "round-robin":
            k = active[step % len(active)]
        elif mode == "hog-first":
            k = active[0]
        else:
            k = active[-1]
        step += 1
        h = handles[k]
        obs.clause("percent-completed")
        try:
            pc = h.percent_completed
        except Exception as e:
            pc = None
            ex.problem(
                "percent-completed",
                f"{g}: reading percent_completed raised {type(e).__name__}: {e} (bulks emitted by this group so far: {calls}, co-located clients that already got StopIteration: {stopped})",
                {"exception": type(e).__name__, "bulks_emitted": calls, "clients_stopped": stopped, "group_clients": len(group), "group_index": gi},
            )
        if pc is not None:
            if not (isinstance(pc, (int, float)) and 0 <= pc <= 1):
                ex.problem("percent-completed", f"{g}: percent_completed = {pc!r} is outside [0,1] after {calls} bulks", {"value": repr(pc), "bulks_emitted": calls})
            elif last_pc is not None and pc < last_pc:
                ex.problem("percent-completed", f"{g}: percent_completed went down from {last_pc!r} to {pc!r} after {calls} bulks", {"value": repr(pc), "before": repr(last_pc)})
            else:
                last_pc = pc
        try:
            p = h.params()
        except StopIteration:
            active.remove(k)
            stopped += 1
            continue
        except Exception as e:
            ex.problem(
                "completes", f"{g}: params() raised {type(e).__name__}: {str(e)[:200]} after {calls} bulks", {"exception": type(e).__name__, "phase": "params", "bulks_emitted": calls}
            )
            return
        p.update({"operation-type": op.type})  # ScheduleHandle.params_with_operation_type
        calls += 1
        ex.on_bulk(gi, group, p)
        # a throttled client holds the bulk it was given while co-located clients ask the same source for theirs: what it holds must stay what it got
        obs.clause("held-bulk-unchanged")
        for other, (held, snap) in held_bulks.items():
            if other != k and (held is p or (held.get("body"), held.get("bulk-size")) != snap):
                ex.problem("held-bulk-unchanged", f"{g}: the bulk handed to client {group[other]} earlier "
                           + ("is the same dict object as" if held is p else "was changed by") + f" the bulk handed to client {group[k]} now (call {calls})",
                           {"same_object": held is p, "bulks_emitted": calls})
                held_bulks.clear()
                break
        held_bulks[k] = (p, (p.get("body"), p.get("bulk-size")))
        if calls > max_calls:
            ex.problem("completes", f"{g}: the source did not stop after {calls} bulks although all targeted files together have fewer documents", {"phase": "unbounded"})
            return
    ex.end_group(gi, group)


def accepted_stops(n100, pstr):
    """ceil(p% of n100). Accepted: the exact value for p as written, the exact value for the double nearest to p (the parameter is a float), and
    the documented formula evaluated in doubles in its natural order, (n * p) / 100. An answer outside this set counts a bulk too many or
    too few by any reading - e.g. 7% of 100 bulks is 7 bulks, and 100 * (7 / 100) = 7.000000000000001 -> 8 is not."""
    exact = Fraction(pstr) * n100 / 100
    want = math.ceil(exact)
    acc = {want, math.ceil(Fraction(float(pstr)) * n100 / 100), math.ceil((n100 * float(pstr)) / 100)}
    return want, {a for a in acc if 0 <= a <= n100}


def run_case(obs, env, case):
    """Runs the real code for one file case. Returns (problems, facts)."""
    tr, finfo = env.materialise(case)
    groups = case["groups"]
    total_docs = sum(fi.cf.docs for fi in finfo.values())
    max_calls = total_docs + 5
    ingest = case["ingest"]
    partial = ingest is not None and Fraction(ingest) != 100
    full = Execution(obs, case, finfo, None if partial else ingest)
    for gi, group in enumerate(groups):
        run_group(obs, full, tr, case, gi, group, None if partial else ingest, max_calls)
    full.end_full(groups)
    # ground truth for "this group has nothing to read": the other groups together delivered every document exactly once and this one delivered none
    complete = not any(c in ("exactly-once", "completes", "doc-identity") for c, _, _ in full.problems)

    def annotate(ps):
        for c, m, d in ps:
            if c == "percent-completed" and "group_index" in d:
                d["group_slice_empty"] = complete and not full.runs.get(d["group_index"])

    annotate(full.problems)
    problems = [(c, m, dict(d, run="100%")) for c, m, d in full.problems]
    updates = full.updates
    if partial:
        part = Execution(obs, case, finfo, ingest)
        for gi, group in enumerate(groups):
            run_group(obs, part, tr, case, gi, group, ingest, max_calls)
            n100 = len(full.bulks.get(gi, []))
            got = part.bulks.get(gi, [])
            want, acc = accepted_stops(n100, ingest)
            obs.clause("ingest-stop")
            if len(got) not in acc:
                part.problem(
                    "ingest-stop",
                    f"group {group[0]}..{group[-1]} has {n100} bulks; with ingest-percentage {ingest} it must stop after ceil({ingest}% of {n100}) = {want} bulks but it issued {len(got)}",
                    {"bulks_at_100": n100, "expected": want, "got": len(got), "ingest": ingest},
                )
            obs.clause("ingest-prefix")
            if got != full.bulks.get(gi, [])[: len(got)]:
                firstdiff = next((i for i, (x, y) in enumerate(zip(got, full.bulks.get(gi, []))) if x != y), min(len(got), n100))
                part.problem(
                    "ingest-prefix",
                    f"group {group[0]}..{group[-1]}: with ingest-percentage {ingest} bulk #{firstdiff} is {got[firstdiff] if firstdiff < len(got) else None} "
                    f"but bulk #{firstdiff} of the full run is {full.bulks[gi][firstdiff] if firstdiff < n100 else None} (file, first line, docs)",
                    {"bulk": firstdiff},
                )
        annotate(part.problems)
        problems += [(c, m, dict(d, run=f"{ingest}%")) for c, m, d in part.problems]
        updates += part.updates
    facts = {"updates": updates, "finfo": finfo, "full": full}
    return problems, facts


# --------------------------------------------------------------------------------------------------------------
# case driver
# --------------------------------------------------------------------------------------------------------------
class _Null:
    def clause(self, *a, **k):
        pass


_SHRUNK = {}


def case_features(case, finfo, full, updates):
    feats = set()
    n, groups, op = case["clients"], case["groups"], case["op"]
    specs = [f["spec"] for c in case["corpora"] for f in c["files"]]
    if any(s["mb"] and s["docs"] for s in specs):
        feats.add("multi-byte")
    if any(s["crlf"] and s["docs"] for s in specs):
        feats.add("crlf")
    if any(s["meta"] and s["docs"] for s in specs):
        feats.add("action-meta-data-file")
    if any(not s["meta"] and s["docs"] for s in specs):
        feats.add("generated-meta-data")
    if any(not s["eofnl"] and s["docs"] for s in specs):
        feats.add("no-newline-at-eof")
    if any(s["docs"] == 0 for s in specs):
        feats.add("zero-doc-file")
    if len(case["corpora"]) > 1:
        feats.add("multi-corpus")
    if any(len(c["files"]) > 1 for c in case["corpora"]):
        feats.add("multi-file")
    if any(len(g) > 1 for g in groups):
        feats.add("colocated-clients")
    if any(0 < s["docs"] < n for s in specs):
        feats.add("more-clients-than-docs")
    feats.add({"hosts": "split-hosts", "random": "split-random", "allocator": "split-allocator", "singles": "split-singles", "one": "split-one"}[case["split"]["mode"]])
    if case["split"]["mode"] == "allocator" and case["split"].get("parallel_clients") is not None and case["split"]["parallel_clients"] < n + case["split"]["other"]:
        feats.add("allocator-over-commit")
    if any(g != list(range(g[0], g[0] + len(g))) for g in groups):
        feats.add("non-contiguous-group")
    if op.get("batch-size", op["bulk-size"]) > op["bulk-size"]:
        feats.add("batch-gt-bulk")
    if op["bulk-size"] == 1:
        feats.add("bulk-size-1")
    if case["ingest"] is not None and Fraction(case["ingest"]) != 100:
        feats.add("ingest-partial")
        feats.add("ingest-" + ("tiny" if Fraction(case["ingest"]) < 1 else case["ingest"]))
    if op.get("conflicts"):
        feats.add("conflicts-" + op["conflicts"])
        if op.get("on-conflict") == "update":
            feats.add("on-conflict-update")
        if op.get("recency"):
            feats.add("recency")
    if updates:
        feats.add("update-actions-seen")
    if "corpora" in op or "indices" in op:
        feats.add("corpus-or-index-filter")
    if any(f.get("ds") for c in case["corpora"] for f in c["files"]):
        feats.add("data-stream-target")
    # which groups had to skip >= 50000 lines, i.e. where the offset table (if built) decides the byte position
    for gi, runs in full.runs.items():
        for uid, s, e in runs:
            start_line = s * finfo[uid].cf.lines_per_doc
            if start_line >= 50000:
                feats.add("offset-table-seek" if case["table"] == "built" else "big-skip-without-table")
                if start_line >= 100000 and case["table"] == "built":
                    feats.add("offset-table-two-entries")
                if start_line in (50000, 100000) and case["table"] == "built":
                    feats.add("offset-table-exact-entry")  # no line is skipped after the seek: the recorded byte offset is used as is
    return feats


def brief(case):
    """Readable one-screen form of a case for samples / witnesses."""
    return {
        "corpora": [{"name": c["name"], "files": [dict({k: v for k, v in f.items() if k != "spec"}, **f["spec"]) for f in c["files"]]} for c in case["corpora"]],
        "clients": case["clients"], "groups": [[g[0], g[-1]] if g == list(range(g[0], g[0] + len(g))) else g for g in case["groups"]], "split": case["split"],
        "op": case["op"], "ingest": case["ingest"], "table": case["table"], "order": case["order"], "order_seed": case["order_seed"],
    }


def file_case(ctx, env, case, do_shrink=True):
    problems, facts = run_case(ctx, env, case)
    feats = case_features(case, facts["finfo"], facts["full"], facts["updates"])
    docs_read = sum(e - s for runs in facts["full"].runs.values() for _, s, e in runs)
    ctx.case(case, nontrivial=case["clients"] >= 2 and docs_read >= 2, features=feats)
    ctx.distinct("worker splits", (case["clients"], case["groups"]))
    ctx.distinct("file sets", [[f["spec"] for f in c["files"]] for c in case["corpora"]])
    if sum(f["spec"]["docs"] for c in case["corpora"] for f in c["files"]) <= 60 and case["clients"] <= 5:
        ctx.sample(brief(case), tag=case["split"]["mode"] + ("+conflicts" if case["op"].get("conflicts") else "") + ("+ingest" if "ingest-partial" in feats else ""))
    reported = set()
    for clause, msg, detail in problems:
        key = classify({"clause": clause, "witness": {"detail": detail}, "msg": msg})
        if (clause, key) in reported:
            continue
        reported.add((clause, key))
        _SHRUNK[(clause, key)] = _SHRUNK.get((clause, key), 0) + 1
        wcase = shrink(env, case, clause, key) if do_shrink and _SHRUNK[(clause, key)] <= 3 else case
        if wcase is not case:
            again = [p for p in run_case(_Null(), env, wcase)[0] if p[0] == clause and classify({"clause": clause, "witness": {"detail": p[2]}, "msg": p[1]}) == key]
            if again:
                clause, msg, detail = again[0]
            else:
                wcase = case
        ctx.violation(clause, {"case": wcase, "readable": brief(wcase), "detail": detail}, msg)
    return problems


def shrink(env, case, clause, key, max_attempts=120):
    """Greedy: drop corpora / files, shrink files, simplify the operation while the same clause (and the same mechanism key) still fails."""
    if sum(f["spec"]["docs"] for c in case["corpora"] for f in c["files"]) > 20000:
        return case
    attempts = [0]

    def fails(c):
        attempts[0] += 1
        try:
            ps = run_case(_Null(), env, c)[0]
        except Exception:
            return False
        return any(p[0] == clause and classify({"clause": clause, "witness": {"detail": p[2]}, "msg": p[1]}) == key for p in ps)

    def variants(c):
        cor = c["corpora"]
        if len(cor) > 1 and "corpora" not in c["op"]:
            for i in range(len(cor)):
                yield dict(c, corpora=cor[:i] + cor[i + 1 :])
        for i, co in enumerate(cor):
            if len(co["files"]) > 1:
                for j in range(len(co["files"])):
                    yield dict(c, corpora=cor[:i] + [dict(co, files=co["files"][:j] + co["files"][j + 1 :])] + cor[i + 1 :])
        for i, co in enumerate(cor):
            for j, f in enumerate(co["files"]):
                d = f["spec"]["docs"]
                for nd in sorted({0, 1, d // 2, d - 1} - {d}):
                    if 0 <= nd < d:
                        nf = dict(f, spec=dict(f["spec"], docs=nd))
                        yield dict(c, corpora=cor[:i] + [dict(co, files=co["files"][:j] + [nf] + co["files"][j + 1 :])] + cor[i + 1 :])
                for k, v in (("mb", False), ("crlf", 0), ("eofnl", True)):
                    if f["spec"][k] != v:
                        nf = dict(f, spec=dict(f["spec"], **{k: v}))
                        yield dict(c, corpora=cor[:i] + [dict(co, files=co["files"][:j] + [nf] + co["files"][j + 1 :])] + cor[i + 1 :])
        for k in ("batch-size", "pipeline", "recency", "indices", "corpora", "conflict-probability", "on-conflict", "conflicts"):
            if k in c["op"]:
                yield dict(c, op={a: b for a, b in c["op"].items() if a != k})
        if c["ingest"] is not None:
            yield dict(c, ingest=None)
        n = c["clients"]
        for m in sorted({1, 2, 3, 4, n // 2, n - 1}):
            if 1 <= m < n:
                halves = [g for g in (list(range(0, m // 2)), list(range(m // 2, m))) if g]
                for groups in (halves, [list(range(m))], [[i] for i in range(m)]):
                    if groups != c["groups"] or m != n:
                        yield dict(c, clients=m, groups=groups, split={"mode": "random", "shrunk": True})
        if c["table"] == "absent":
            yield dict(c, table="built")
        if c["order"] != "round-robin":
            yield dict(c, order="round-robin")

    cur = case
    progress = True
    while progress and attempts[0] < max_attempts:
        progress = False
        for v in variants(cur):
            if attempts[0] >= max_attempts:
                break
            if not any(targeted(v, c, f) and f["spec"]["docs"] > 0 for c in v["corpora"] for f in c["files"]):
                continue
            if fails(v):
                cur, progress = v, True
                break
    return cur


def arith_case(ctx, case):
    problems = arith.check(ctx, case)
    ctx.case(case, nontrivial=case["clients"] >= 2 and max(case["totals"]) >= 1, features=arith.features(case))
    seen = set()
    for clause, msg, detail in problems:
        if clause in seen:
            continue
        seen.add(clause)
        small = dict(case, groups=[detail["group"]] if "group" in detail else case["groups"][:1])
        ctx.violation(clause, {"case": small, "detail": detail}, msg)
    return problems


from props import c03_race  # noqa: E402


def run_shard(ctx):
    env = Env(ctx.scratch)
    i = 0
    while ctx.more():
        rng = ctx.case_rng(i)
        if i % 120 == 60:
            c03_race.race_case(ctx, rng)  # end-to-end class: a bulk task through a complete simulated race (props/c03_race.py)
        elif i % (ARITH_PER_FILE_CASE[ctx.tier] + 1) == 0:
            file_case(ctx, env, gen_case(rng, ctx.tier, ctx.shard))
        else:
            arith_case(ctx, arith.gen(rng, ctx.tier))
        i += 1


def classify(v):
    """Mechanism keys for known findings: predicates over the witness, never over seeds."""
    d = (v.get("witness") or {}).get("detail") or {}
    if (
        v["clause"] == "percent-completed"
        and d.get("exception") == "ZeroDivisionError"
        and d.get("bulks_emitted") == 0
        and d.get("clients_stopped", 0) >= 1
        and d.get("group_clients", 0) >= 2
        and d.get("group_slice_empty") is True
    ):
        # a worker group whose slice of every file is empty: the first co-located client gets StopIteration (total_bulks becomes 0),
        # the next one reads percent_completed = 0 / 0
        return "percent-completed-div-by-zero-in-empty-group"
    return None


def replay(ctx, rec):
    case = rec["witness"]["case"]
    if rec["witness"].get("workload") == "e2e":
        c03_race.race_case(ctx, None, explicit=case)
    elif case.get("kind") == "arith":
        arith_case(ctx, case)
    else:
        file_case(ctx, Env(ctx.scratch), case, do_shrink=False)


MANIFEST = {
    "text": "Exploration: the real BulkIndexParamSource / PartitionBulkIndexParamSource, readers, Slice, MmapSource, io.skip_lines and offset tables built by the "
    "loader read generated corpus files (every line identifies itself) for ~10^3 (quick) / ~10^4 (thorough) generated (file set, client count, worker split, "
    "asking order, bulk/batch size, ingest-percentage, conflict mode) cases; every bulk is compared with the files (exactly once, contiguous per group, size bound, "
    "action/document pairing, stop index, conflicting ids, progress). bounds()/number_of_bulks() are compared with exact integer arithmetic for totals up to 10^12 "
    "and up to 10^4 clients. Every 120th case is an end-to-end simulated race (real track preparation, one shared parameter source per task per worker, two bulk tasks in parallel) "
    "whose bodies are read at the simulated _bulk endpoint. Holds on the executions produced, not beyond.",
    "note": "Trusts the corpus generator (c03_files.py, the files are the ground truth), the 100%-run as reference for the bulks of a group under ingest-percentage, "
    "and that worker groups are formed as in Driver.start_benchmark / AsyncIoAdapter.run (one shared source per task per worker). Lone CR inside lines is not generated.",
    "technique": "runtime monitor: ground-truth files with unambiguous history (exactly-once / contiguity / pairing checker), metamorphic 100% vs p% run, exact-arithmetic reference for slice bounds",
    "design_ref": "DESIGN.md section 4 C03",
}
