"""C01 - the schedule runs step by step on all clients under any message timing.

Workload: generated tracks executed by a complete simulated race (engines.race): rally's real command line, race control,
mechanic, driver, track preparation and worker actors on the deterministic actor kernel, real executors on virtual-time loops,
a simulated Elasticsearch with scripted service times. Message delays / orders, wake-up jitter, worker layouts and per-process
clock offsets are seeded workload parameters.

Monitor: an offline checker over the recorded trace (ground-truth request log, executor runs, messages to race control and
to the requester, kernel stall flag) against a small reference model of the schedule.
"""
import json

from engines import race

ID = "C01"
LEVEL = "exploration"
RULE = (
    "seeded generator of tracks (1-5 schedule elements; sequential tasks and parallel elements with optional client cap / over-commit and "
    "completed-by name|any; iteration- and time-based tasks; 1-6 clients per task) x load-driver layouts (1-3 hosts x 1-4 cores) x service-time "
    "scripts x message-delay profiles (zero|small|heavy|adversarial), tie-breaking window, wake-up jitter, per-process clock offsets, test mode; "
    "non-trivial = at least two schedule elements or a parallel element; distinct = hash of the whole case"
)
ASSUMPTIONS = [
    "Thespian is modelled by engines/simactor.py: FIFO per sender/receiver pair, reliable delivery, retry-once-then-poison, wake-ups, exit propagation",
    "AsyncIoAdapter.__call__ (8 lines creating the loop) is replaced by the kernel's stepped virtual-time loop; AsyncIoAdapter.run() and everything below is real",
    "a race that makes no progress for 400 virtual seconds (only the driver's 1s housekeeping tick) is a stall; hitting the step / virtual-time budget is inconclusive",
    "tasks of an element with completed-by may be cut short or skipped (the statement only protects tasks of OTHER elements); the completing task itself must finish",
]
REQUIRED_CLAUSES = ["no-stall", "completes-exactly-once", "step-barrier", "every-allocation-runs-once", "iterations-not-cut-short", "completed-by-stops-others", "completed-by-ends-element", "complete-sent-at-most-once", "any-not-before-first-finish"]
OPTIONAL_CLAUSES = ["complete-not-lost"]
REQUIRED_FEATURES = {"idle-between-rows-shape": 5, "two-completed-by-elements-in-test-mode": 3, "throttled-completing-task-shape": 3, "parallel": 5, "completed-by-name": 3, "completed-by-any": 3, "over-commit": 3, "multi-host": 3, "multi-worker": 5, "adversarial-delays": 3, "empty-worker-cores": 2}
BUDGET = {"quick": {"cases": 900, "seconds": 34}, "thorough": {"cases": 20000, "seconds": 700}}
EPS = 1e-6


# ------------------------------------------------------------------------------------------------------------ generator
def gen_task(rng, name, role, unit_time):
    """role: normal | completing | long"""
    t = {"name": name, "clients": rng.choice([1, 1, 2, 2, 3, 4, 6])}
    base = unit_time * rng.choice([0.2, 1, 1, 3])
    if role == "long":
        if rng.random() < 0.6:
            t["warmup_time_period"], t["time_period"] = 0, rng.choice([600, 1500])
        else:
            t["warmup_iterations"], t["iterations"] = 0, rng.choice([300, 2000])
        base = max(base, 0.05)
    elif rng.random() < 0.75 or role == "completing":
        t["warmup_iterations"], t["iterations"] = rng.choice([0, 0, 1, 2]), rng.choice([1, 1, 2, 3, 6])
    else:
        t["warmup_time_period"], t["time_period"] = rng.choice([0, 0, 1]), rng.choice([1, 2, 8, 20])
        base = max(base, 0.05)
    if rng.random() < 0.25 and role != "long":
        t["target_throughput"] = rng.choice([1, 5, 50])
        if rng.random() < 0.4:
            t["schedule"] = "poisson"  # every client draws its own waiting times: the clients of a task finish at different times
    if role == "long" and "iterations" in t:
        t["iterations"] = max(60, min(t["iterations"], int(1500 / max(base, 0.01))))  # keep the natural end within ~1500 virtual seconds
    t["requests"] = [[{"wire": rng.choice([1, 1, 2])}]]
    t["svc"] = {"mode": rng.choice(["const", "const", "mixed", "per-client", "bursty"]), "base": base, "seed": rng.randint(0, 1 << 30), "spread": rng.choice([0.1, 1.0, 5.0])}
    return t


def gen_case(rng):
    nel = rng.choice([1, 2, 2, 3, 3, 4, 5])
    unit_time = rng.choice([0.01, 0.1, 0.5, 2.0, 12.0])  # service times from well below to well above the wake-up interval
    elements, n = [], 0
    for _ in range(nel):
        if rng.random() < 0.45:
            k = rng.choice([2, 2, 3, 4])
            cb = rng.choice([None, "name", "name", "any"])
            tasks = []
            completing = rng.randrange(k) if cb == "name" else None
            for i in range(k):
                role = "normal"
                if cb == "name":
                    role = "completing" if i == completing else rng.choice(["long", "long", "normal"])
                elif cb == "any":
                    role = rng.choice(["normal", "long"])
                tasks.append(gen_task(rng, f"t{n}", role, unit_time))
                n += 1
            if cb == "any" and all("time_period" in t and t["time_period"] >= 600 or t.get("iterations", 0) >= 300 for t in tasks):
                tasks[0] = gen_task(rng, tasks[0]["name"], "completing", unit_time)
            el = {"parallel": True, "tasks": tasks}
            if cb == "name":
                el["completed_by"] = tasks[completing]["name"]
            elif cb == "any":
                el["completed_by"] = "any"
            total = sum(t["clients"] for t in tasks)
            if rng.random() < 0.4:
                el["clients_cap"] = rng.randint(1, total + 1)
            elements.append(el)
        else:
            elements.append({"tasks": [gen_task(rng, f"t{n}", "normal", unit_time)]})
            n += 1
    window = rng.random() < 0.15
    if window:
        # Targeted shape: an over-committed completed-by element in which some clients run [short task, long task] in two rows
        # while the completed-by task runs on OTHER workers and ends while the first worker is idle between its two rows (its
        # executor is done, its next wake-up not yet delivered). Different wake-up phases come from message delays and jitter.
        a, b = rng.choice([1, 2]), rng.choice([1, 2])
        d = rng.choice([0.3, 1.0, 2.0])
        short = gen_task(rng, f"t{n}", "normal", d)
        short.update({"clients": a, "warmup_iterations": 0, "iterations": 1, "requests": [[{"wire": 1}]], "svc": {"mode": "const", "base": d, "seed": 1}})
        short.pop("warmup_time_period", None), short.pop("time_period", None), short.pop("target_throughput", None)
        comp = gen_task(rng, f"t{n + 1}", "completing", d)
        comp.update({"clients": b, "warmup_iterations": 0, "iterations": 1, "requests": [[{"wire": 1}]], "svc": {"mode": "const", "base": d + rng.choice([0.2, 1.0, 2.5, 4.0]), "seed": 1}})
        comp.pop("target_throughput", None)
        long_ = gen_task(rng, f"t{n + 2}", "long", 0.3)
        long_["clients"] = a
        n += 3
        elements.insert(rng.randrange(len(elements) + 1), {"parallel": True, "tasks": [short, comp, long_], "completed_by": comp["name"], "clients_cap": a + b})
    throttled = (not window) and rng.random() < 0.08
    if throttled:
        # Targeted shape: the completed-by task itself is throttled and has several clients in ONE worker that finish at different times
        # (Poisson schedule). Its first client to finish sets the worker's complete flag while the others wait for their next slot:
        # they must carry on until they have run all their iterations.
        comp = gen_task(rng, f"t{n}", "completing", 0.01)
        comp.update({"clients": rng.choice([2, 3]), "warmup_iterations": 0, "iterations": rng.choice([6, 10]), "target_throughput": rng.choice([2, 4]), "schedule": "poisson",
                     "requests": [[{"wire": 1}]], "svc": {"mode": "const", "base": 0.01, "seed": 1}})
        long_ = gen_task(rng, f"t{n + 1}", "long", 0.3)
        long_["clients"] = 1
        n += 2
        elements.insert(rng.randrange(len(elements) + 1), {"parallel": True, "tasks": [comp, long_], "completed_by": comp["name"]})
    twice = (not window) and (not throttled) and rng.random() < 0.06
    if twice:
        # Targeted shape: TWO completed-by elements in one schedule, run in test mode (no pause between the steps; long time periods are capped at
        # ten seconds): whatever the driver remembers about "told everybody to complete" has to be forgotten again for the second element
        for _ in range(2):
            comp = gen_task(rng, f"t{n}", "completing", 0.05)
            comp.update({"clients": rng.choice([1, 2]), "warmup_iterations": 0, "iterations": rng.choice([1, 2]), "requests": [[{"wire": 1}]], "svc": {"mode": "const", "base": 0.05, "seed": 1}})
            comp.pop("target_throughput", None), comp.pop("schedule", None)
            long_ = gen_task(rng, f"t{n + 1}", "long", 0.05)
            long_.update({"clients": rng.choice([1, 2]), "warmup_time_period": 0, "time_period": 600, "requests": [[{"wire": 1}]], "svc": {"mode": "const", "base": 0.05, "seed": 1}})
            long_.pop("warmup_iterations", None), long_.pop("iterations", None)
            n += 2
            elements.append({"parallel": True, "tasks": [comp, long_], "completed_by": comp["name"]})
    nhosts = rng.choice([1, 1, 1, 2, 3])
    case = {
        "elements": elements,
        "hosts": ["localhost"] + [f"10.0.0.{i + 2}" for i in range(nhosts - 1)],
        "cores": rng.choice([1, 2, 2, 3, 4]),
        "test_mode": rng.random() < 0.3,
        "delay": rng.choice(["zero", "small", "small", "heavy", "adversarial", "adversarial"]),
        "delay_scale": rng.choice([1.0, 1.0, 0.2, 3.0]),
        "epsilon": rng.choice([0.0, 0.0, 0.01, 0.5]),
        "wakeup_jitter": rng.choice([0.0, 0.0, 0.05, 1.0]),
        "clock_offsets": rng.random() < 0.8,
        "seed": rng.randint(0, 1 << 40),
    }
    if throttled:
        case["cores"], case["hosts"], case["test_mode"] = 1, ["localhost"], False
        case["throttled_completing_shape"] = True
    if twice:
        case["test_mode"], case["delay"], case["wakeup_jitter"] = True, rng.choice(["zero", "small"]), 0.0
        case["two_completed_by_elements_in_test_mode"] = True
    if window:
        case["cores"] = max(2, case["cores"])
        case["delay"] = rng.choice(["small", "heavy", "adversarial"])
        case["wakeup_jitter"] = rng.choice([0.05, 1.0, 1.0])
        case["test_mode"] = False
        case["window_shape"] = True
    return case


# ------------------------------------------------------------------------------------------------------------ reference
def element_clients(el):
    return el.get("clients_cap") or sum(t["clients"] for t in el["tasks"])


def loaded_elements(tr, case):
    """The schedule as rally loaded it (after test-mode rewriting and task filters), taken from the track object that the driver
    sent to the workers. Falls back to the generated case when no worker was ever started."""
    trk = getattr(tr, "loaded_track", None)
    if trk is None:
        return [
            {"clients": element_clients(el), "completed_by": el.get("completed_by"),
             "tasks": [{"name": t["name"], "clients": t["clients"], "iterations": t.get("iterations"), "warmup_iterations": t.get("warmup_iterations"),
                        "completes": el.get("completed_by") == t["name"], "any": el.get("completed_by") == "any"} for t in el["tasks"]]}
            for el in case["elements"]
        ]
    out = []
    for el in trk.selected_challenge_or_default.schedule:
        leafs = list(el)
        out.append({
            "clients": el.clients,
            "completed_by": "any" if any(t.any_completes_parent for t in leafs) else next((t.name for t in leafs if t.completes_parent), None),
            "tasks": [{"name": t.name, "clients": t.clients, "iterations": t.iterations, "warmup_iterations": t.warmup_iterations,
                       "completes": t.completes_parent, "any": t.any_completes_parent} for t in leafs],
        })
    # completed-by is what the track file says, not what the loader made of it: where the loaded schedule still has the elements that were
    # written (no task filter removed anything), the flags of the loaded tasks are replaced by the written ones - a loader that marks a task of
    # ANOTHER element as completing would otherwise excuse the cut it causes
    written = case["elements"]
    if len(out) == len(written) and all([t["name"] for t in o["tasks"]] == [t["name"] for t in w["tasks"]] for o, w in zip(out, written)):
        for o, w in zip(out, written):
            cb = w.get("completed_by")
            o["completed_by"] = cb
            for t in o["tasks"]:
                t["completes"], t["any"] = cb == t["name"], cb == "any"
    return out


def reference(elements):
    """Per element: the (task, index_in_task) pairs that must run, expected request counts, and which tasks may be cut."""
    max_clients = max([1] + [el["clients"] for el in elements])
    out = []
    for el in elements:
        cb = el["completed_by"]
        info = {"tasks": {}, "completed_by": cb}
        start = 0
        for t in el["tasks"]:
            may_cut = cb is not None and (cb == "any" or t["name"] != cb)
            expected = None
            if t["iterations"] is not None:
                expected = (t["warmup_iterations"] or 0) + t["iterations"]
            info["tasks"][t["name"]] = {"clients": t["clients"], "may_cut": may_cut, "requests_per_client": expected,
                                        "physical": [(i, (start + i) % max_clients) for i in range(t["clients"])],
                                        "rows": sorted({(start + i) // max_clients for i in range(t["clients"])}), "first_slot": start}
            start += t["clients"]
        info["over_commit"] = start > max_clients
        out.append(info)
    return out, max_clients


# ------------------------------------------------------------------------------------------------------------ checker
def check_trace(ctx, case, tr, problems, feats, expect_success=True):
    k = tr.kernel
    ctx.clause("no-stall")
    if tr.stalled:
        problems.append(("no-stall", f"race stalled: {tr.stall_reason}; last deliveries {[(round(d[0], 2), d[1], d[2]) for d in k.deliveries[-6:]]}", stall_detail(case, tr)))
        return
    if tr.budget:
        return
    if expect_success:
        ctx.clause("completes-exactly-once")
        n_complete = sum(1 for m in tr.to_racecontrol if m[1] == "BenchmarkComplete")
        n_success = sum(1 for d in k.deliveries if d[1] == "external" and d[2] == "Success")
        if n_complete != 1 or n_success != 1 or tr.exit_status != "SUCCESSFUL":
            problems.append(("completes-exactly-once", f"BenchmarkComplete x{n_complete}, Success to requester x{n_success}, exit status {tr.exit_status}, exception {tr.exception}, "
                             f"failures {[m for m in tr.to_racecontrol if m[1] in ('BenchmarkFailure', 'PoisonMessage')][:2]} console tail {tr.console[-300:]!r}", None))
            return
    elements = loaded_elements(tr, case)
    ref, max_clients = reference(elements)
    task_el = {}
    for i, el in enumerate(elements):
        for t in el["tasks"]:
            task_el[t["name"]] = i
    # --- requests per element
    log = [r for r in tr.sim.log if r["task"] in task_el]
    span = {}
    for r in log:
        e = task_el[r["task"]]
        end = r["vt_end"] if r["vt_end"] is not None else r["vt_start"]
        s = span.setdefault(e, [r["vt_start"], end, r, r])
        if r["vt_start"] < s[0]:
            s[0], s[2] = r["vt_start"], r
        if end > s[1]:
            s[1], s[3] = end, r
    els = sorted(span)
    for a, b in zip(els, els[1:]):
        ctx.clause("step-barrier")
        if span[b][0] < span[a][1] - EPS:
            x, y = span[b][2], span[a][3]
            problems.append(("step-barrier", f"client {x['client']} issued a request of {x['task']} (element {b}) at vt={x['vt_start']:.4f} while client {y['client']} was still "
                             f"running {y['task']} (element {a}) until vt={y['vt_end']:.4f}", None))
    # --- every allocation runs exactly once; iteration counts
    runs = {}
    for r in tr.rec.runs:
        runs.setdefault((r["task"], r["index_in_task"]), []).append(r)
    per_run_requests = {}
    for e in tr.rec.logical:
        per_run_requests[e["run"]] = per_run_requests.get(e["run"], 0) + 1
    run_index = {id(r): i for i, r in enumerate(tr.rec.runs)}
    for ei, info in enumerate(ref):
        for name, ti in info["tasks"].items():
            for idx, physical in ti["physical"]:
                got = runs.get((name, idx), [])
                ctx.clause("every-allocation-runs-once")
                if len(got) > 1:
                    problems.append(("every-allocation-runs-once", f"client index {idx} of task {name} was executed {len(got)} times", None))
                elif len(got) == 0 and not ti["may_cut"]:
                    row = (ti["first_slot"] + idx) // max_clients
                    detail = {"completing_task": info["completed_by"] == name, "task_rows": ti["rows"], "row": row, "over_commit": info["over_commit"],
                              "other_client_of_task_ran": any(runs.get((name, j)) for j, _ in ti["physical"])}
                    problems.append(("every-allocation-runs-once", f"client index {idx} of task {name} (element {ei}, row {row} of rows {ti['rows']}) never ran", detail))
                elif got and got[0]["client"] != physical:
                    problems.append(("every-allocation-runs-once", f"client index {idx} of task {name} ran on client {got[0]['client']}, allocated to client {physical}", None))
                if got and ti["requests_per_client"] is not None and not ti["may_cut"] and expect_success:
                    n = per_run_requests.get(run_index[id(got[0])], 0)
                    ctx.clause("iterations-not-cut-short")
                    if n != ti["requests_per_client"]:
                        problems.append(("iterations-not-cut-short", f"client index {idx} of task {name} (element {ei}, not subject to completed-by) executed {n} requests instead of {ti['requests_per_client']}", None))
    # --- completed-by: others stop once their worker was told to complete
    worker_of_client = {}
    for wid, clients in tr.workers.items():
        for c in clients:
            worker_of_client[c] = wid
    for ei, info in enumerate(ref):
        cb = info["completed_by"]
        if cb is None or ei not in span:
            continue
        lo, hi = span[ei][0], span[ei][1]
        next_start = min((span[e][0] for e in span if e > ei), default=float("inf"))
        ccts = [d for d in tr.cct if d[4] == ei]
        per_worker, lost = {}, {}
        for vt, wid, at_jp, start_driving, _ in ccts:
            if at_jp and start_driving:
                lost.setdefault(wid, []).append(vt)  # arrived between Drive and the wake-up that starts this element: rally ignores it
            elif not at_jp:
                per_worker.setdefault(wid, []).append(vt)
        all_per_worker = {}
        for vt, wid, _, _, _ in ccts:
            all_per_worker.setdefault(wid, []).append(vt)
        if cb == "any" and ccts:
            # 'any': the element ends when the FIRST TASK TO FINISH is done - not before any task has finished
            el_ends = [r["vt_end"] for r in tr.rec.runs if task_el.get(r["task"]) == ei and r["vt_end"] is not None]
            first_cct = min(d[0] for d in ccts)
            ctx.clause("any-not-before-first-finish")
            if not el_ends or first_cct < min(el_ends) - EPS:
                tasks_here = {t for t in info["tasks"]}
                idle = [wid for wid, clients in tr.workers.items() if not any(phys in clients for ti in info["tasks"].values() for _, phys in ti["physical"])]
                problems.append(("any-not-before-first-finish", f"element {ei} (completed-by any): CompleteCurrentTask was delivered at vt={first_cct:.4f} although no task of the element had finished yet "
                                 f"(first finish at {min(el_ends) if el_ends else None}); workers without any task in this element: {idle}", {"idle_workers_exist": bool(idle)}))
        ctx.clause("complete-sent-at-most-once")
        if any(len(v) > 1 for v in all_per_worker.values()):
            problems.append(("complete-sent-at-most-once", f"element {ei}: CompleteCurrentTask delivered {max(len(v) for v in all_per_worker.values())} times to one worker within one step", None))
        for wid, vts in lost.items():
            ctx.clause("complete-not-lost")
            after = [e for e in tr.rec.logical if task_el.get(e["task"]) == ei and info["tasks"][e["task"]]["may_cut"] and worker_of_client.get(e["client"]) == wid and e["vt_begin"] > vts[0]]
            if after and wid not in per_worker:
                problems.append(("complete-not-lost", f"element {ei}: worker {wid} was told to complete at vt={vts[0]:.4f} while it waited at the join point for its (delayed) start; it ignored the "
                                 f"request and then ran {len(after)} requests of {sorted({e['task'] for e in after})} to their natural end", {"lost_cct_at_joinpoint_with_pending_start": True}))
        # After its worker was told, a client may finish the request in flight and - because the executor only looks at the flag
        # after a request - issue at most ONE further request (e.g. the one it was waiting to send while throttled).
        late = {}
        for e in tr.rec.logical:
            if task_el.get(e["task"]) != ei or not info["tasks"][e["task"]]["may_cut"]:
                continue
            wid = worker_of_client.get(e["client"])
            told = min(per_worker.get(wid, [float("inf")]))
            ctx.clause("completed-by-stops-others")
            if e["vt_begin"] > told + EPS:
                late.setdefault((e["client"], e["task"], e["run"]), []).append(e["vt_begin"])
        for (client, task, _), begins in late.items():
            if len(begins) > 1:
                wid = worker_of_client.get(client)
                told = min(per_worker.get(wid, [float("inf")]))
                problems.append(("completed-by-stops-others", f"element {ei}: client {client} began {len(begins)} further requests of {task} (at vt={begins[0]:.4f}, {begins[1]:.4f}, ...) although its "
                                 f"worker {wid} was told to complete the current task at vt={told:.4f}", None))
                break
        # --- the element really ends once the completing task is done (bounded progress in virtual time)
        el_runs = [r for r in tr.rec.runs if task_el.get(r["task"]) == ei and r["vt_end"] is not None]
        done_runs = [r for r in el_runs if (cb == "any" or r["task"] == cb)]
        if done_runs:
            t_done = min(r["vt_end"] for r in done_runs) if cb == "any" else max(r["vt_end"] for r in done_runs)
            wake = 0.5 if case.get("test_mode") else 5.0
            s_max = max([e.get("vt_finish", e["vt_begin"]) - e["vt_begin"] for e in tr.rec.logical if task_el.get(e["task"]) == ei] + [0.0])  # longest logical request
            bound = 3 * wake + 3 + 6 * k.max_delay + 3 * s_max + 3 * case.get("wakeup_jitter", 0.0) + 2.0
            run_index = {id(r): i for i, r in enumerate(tr.rec.runs)}
            for r in el_runs:
                if not info["tasks"][r["task"]]["may_cut"]:
                    continue
                ctx.clause("completed-by-ends-element")
                # a throttled client may sleep until its next slot - with a Poisson schedule for any length of time - and, because the executor looks
                # at the flag only after a request, then issues that ONE request before it stops: only a second request begun after the bound shows
                # that the client carried on
                beyond = [e for e in tr.rec.logical if e["run"] == run_index[id(r)] and e["vt_begin"] > t_done + bound]
                if r["vt_end"] > t_done + bound and len(beyond) >= 2:
                    wid = worker_of_client.get(r["client"])
                    problems.append(("completed-by-ends-element", f"element {ei}: {cb!r} was done at vt={t_done:.3f} but client {r['client']} (worker {wid}) kept running {r['task']} until "
                                     f"vt={r['vt_end']:.3f} (bound {bound:.1f}s: wake-ups, message delays, requests in flight)", {"worker_had_lost_cct": wid in lost}))
                    break
        if info["over_commit"]:
            feats.add("over-commit")
    return


def stall_detail(case, tr):
    """Witness features for the mechanism classifier."""
    k = tr.kernel
    workers = {}
    for rec in k.recs.values():
        if rec.cls is not None and rec.cls.__name__ == "Worker" and rec.inst is not None:
            w = rec.inst
            try:
                at_jp = w.client_allocations.is_joinpoint(w.current_task_index) if w.client_allocations else None
            except Exception:
                at_jp = None
            workers[str(w.worker_id)] = {
                "current_task_index": w.current_task_index, "complete_set": w.complete.is_set(), "at_joinpoint": at_jp,
                "executor_future": None if w.executor_future is None else ("done" if w.executor_future.done() else "running"),
                "start_driving": w.start_driving,
            }
    return {"workers": workers, "skip_logged": getattr(tr, "skip_logged", 0)}


def instrument(k, tr):
    """C01-specific observation: worker layout, CompleteCurrentTask deliveries, logical request begin times."""
    tr.workers = {}
    tr.loaded_track = None
    tr.cct = []
    tr.drives = {}
    tr.worker_addr = {}

    def observer(kernel, r, msg, sender):
        n = type(msg).__name__
        if n == "StartWorker":
            tr.loaded_track = msg.track
            tr.workers[msg.worker_id] = [a["client_id"] for a in msg.client_allocations.allocations]
            tr.worker_addr[r.addr.n] = msg.worker_id
        elif n == "Drive":
            wid = tr.worker_addr.get(r.addr.n)
            tr.drives[wid] = tr.drives.get(wid, 0) + 1
        elif n == "CompleteCurrentTask":
            w = r.inst
            try:
                at_jp = bool(w.at_joinpoint())
            except Exception:
                at_jp = None
            wid = tr.worker_addr.get(r.addr.n)
            # FIFO with Drive: a CompleteCurrentTask that arrives after the k-th Drive belongs to schedule element k-1
            tr.cct.append((kernel.clock.now, wid, at_jp, bool(w.start_driving), tr.drives.get(wid, 0) - 1))

    k.observers.append(observer)
    return lambda: None


def finish_trace(tr):
    tr.rec.logical_begin = {(e["client"], e["task"], e["ordinal"]): e["vt_begin"] for e in tr.rec.logical}


def features_of(case):
    f = set()
    for el in case["elements"]:
        if el.get("parallel"):
            f.add("parallel")
        if el.get("completed_by") == "any":
            f.add("completed-by-any")
        elif el.get("completed_by"):
            f.add("completed-by-name")
        if el.get("clients_cap") and el["clients_cap"] < sum(t["clients"] for t in el["tasks"]):
            f.add("client-cap")
    if len(case["hosts"]) > 1:
        f.add("multi-host")
    if case["delay"] == "adversarial":
        f.add("adversarial-delays")
    if case["test_mode"]:
        f.add("test-mode")
    if case.get("window_shape"):
        f.add("idle-between-rows-shape")
    if case.get("two_completed_by_elements_in_test_mode"):
        f.add("two-completed-by-elements-in-test-mode")
    if case.get("throttled_completing_shape"):
        f.add("throttled-completing-task-shape")
    return f


def one_case(ctx, rng, explicit=None):
    case = explicit or gen_case(rng)
    feats = features_of(case)
    import time as _t

    case = dict(case, wall_deadline=_t.monotonic() + max(15.0, ctx.time_left() + 10.0))
    tr = race.run_race(case, ctx.scratch, instrument=instrument)
    case.pop("wall_deadline")
    finish_trace(tr)
    problems = []
    if tr.budget:
        ctx.feature("budget-exceeded")
        ctx.case(case, False, ())
        if ctx.features["budget-exceeded"] > max(3, ctx.evaluations // 20):
            ctx.mark_inconclusive(f"{ctx.features['budget-exceeded']} races exceeded the step / virtual-time budget")
        return problems
    check_trace(ctx, case, tr, problems, feats)
    if len(tr.workers) > 1:
        feats.add("multi-worker")
    max_clients = max([1] + [element_clients(el) for el in case["elements"]])
    if max_clients < case["cores"] * len(case["hosts"]):
        feats.add("empty-worker-cores")
    ctx.distinct("delivery-order-fingerprints", repr(tr.fingerprint))
    ctx.case(case, len(case["elements"]) > 1 or any(el.get("parallel") for el in case["elements"]), feats)
    if len(case["elements"]) <= 2 and len(tr.sim.log) < 40:
        ctx.sample({"case": slim(case), "observed": {"requests": len(tr.sim.log), "workers": tr.workers, "virtual_seconds": round(tr.kernel.clock.now, 2),
                                                      "kernel_steps": tr.kernel.steps, "to_race_control": [m[1] for m in tr.to_racecontrol]}},
                   tag="+".join(sorted(feats & {"parallel", "completed-by-name", "completed-by-any", "multi-host"})) or "sequential")
    seen = {}
    for clause, msg, detail in problems:
        key = (clause, classify({"clause": clause, "witness": {"detail": detail}}))
        seen[key] = seen.get(key, 0) + 1
        if seen[key] <= 1:  # one witness per (clause, mechanism) and case; every mechanism is reported
            ctx.violation(clause, {"case": case, "detail": detail}, msg)
    return problems


def slim(case):
    c = json.loads(json.dumps(case))
    for el in c["elements"]:
        for t in el["tasks"]:
            t.pop("requests", None)
    return c


def run_shard(ctx):
    i = 0
    while ctx.more():
        one_case(ctx, ctx.case_rng(i))
        i += 1


def classify(v):
    d = (v.get("witness") or {}).get("detail") or {}
    if v["clause"] == "every-allocation-runs-once" and d.get("completing_task") and d.get("over_commit") and len(d.get("task_rows", [])) >= 2 and d.get("row", 0) > d["task_rows"][0] and d.get("other_client_of_task_ran"):
        # a client of the completed-by task that sits in a later row of an over-committed element than another client of the same task
        return "completing-task-clients-in-later-rows-skipped"
    if v["clause"] == "any-not-before-first-finish" and d.get("idle_workers_exist"):
        return "completed-by-any-triggered-by-idle-worker"
    if v["clause"] == "completed-by-ends-element" and d.get("worker_had_lost_cct"):
        return "complete-current-task-ignored-between-drive-and-start"
    if v["clause"] == "complete-not-lost" and d.get("lost_cct_at_joinpoint_with_pending_start"):
        return "complete-current-task-ignored-between-drive-and-start"
    return None


def replay(ctx, rec):
    one_case(ctx, None, explicit=rec["witness"]["case"])


MANIFEST = {
    "text": "Exploration: hundreds (quick) to tens of thousands (thorough) of complete simulated races - rally's real CLI, race control, mechanic, driver, "
    "track-preparation and worker actors on a deterministic actor kernel with seeded message delays/orders, real executors on virtual-time loops, a simulated "
    "Elasticsearch - each checked offline against a reference model of the schedule: step barrier on the ground-truth request log, every allocation runs exactly "
    "once, iteration counts of tasks outside completed-by elements, exactly one completion, CompleteCurrentTask at most once per step and obeyed, a completed-by element ends within a bound after its completing task (a client counts as carrying on when it begins two more requests after the bound), no stall. Targeted shapes: idle between rows, throttled completing task, two completed-by elements in test mode.",
    "note": "The completed-by flags of the reference are those written in the schedule, not those of the loaded track. Holds for the interleavings the Thespian model produces (FIFO per pair, reliable delivery); transports, message loss and admin restarts are outside the model.",
    "technique": "runtime monitor: offline trace checker (request log + actor message history) against a schedule reference model, over seeded actor-message interleavings in virtual time",
    "engines": ["vclock", "simactor", "simes", "race"],
    "engine": "race",
}
