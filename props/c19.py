"""C19 - fast-path response parsing agrees with full JSON parsing.

Monitor: generated Elasticsearch-shaped responses (bulk, search, scroll, composite-agg pages) are rendered to bytes
and handed to the REAL code: runner.parse, BulkIndex (fast and detailed path, through __call__), SearchAfterExtractor,
CompositeAggExtractor and the paginated Query runner paths (driven end-to-end against a stub client that serves the
pages and records every request). The oracle is json.loads of the same bytes plus small reference extractors/folds.
Responses come in classes (layout, key order, hostile mechanisms) so that every finding is keyed by its mechanism and
the canonical Elasticsearch shape is required to be violation-free.
"""
import asyncio
import copy
import io
import json
import logging
from decimal import Decimal

from esrally.driver import runner

from props import c19_gen as G

ID = "C19"
LEVEL = "exploration"
RULE = (
    "seeded generator of response sequences by kind (paginated-search, composite-agg, scroll-search, search, bulk, direct parse) x "
    "layout (compact / spaced / pretty / Jackson-pretty; ascii-escaped or raw UTF-8) x key order (canonical ES order / shuffled) x "
    "hostile-mechanism profile; a case is non-trivial when it holds >= 1 hit, bucket or bulk item; distinct = hash of (kind, params, rendered texts)"
)
ASSUMPTIONS = [
    "json.loads of the same bytes is the reference parser; numbers are compared numerically (ijson yields Decimal for non-integers)",
    "responses are well-formed JSON without duplicate keys and without lone surrogates; property paths handed to parse() are unambiguous "
    "(no dotted key collides with them) and do not pass through arrays",
    "a bulk item counts as failed under Elasticsearch's notion (it carries an `error`) or under Rally's documented per-item criterion "
    "(status > 299 or _shards.failed > 0); where the two notions differ the oracle only demands that each path follows one of them and that both paths agree",
    "success-count may be undetermined (None) on the fast path when the unit is not docs and no error is reported (docs/track.rst)",
    "termination is judged only as far as it follows from extracted values and docs/track.rst: never more than `pages` pages; a paginated search does not stop "
    "while hits/size says results remain and issues at most one request after that; a scroll stops at an empty page and may stop once all announced hits were read; "
    "a composite-agg goes on exactly while an after_key is returned",
    "classes: a search page is 'canonical' when, judged from its text, no other \"sort\" token follows the last hit's sort key, no string sort value of the last hit "
    "holds ']' and the key is directly followed by ':'; the classifier cannot match such a page, so the canonical class (sa:/ca:/bulk:canonical) must be violation-free",
    "the stub client serves the generated pages in order (an empty page beyond them) - no virtual clock, no timing in any verdict",
]
REQUIRED_CLAUSES = [
    "parse-props", "parse-lists", "parse-objects",
    "cursor-is-last-sort", "extractor-props", "next-request-cursor", "pit-id-propagated", "next-invocation-starts-over",
    "after-key", "next-request-after",
    "paginated-run", "composite-run", "scroll-run", "page-accounting", "hits-total", "took-sum", "timed-out-any", "pages-retrieved",
    "scroll-id", "scroll-stops-on-empty-page", "search-detailed",
    "bulk-run", "bulk-counts-vs-items", "bulk-paths-agree", "bulk-took", "bulk-ops-histogram", "bulk-error-description",
]
REQUIRED_FEATURES = {
    "sa:canonical": 300, "sa:shuffled-clean": 50, "sa:bracket-in-last-sort": 50, "sa:later-sort-token": 100, "sa:space-before-colon": 30,
    "sa:cfg:inner-hits-sorted": 20, "sa:cfg:top-hits-sorted": 20, "sa:cfg:source-sort-shuffled": 20, "sa:cfg:value-token": 20, "sa:cfg:fat-tail-after-last-sort": 10, "sa:cfg:very-fat-tail-after-last-sort": 3,
    "ca:canonical": 200, "ca:after-key-null": 50, "ca:float": 50, "ca:nested-path": 50,
    "bulk:canonical": 300, "bulk:errors": 100, "bulk:errors-false-but-failed-item": 50, "bulk:error-string": 20, "bulk:unit-not-docs": 20,
    "scroll:es6-total": 10, "big-response": 5, "layout:pretty": 100, "layout:compact": 1000, "order:shuffled": 300, "raw-utf8": 300,
}
BUDGET = {
    "quick": {"cases": 96000, "seconds": 32},
    "thorough": {"cases": 4800000, "seconds": 540},
}

CURSOR_CLAUSES = ("cursor-is-last-sort", "next-request-cursor", "paginated-run")
AFTER_CLAUSES = ("after-key", "next-request-after", "parse-objects")
BULK_FAST_CLAUSES = ("bulk-paths-agree",)


# ---------------------------------------------------------------- comparison helpers
def same(a, b):
    if isinstance(a, bool) or isinstance(b, bool):
        return isinstance(a, bool) and isinstance(b, bool) and a == b
    num = (int, float, Decimal)
    if isinstance(a, num) and isinstance(b, num):
        if isinstance(a, int) and isinstance(b, int):
            return a == b
        try:
            return float(a) == float(b)
        except OverflowError:
            return False
    if isinstance(a, dict) and isinstance(b, dict):
        return a.keys() == b.keys() and all(same(a[k], b[k]) for k in a)
    if isinstance(a, (list, tuple)) and isinstance(b, (list, tuple)):
        return len(a) == len(b) and all(same(x, y) for x, y in zip(a, b))
    return type(a) is type(b) and a == b


def has_decimal(o):
    if isinstance(o, dict):
        return any(has_decimal(v) for v in o.values())
    if isinstance(o, (list, tuple)):
        return any(has_decimal(v) for v in o)
    return isinstance(o, Decimal)


def plain(o):
    """Decimal -> int/float so that witnesses survive JSON."""
    if isinstance(o, Decimal):
        return int(o) if o == o.to_integral_value() and "E" not in str(o) and "." not in str(o) else float(o)
    if isinstance(o, dict):
        return {str(k): plain(v) for k, v in o.items()}
    if isinstance(o, (list, tuple)):
        return [plain(v) for v in o]
    return o


def outcome_of(fn):
    try:
        return {"value": fn()}
    except Exception as e:  # the exception is the observation
        return {"exception": type(e).__name__, "detail": str(e)[:160]}


class Null:
    def clause(self, *a, **k):
        pass


# ---------------------------------------------------------------- reference extractors (from the statement / ES response format)
def ref_total(doc):
    t = doc["hits"]["total"]
    return (t["value"], t["relation"]) if isinstance(t, dict) else (t, "eq")


def ref_last_sort(doc):
    hits = doc["hits"]["hits"]
    if hits and "sort" in hits[-1]:
        return True, hits[-1]["sort"]
    return False, None


def ref_after_key(doc, path):
    node = doc.get("aggregations", {})
    for p in path:
        node = node.get(p, {}) if isinstance(node, dict) else {}
    return node.get("after_key") if isinstance(node, dict) else None


def item_failed_es(data):
    return "error" in data


def item_failed_rally(data):
    return data["status"] > 299 or ("_shards" in data and data["_shards"]["failed"] > 0)


def ref_bulk(doc):
    items = [next(iter(it.items())) for it in doc["items"]]
    n = len(items)
    fe = sum(1 for _, d in items if item_failed_es(d))
    fr = sum(1 for _, d in items if item_failed_rally(d))
    ops = {}
    hist = {}
    for op, d in items:
        o = ops.setdefault(op, {"item-count": 0})
        o["item-count"] += 1
        if "result" in d:
            o[d["result"]] = o.get(d["result"], 0) + 1
        if "_shards" in d:
            s = d["_shards"]
            k = (s["total"], s["successful"], s["failed"])
            hist[k] = hist.get(k, 0) + 1
    return {"n": n, "failed_es": fe, "failed_rally": fr, "ops": ops, "hist": hist, "took": doc.get("took"), "errors": doc.get("errors")}


# ---------------------------------------------------------------- stub client
class Runaway(Exception):
    pass


class StubES:
    def __init__(self, pages, filler, parsed_bulk=None):
        self.pages = pages
        self.filler = filler
        self.requests = []
        self.cleared = []
        self.raw = False
        self.parsed_bulk = parsed_bulk
        self.cap = len(pages) + 3

    def options(self, **kw):
        return self

    def return_raw_response(self):
        self.raw = True

    async def perform_request(self, *, method, path, params=None, body=None, headers=None):
        i = len(self.requests)
        if i >= self.cap:
            raise Runaway(f"request {i + 1} although only {len(self.pages)} pages exist")
        self.requests.append({"path": path, "body": copy.deepcopy(body), "params": dict(params) if params else params})
        return io.BytesIO(self.pages[i] if i < len(self.pages) else self.filler)

    async def clear_scroll(self, body=None, **kw):
        self.cleared.append(body)

    async def bulk(self, **kw):
        self.requests.append(kw)
        return io.BytesIO(self.pages[0]) if self.raw else self.parsed_bulk


_LOOP = None


def run(coro):
    global _LOOP
    if _LOOP is None:
        _LOOP = asyncio.new_event_loop()
    return _LOOP.run_until_complete(coro)


async def _run_query(stub, params, pit_op, pit0):
    q = runner.Query()
    async with runner.CompositeContext():
        if pit_op:
            runner.CompositeContext.put(pit_op, pit0)
        async with q:
            res = await q(stub, params)
        final_pit = runner.CompositeContext.get(pit_op) if pit_op else None
    return res, final_pit


async def _run_bulk(stub, params):
    b = runner.BulkIndex()
    async with b:
        return await b(stub, params)


# ---------------------------------------------------------------- page classes (computed from the text, not from the generator's intent)
def page_flags(text, pos, exp):
    flags = set()
    if pos >= 0:
        if text.rfind('"sort"') != pos:
            flags.add("later-sort-token")
        if text[pos + 6:pos + 7] != ":":
            flags.add("space-before-colon")
        if any(isinstance(v, str) and "]" in v for v in (exp or [])):
            flags.add("bracket-in-last-sort")
    return flags


def loads(pg):
    return json.loads(pg["text"].encode("utf-8"))


def raw(pg):
    return pg["text"].encode("utf-8")


FILLER_SEARCH = b'{"pit_id":"filler-pit","took":1,"timed_out":false,"_shards":{"total":1,"successful":1,"skipped":0,"failed":0},"hits":{"total":{"value":0,"relation":"eq"},"max_score":null,"hits":[]}}'


# ---------------------------------------------------------------- monitors
def check_accounting(sink, add, result, served, n_requests, first_doc):
    """hits / pages / took / timed_out of a paginated result against a fold over the pages that were served."""
    sink.clause("page-accounting")
    if not (result.get("pages") == n_requests and result.get("weight") == n_requests and result.get("unit") == "pages"):
        add("page-accounting", f"pages={result.get('pages')!r} weight={result.get('weight')!r} unit={result.get('unit')!r} but {n_requests} pages were requested and served", {})
    tv, tr = ref_total(first_doc)
    sink.clause("hits-total")
    if not (same(result.get("hits"), tv) and result.get("hits_relation") == tr):
        add("hits-total", f"hits={result.get('hits')!r}/{result.get('hits_relation')!r} but the first page says {tv!r}/{tr!r}", {"expected": [tv, tr], "outcome": {"value": [plain(result.get("hits")), result.get("hits_relation")]}})
    sink.clause("took-sum")
    took = sum(d["took"] for d in served)
    if not same(result.get("took"), took):
        add("took-sum", f"took={result.get('took')!r} but the served pages sum to {took}", {"expected": took, "outcome": {"value": plain(result.get("took"))}})
    sink.clause("timed-out-any")
    to = any(d["timed_out"] for d in served)
    if result.get("timed_out") is not to:
        add("timed-out-any", f"timed_out={result.get('timed_out')!r} but any(page.timed_out)={to}", {"expected": to, "outcome": {"value": plain(result.get("timed_out"))}})


def check_paginated(sink, case):
    problems = []
    pages, P = case["pages"], case["params"]
    docs = [loads(p) for p in pages]
    pit, size = P["pit"], P["size"]

    def add(clause, msg, extra):
        problems.append((clause, msg, extra))

    ex = runner.SearchAfterExtractor()
    total0 = ref_total(docs[0])
    direct = []
    for k, (pg, doc) in enumerate(zip(pages, docs)):
        ht = None if k == 0 else total0[0]
        box = {}

        def call():
            box["parsed"], cur = ex(io.BytesIO(raw(pg)), pit, ht)
            return cur

        out = outcome_of(call)
        direct.append(out)
        has, exp = ref_last_sort(doc)
        if has:
            sink.clause("cursor-is-last-sort")
            if "exception" in out or not same(out["value"], exp):
                add("cursor-is-last-sort", f"page {k}: cursor {short(out)} but the last hit's sort is {json.dumps(exp)[:120]}", {"page": k, "expected": exp, "outcome": plain(out)})
            elif has_decimal(out["value"]):
                # the cursor is decoded with the json module, not with ijson: it is the very value a full parse gives (type included), and what goes
                # into the next request body as it is
                add("cursor-is-last-sort", f"page {k}: cursor {out['value']!r} is not the plain JSON value {json.dumps(exp)[:120]} a full parse gives", {"page": k, "expected": exp, "outcome": plain(out)})
        if "parsed" in box:
            parsed = box["parsed"]
            sink.clause("extractor-props")
            want = {"took": doc["took"], "timed_out": doc["timed_out"]}
            if pit:
                want["pit_id"] = doc["pit_id"]
            if k == 0:
                want["hits.total.value"], want["hits.total.relation"] = total0
            else:
                want["hits.total.value"] = ht
            bad = {key: plain(parsed.get(key)) for key in want if not same(parsed.get(key), want[key])}
            if bad:
                add("extractor-props", f"page {k}: extractor returned {bad} where full parsing gives { {key: want[key] for key in bad} }", {"page": k, "expected": want, "outcome": {"value": bad}})
    # end to end through the real Query runner
    stub = StubES([raw(p) for p in pages], FILLER_SEARCH)
    params = {
        "name": "paginated", "index": "idx", "operation-type": "paginated-search", "pages": P["pages"], "results-per-page": size,
        "body": {"sort": [{"timestamp": "asc"}], "query": {"match_all": {}}},
    }
    if pit:
        params["with-point-in-time-from"] = "open-pit"
    res = outcome_of(lambda: run(_run_query(stub, params, "open-pit" if pit else None, P.get("pit0"))))
    n = len(stub.requests)
    served = docs[:n] + [json.loads(FILLER_SEARCH)] * max(0, n - len(docs))
    sink.clause("paginated-run")
    if "exception" in res:
        k = min(n, len(pages)) - 1
        has, exp = ref_last_sort(docs[k]) if k >= 0 else (False, None)
        add("paginated-run", f"the paginated search failed on page {k} with {res['exception']}: {res['detail']}", {"page": k, "expected": exp, "outcome": res})
        return problems
    result, final_pit = res["value"]
    check_accounting(sink, add, result, served, n, docs[0])
    for k in range(1, n):
        has, exp = ref_last_sort(served[k - 1])
        if has and k - 1 < len(pages):
            sink.clause("next-request-cursor")
            got = stub.requests[k]["body"].get("search_after", "<absent>")
            if not same(got, exp):
                add("next-request-cursor", f"request {k} carries search_after={json.dumps(plain(got))[:120]} but the last hit of page {k - 1} has sort {json.dumps(exp)[:120]}", {"page": k - 1, "expected": exp, "outcome": {"value": plain(got)}})
    if pit:
        sink.clause("pit-id-propagated")
        sent = [r["body"].get("pit", {}).get("id") for r in stub.requests]
        want = [P["pit0"]] + [d.get("pit_id") for d in served[: n - 1]]
        if sent != want or final_pit != served[n - 1].get("pit_id"):
            add("pit-id-propagated", f"pit ids sent {sent} / kept {final_pit!r}, expected {want} / {served[n - 1].get('pit_id')!r}", {"expected": want, "outcome": {"value": sent}})
    if not problems:
        # the schedule hands the SAME params dict (and body) to every invocation of the operation (SearchParamSource.params() returns one object):
        # the next invocation has no last hit yet, its first request carries no cursor - also when this one ended at its page limit
        stub2 = StubES([raw(p) for p in pages], FILLER_SEARCH)
        res2 = outcome_of(lambda: run(_run_query(stub2, params, "open-pit" if pit else None, P.get("pit0"))))
        sink.clause("next-invocation-starts-over")
        if "exception" not in res2 and stub2.requests:
            got = stub2.requests[0]["body"].get("search_after", "<absent>")
            if got != "<absent>":
                add("next-invocation-starts-over", f"the first request of the NEXT invocation (same params, {n} of {len(pages)} pages retrieved before, pages={P['pages']}) carries search_after={json.dumps(plain(got))[:120]}",
                    {"page": -1, "expected": None, "outcome": {"value": plain(got)}, "limit_reached": P["pages"] != "all"})
    sink.clause("pages-retrieved")
    tv = total0[0]
    limit = 10**9 if P["pages"] == "all" else int(P["pages"])
    need = min(limit, max(1, -(-tv // size)))  # not fewer (results remain), not beyond `pages`, at most one request after the results are exhausted
    if not (need <= n <= min(limit, need + 1)):
        add("pages-retrieved", f"{n} pages retrieved; hits={tv}, size={size}, pages={P['pages']} => {need}", {"expected": need, "outcome": {"value": n}})
    return problems


def composite_of(body, path):
    node = body
    for p in path:
        node = (node.get("aggs") or node.get("aggregations"))[p]
    return node["composite"]


def filler_composite(path):
    node = {"buckets": []}
    for name in reversed(path[1:]):
        node = {"doc_count": 0, name: node}
    d = json.loads(FILLER_SEARCH)
    d["aggregations"] = {path[0]: node}
    return json.dumps(d).encode()


def check_composite(sink, case):
    problems = []
    pages, P = case["pages"], case["params"]
    docs = [loads(p) for p in pages]
    pit, size, path = P["pit"], P["size"], P["path"]

    def add(clause, msg, extra):
        problems.append((clause, msg, extra))

    ex = runner.CompositeAggExtractor()
    total0 = ref_total(docs[0])
    for k, (pg, doc) in enumerate(zip(pages, docs)):
        ht = None if k == 0 else total0[0]
        out = outcome_of(lambda: ex(io.BytesIO(raw(pg)), pit, list(path), ht))
        exp = ref_after_key(doc, path)
        sink.clause("after-key")
        if "exception" in out:
            add("after-key", f"page {k}: extractor raised {out['exception']}: {out['detail']}", {"page": k, "expected": exp, "outcome": out})
            continue
        parsed = out["value"]
        if not same(parsed.get("after_key"), exp):
            add("after-key", f"page {k}: after_key {json.dumps(plain(parsed.get('after_key')))[:120]} but full parsing gives {json.dumps(exp)[:120]}", {"page": k, "expected": exp, "outcome": {"value": plain(parsed.get("after_key"))}})
        sink.clause("extractor-props")
        want = {"took": doc["took"], "timed_out": doc["timed_out"]}
        if pit:
            want["pit_id"] = doc["pit_id"]
        if k == 0:
            want["hits.total.value"], want["hits.total.relation"] = total0
        else:
            want["hits.total.value"] = ht
        bad = {key: plain(parsed.get(key)) for key in want if not same(parsed.get(key), want[key])}
        if bad:
            add("extractor-props", f"page {k}: extractor returned {bad} where full parsing gives { {key: want[key] for key in bad} }", {"page": k, "expected": want, "outcome": {"value": bad}})
    filler = filler_composite(path)
    stub = StubES([raw(p) for p in pages], filler)
    params = {"name": "composite", "index": "idx", "operation-type": "composite-agg", "pages": P["pages"], "results-per-page": size, "body": G.composite_body(path, P["names"])}
    if pit:
        params["with-point-in-time-from"] = "open-pit"
    res = outcome_of(lambda: run(_run_query(stub, params, "open-pit" if pit else None, P.get("pit0"))))
    n = len(stub.requests)
    served = docs[:n] + [json.loads(filler)] * max(0, n - len(docs))
    sink.clause("composite-run")
    if "exception" in res:
        k = min(n, len(pages)) - 1
        add("composite-run", f"the composite-agg run failed on page {k} with {res['exception']}: {res['detail']}", {"page": k, "expected": None, "outcome": res})
        return problems
    result, final_pit = res["value"]
    check_accounting(sink, add, result, served, n, docs[0])
    first = outcome_of(lambda: composite_of(stub.requests[0]["body"], path).get("after", "<absent>"))
    if first != {"value": "<absent>"}:
        add("next-request-after", f"the first request already carries after={short(first)}", {"page": -1, "expected": None, "outcome": plain(first)})
    for k in range(1, n):
        exp = ref_after_key(served[k - 1], path)
        sink.clause("next-request-after")
        got = outcome_of(lambda: composite_of(stub.requests[k]["body"], path).get("after", "<absent>"))
        if "exception" in got or not same(got["value"], exp):
            add("next-request-after", f"request {k} carries after={short(got)} but page {k - 1} returned after_key {json.dumps(exp)[:120]}", {"page": k - 1, "expected": exp, "outcome": plain(got)})
    if pit:
        sink.clause("pit-id-propagated")
        sent = [r["body"].get("pit", {}).get("id") for r in stub.requests]
        want = [P["pit0"]] + [d.get("pit_id") for d in served[: n - 1]]
        if sent != want or final_pit != served[n - 1].get("pit_id"):
            add("pit-id-propagated", f"pit ids sent {sent} / kept {final_pit!r}, expected {want} / {served[n - 1].get('pit_id')!r}", {"expected": want, "outcome": {"value": sent}})
    if not problems:
        stub2 = StubES([raw(p) for p in pages], filler)
        res2 = outcome_of(lambda: run(_run_query(stub2, params, "open-pit" if pit else None, P.get("pit0"))))
        sink.clause("next-invocation-starts-over")
        if "exception" not in res2 and stub2.requests:
            got = outcome_of(lambda: composite_of(stub2.requests[0]["body"], path).get("after", "<absent>"))
            if got != {"value": "<absent>"}:
                add("next-invocation-starts-over", f"the first request of the NEXT invocation (same params, {n} of {len(pages)} pages retrieved before, pages={P['pages']}) carries after={short(got)}",
                    {"page": -1, "expected": None, "outcome": plain(got), "limit_reached": P["pages"] != "all"})
    sink.clause("pages-retrieved")
    limit = 10**9 if P["pages"] == "all" else int(P["pages"])
    exhausted = next((i + 1 for i, d in enumerate(docs) if ref_after_key(d, path) is None), len(docs) + 1)
    expect_n = min(limit, exhausted)
    if n != expect_n:
        add("pages-retrieved", f"{n} pages retrieved; the first page without after_key is page {exhausted - 1}, pages={P['pages']} => {expect_n}", {"expected": expect_n, "outcome": {"value": n}})
    return problems


def check_scroll(sink, case):
    problems = []
    pages, P = case["pages"], case["params"]
    docs = [loads(p) for p in pages]
    size = P["size"]

    def add(clause, msg, extra):
        problems.append((clause, msg, extra))

    stub = StubES([raw(p) for p in pages], FILLER_SEARCH)
    params = {"name": "scroll", "index": "idx", "operation-type": P["optype"], "pages": P["pages"], "results-per-page": size, "body": {"query": {"match_all": {}}}}
    res = outcome_of(lambda: run(_run_query(stub, params, None, None)))
    n = len(stub.requests)
    served = docs[:n] + [json.loads(FILLER_SEARCH)] * max(0, n - len(docs))
    sink.clause("scroll-run")
    if "exception" in res:
        add("scroll-run", f"the scroll search failed after {n} requests with {res['exception']}: {res['detail']}", {"page": n - 1, "expected": None, "outcome": res})
        return problems
    result, _ = res["value"]
    check_accounting(sink, add, result, served, n, docs[0])
    sink.clause("scroll-id")
    sid = docs[0]["_scroll_id"]
    sent = [r["body"].get("scroll_id") for r in stub.requests[1:]]
    if any(s != sid for s in sent) or stub.cleared != [{"scroll_id": [sid]}] or any(r["path"] != "/_search/scroll" for r in stub.requests[1:]):
        add("scroll-id", f"scroll ids sent {sent[:3]} / cleared {stub.cleared!r} but the first page returned {sid!r}", {"expected": sid, "outcome": {"value": sent[:3]}})
    sink.clause("scroll-stops-on-empty-page")
    limit = 10**9 if P["pages"] == "all" else int(P["pages"])
    tv = ref_total(docs[0])[0]
    seen_hits = 0
    for k in range(n):
        last = k == n - 1
        seen_hits += len(served[k]["hits"]["hits"])
        must_stop = k + 1 >= limit or (k > 0 and len(served[k]["hits"]["hits"]) == 0)
        may_stop = must_stop or seen_hits >= tv  # everything the first page announced has been read
        if (last and not may_stop) or (not last and must_stop):
            add("scroll-stops-on-empty-page", f"page {k} of {n}: hits.hits has {len(served[k]['hits']['hits'])} entries, pages={P['pages']}; the runner {'stopped' if last else 'went on'}", {"page": k, "expected": None, "outcome": {"value": n}})
            break
    return problems


def check_search(sink, case):
    problems = []
    pg, P = case["pages"][0], case["params"]
    doc = loads(pg)
    stub = StubES([raw(pg)], FILLER_SEARCH)
    params = {"name": "search", "index": "idx", "operation-type": "search", "detailed-results": True, "body": {"query": {"match_all": {}}}}
    res = outcome_of(lambda: run(_run_query(stub, params, None, None)))
    sink.clause("search-detailed")
    tv, tr = ref_total(doc)
    s = doc["_shards"]
    want = {"weight": 1, "unit": "ops", "success": True, "hits": tv, "hits_relation": tr, "timed_out": doc["timed_out"], "took": doc["took"],
            "shards": {"total": s["total"], "successful": s["successful"], "skipped": s.get("skipped", 0), "failed": s["failed"]}}
    if "exception" in res or not same(res["value"][0], want):
        got = res if "exception" in res else {"value": plain(res["value"][0])}
        problems.append(("search-detailed", f"detailed search result {short(got)} but full parsing gives {json.dumps(want)[:200]}", {"page": 0, "expected": want, "outcome": got}))
    return problems


def check_bulk(sink, case):
    problems = []
    pg, P = case["pages"][0], case["params"]
    doc = loads(pg)
    ref = ref_bulk(doc)
    unit, bulk_size = P["unit"], P["bulk_size"]

    def add(clause, msg, extra=None):
        problems.append((clause, msg, dict(extra or {}, ref={k: ref[k] for k in ("n", "failed_es", "failed_rally", "errors", "took")}, simple=simple, detailed=detailed)))

    def call(detailed_results):
        stub = StubES([raw(pg)], b"", parsed_bulk=doc if detailed_results else None)
        params = {"body": "{}\n{}\n" * ref["n"], "action-metadata-present": True, "bulk-size": bulk_size, "unit": unit, "index": "idx", "detailed-results": detailed_results}
        return outcome_of(lambda: run(_run_bulk(stub, params)))

    rs, rd = call(False), call(True)
    keys = ("success", "success-count", "error-count", "took", "error-type", "error-description")
    simple = {k: rs["value"].get(k) for k in keys} if "value" in rs else rs
    detailed = {k: rd["value"].get(k) for k in keys} if "value" in rd else rd
    sink.clause("bulk-run")
    if "exception" in rs or "exception" in rd:
        add("bulk-run", f"bulk runner raised: fast path {short(rs)}, detailed path {short(rd)}")
        return problems

    def follows(st, failed, fast):
        ok_sc = st["success-count"] == ref["n"] - failed or (fast and st["success-count"] is None and unit != "docs" and failed == 0)
        return st["success"] is (failed == 0) and st["error-count"] == failed and ok_sc

    sink.clause("bulk-counts-vs-items")
    for name, st, fast in (("fast", simple, True), ("detailed", detailed, False)):
        if not (follows(st, ref["failed_es"], fast) or follows(st, ref["failed_rally"], fast)):
            add("bulk-counts-vs-items", f"{name} path reports success={st['success']} success-count={st['success-count']} error-count={st['error-count']} for {ref['n']} items of which "
                f"{ref['failed_es']} carry an error and {ref['failed_rally']} have status>299 or failed shards", {"path": name})
    sink.clause("bulk-paths-agree")
    agree = simple["success"] == detailed["success"] and simple["error-count"] == detailed["error-count"] and (
        simple["success-count"] == detailed["success-count"] or (simple["success-count"] is None and unit != "docs"))
    if not agree:
        add("bulk-paths-agree", f"fast path: success={simple['success']} success-count={simple['success-count']} error-count={simple['error-count']}; detailed path: "
            f"success={detailed['success']} success-count={detailed['success-count']} error-count={detailed['error-count']} ({ref['n']} items, errors={ref['errors']})")
    sink.clause("bulk-took")
    if not (same(simple["took"], ref["took"]) and same(detailed["took"], ref["took"])):
        add("bulk-took", f"took fast={simple['took']!r} detailed={detailed['took']!r}, response says {ref['took']!r}")
    sink.clause("bulk-ops-histogram")
    dv = rd["value"]
    ops = {op: dict(c) for op, c in dv.get("ops", {}).items()}
    hist = {(h["shards"]["total"], h["shards"]["successful"], h["shards"]["failed"]): h["item-count"] for h in dv.get("shards_histogram", [])}
    if ops != ref["ops"] or hist != ref["hist"]:
        add("bulk-ops-histogram", f"ops={ops} shards_histogram={hist} but the items give ops={ref['ops']} histogram={ref['hist']}")
    sink.clause("bulk-error-description")
    for name, st in (("fast", simple), ("detailed", detailed)):
        if (st["error-type"] == "bulk") is st["success"] or (st["error-description"] is None) is not st["success"]:
            add("bulk-error-description", f"{name} path: success={st['success']} but error-type={st['error-type']!r} error-description={st['error-description']!r}", {"path": name})
    if not simple["success"] and not detailed["success"] and simple["error-description"] != detailed["error-description"]:
        add("bulk-error-description", f"error descriptions differ: fast {simple['error-description']!r} / detailed {detailed['error-description']!r}")
    return problems


def walk(doc):
    """-> (scalar paths, list paths, flat object paths) not passing through arrays, and a count of every ijson prefix."""
    scalars, lists, objects, counts = [], [], [], {}

    def rec(o, prefix, through_array):
        counts[prefix] = counts.get(prefix, 0) + 1
        if isinstance(o, dict):
            if not through_array and prefix and all(not isinstance(v, (dict, list)) for v in o.values()):
                objects.append(prefix)
            for k, v in o.items():
                rec(v, f"{prefix}.{k}" if prefix else k, through_array)
        elif isinstance(o, list):
            if not through_array:
                lists.append(prefix)
            for v in o:
                rec(v, f"{prefix}.item" if prefix else "item", True)
        elif not through_array:
            scalars.append(prefix)

    rec(doc, "", False)
    return scalars, lists, objects, counts


def at(doc, dotted_keys):
    node = doc
    for k in dotted_keys:
        node = node[k]
    return node


def resolve(doc, path):
    """Value at a dotted path whose segments may themselves contain dots (tries the longest key first)."""
    if path == "":
        return doc
    if not isinstance(doc, dict):
        raise KeyError(path)
    parts = path.split(".")
    for i in range(len(parts), 0, -1):
        k = ".".join(parts[:i])
        if k in doc:
            try:
                return resolve(doc[k], ".".join(parts[i:]))
            except KeyError:
                continue
    raise KeyError(path)


def check_parse(sink, case):
    problems = []
    pg, P = case["pages"][0], case["params"]
    doc = loads(pg)
    props, lists, objects = P["props"], P["lists"], P["objects"]
    out = outcome_of(lambda: runner.parse(io.BytesIO(raw(pg)), list(props), list(lists) if lists is not None else None, list(objects) if objects is not None else None))
    if "exception" in out:
        sink.clause("parse-props")
        return [("parse-props", f"parse raised {out['exception']}: {out['detail']}", {"page": 0, "expected": None, "outcome": out})]
    got = out["value"]

    def lookup(p):
        try:
            return True, resolve(doc, p)
        except KeyError:
            return False, None

    extra = [k for k in got if k not in props and k not in (lists or []) and k not in (objects or [])]
    for p in props:
        present, val = lookup(p)
        if present and isinstance(val, (dict, list)):
            continue  # container-valued property paths are outside parse()'s contract
        sink.clause("parse-props")
        if present != (p in got) or (present and not same(got[p], val)):
            problems.append(("parse-props", f"parse(props={props}) gives {p}={plain(got.get(p, '<absent>'))!r}, full parsing gives {val if present else '<absent>'!r}", {"page": 0, "path": p, "expected": val if present else "<absent>", "outcome": {"value": plain(got.get(p, "<absent>"))}}))
    if extra:
        problems.append(("parse-props", f"parse returned keys that were not asked for: {extra}", {"page": 0, "expected": None, "outcome": {"value": extra}}))
    for p in lists or []:
        present, val = lookup(p)
        sink.clause("parse-lists")
        want = (len(val) == 0) if present else "<absent>"
        if got.get(p, "<absent>") is not want and got.get(p, "<absent>") != want:
            problems.append(("parse-lists", f"parse(lists=[{p}]) says empty={got.get(p, '<absent>')!r}, the list has {len(val) if present else 'no'} entries", {"page": 0, "path": p, "expected": want, "outcome": {"value": plain(got.get(p, "<absent>"))}}))
    for p in objects or []:
        present, val = lookup(p)
        sink.clause("parse-objects")
        want = val if present else "<absent>"
        if not same(got.get(p, "<absent>"), want):
            problems.append(("parse-objects", f"parse(objects=[{p}]) gives {json.dumps(plain(got.get(p, '<absent>')))[:120]}, full parsing gives {json.dumps(want)[:120]}", {"page": 0, "path": p, "expected": want, "outcome": {"value": plain(got.get(p, "<absent>"))}}))
    return problems


CHECKS = {"paginated-search": check_paginated, "composite-agg": check_composite, "scroll-search": check_scroll, "search": check_search, "bulk": check_bulk, "parse": check_parse}


def short(out):
    if "exception" in out:
        return f"raised {out['exception']}"
    try:
        return json.dumps(plain(out["value"]))[:120]
    except (TypeError, ValueError):
        return repr(out["value"])[:120]


def check_case(sink, case):
    return CHECKS[case["kind"]](sink, case)


# ---------------------------------------------------------------- case generation
def pick_layout(rng, jackson_ok=True):
    q = rng.random()
    if q < 0.62:
        return "compact"
    if q < 0.74:
        return "spaced"
    if q < 0.90 or not jackson_ok:
        return "pretty"
    return "jackson"


def render_case(case, docs):
    case["pages"] = []
    for d in docs:
        text, pos = G.render(d, case["layout"], case["ascii"])
        case["pages"].append({"text": text, "pos": pos})
    return case


def gen_case(rng, big_p=0.003):
    """big_p: share of cases whose responses exceed ijson's 64 KiB read buffer (clean profiles only)."""
    big = rng.random() < big_p
    q = rng.random()
    kind = "paginated-search" if q < 0.34 else "composite-agg" if q < 0.54 else "bulk" if q < 0.76 else "scroll-search" if q < 0.86 else "search" if q < 0.90 else "parse"
    case = {"kind": kind, "layout": pick_layout(rng), "ascii": rng.random() < 0.5, "order": "shuffled" if rng.random() < 0.3 else "canonical", "params": {}, "hints": []}
    P = case["params"]
    docs = []
    if kind == "paginated-search":
        prof = rng.choice(["clean", "clean", "clean", "clean", "clean", "bracket", "later", "later", "src-sort", "mixed"])
        cfg = G.Cfg(es6=rng.random() < 0.15, aggs=rng.random() < 0.3)
        if big:
            prof = "clean"
        if prof == "clean":
            cfg.inner_hits, cfg.top_hits = rng.choice([0, 0, 1]), rng.choice([0, 0, 1])
            cfg.src_sort = case["order"] == "canonical" and rng.random() < 0.5  # harmless before the hit's own sort
            if not big and case["order"] == "canonical" and rng.random() < 0.12:
                cfg.fat_tail = rng.choice(["explanation", "aggs", "inner"])
                if cfg.fat_tail == "inner":
                    cfg.inner_hits = 0
                case["hints"].append("fat-tail-after-last-sort")
                if rng.random() < 0.3:
                    cfg.fat_scale = rng.choice([12, 12, 40])
                    case["hints"].append("very-fat-tail-after-last-sort")
        elif prof == "bracket":
            cfg.rb_in_sort = cfg.rb_last = True
        elif prof == "later":
            which = rng.choice(["inner", "top", "mq", "bucket", "own"])
            if which == "inner":
                cfg.inner_hits = 2
                case["hints"].append("inner-hits-sorted")
            elif which == "top":
                cfg.top_hits = 2
                case["hints"].append("top-hits-sorted")
            elif which == "mq":
                cfg.mq_sort = True
                case["hints"].append("value-token")
            elif which == "bucket":
                cfg.bucket_sort = True
                case["hints"].append("value-token")
            else:
                cfg.sort_has_sort = True
                case["hints"].append("value-token")
        elif prof == "src-sort":
            cfg.src_sort = True
            case["order"] = "shuffled"
            case["hints"].append("source-sort-shuffled")
        else:
            cfg.rb_in_sort = True
            cfg.rb_last = rng.random() < 0.5
            cfg.src_sort = rng.random() < 0.5
            cfg.inner_hits, cfg.top_hits = rng.choice([0, 1, 2]), rng.choice([0, 1, 2])
            cfg.mq_sort = rng.random() < 0.2
        size = rng.choice([1, 2, 2, 3])
        npages = rng.choice([1, 2, 2, 3])
        if big:
            size, npages = rng.choice([400, 600]), rng.choice([1, 2])
        lastn = rng.randint(1, size)
        total = size * (npages - 1) + lastn
        P.update(size=size, pit=rng.random() < 0.4, pages=rng.choice(["all", "all", npages, max(1, npages - 1), npages + 2]))
        if P["pit"]:
            P["pit0"] = G.gen_id(rng)
        for k in range(npages):
            nh = size if k < npages - 1 else lastn
            docs.append(G.gen_search_page(rng, cfg, nh, total, pit_id=G.gen_id(rng) if P["pit"] else None))
    elif kind == "composite-agg":
        case["layout"] = pick_layout(rng, jackson_ok=True)
        cfg = G.Cfg(es6=rng.random() < 0.15)
        path = rng.choice([["by_vendor"], ["by_vendor"], ["vendor_filter", "vendor_payment"], ["f", "g", "comp"], ["a.b"]])
        names = rng.sample(["vendor", "day", "price", "flag", "user.id", 'q"x', "k]"], rng.randint(1, 3))
        nulls = rng.random() < 0.3
        npages = rng.choice([1, 2, 2, 3])
        P.update(size=rng.choice([1, 2, 10]), pit=rng.random() < 0.4, path=path, names=names, pages=rng.choice(["all", "all", npages, max(1, npages - 1), npages + 2]))
        if P["pit"]:
            P["pit0"] = G.gen_id(rng)
        total = rng.randint(0, 10000)
        for k in range(npages):
            docs.append(G.gen_composite_page(rng, cfg, path, names, nulls, last=(k == npages - 1 and rng.random() < 0.8), total=total, pit_id=G.gen_id(rng) if P["pit"] else None))
    elif kind == "scroll-search":
        cfg = G.Cfg(es6=rng.random() < 0.3, aggs=rng.random() < 0.2, src_sort=rng.random() < 0.3)
        size = rng.choice([1, 2, 3])
        npages = rng.choice([1, 2, 3])
        if big:
            size, npages = rng.choice([400, 600]), 2
        lens = [size] * (npages - 1) + [rng.randint(0, size)]
        if rng.random() < 0.5 and lens[-1] > 0:
            lens.append(0)
        total = sum(lens)
        sid = G.gen_id(rng)
        P.update(size=size, optype=rng.choice(["scroll-search", "scroll-search", "search"]), pages=rng.choice(["all", "all", len(lens), max(1, len(lens) - 1), len(lens) + 2]))
        for nh in lens:
            docs.append(G.gen_search_page(rng, cfg, nh, total, scroll_id=sid, sorted_hits=rng.random() < 0.3))
    elif kind == "search":
        cfg = G.Cfg(es6=rng.random() < 0.3, aggs=rng.random() < 0.4, src_sort=rng.random() < 0.3, inner_hits=rng.choice([0, 1, 2]))
        nh = rng.randint(0, 3)
        docs.append(G.gen_search_page(rng, cfg, nh, rng.choice([nh, 10000, 12345]), sorted_hits=rng.random() < 0.5))
    elif kind == "bulk":
        prof = rng.choice(["ok", "ok", "ok", "errors", "errors", "errors-mixed", "hidden-shard-fail", "hidden-not-found"])
        d = G.gen_bulk_response(rng, "ok" if big and rng.random() < 0.6 else prof, n=rng.choice([500, 1000]) if big else None)
        docs.append(d)
        unit = "docs" if rng.random() < 0.85 else rng.choice(["ops", "MB"])
        P.update(unit=unit, bulk_size=len(d["items"]) if unit == "docs" else rng.randint(1, 50), profile=prof)
    else:
        src = rng.choice(["search", "composite", "bulk"])
        if src == "search":
            cfg = G.Cfg(es6=rng.random() < 0.3, aggs=rng.random() < 0.6, src_sort=rng.random() < 0.3, inner_hits=rng.choice([0, 1, 2]))
            nh = rng.randint(0, 3)
            d = G.gen_search_page(rng, cfg, nh, rng.choice([nh, 10000]), pit_id=G.gen_id(rng) if rng.random() < 0.3 else None, scroll_id=G.gen_id(rng) if rng.random() < 0.3 else None)
            extra_props = ["took", "timed_out", "hits.total", "hits.total.value", "hits.total.relation", "_scroll_id", "pit_id", "_shards.failed", "hits.max_score"]
        elif src == "composite":
            path = rng.choice([["by_vendor"], ["vendor_filter", "vendor_payment"]])
            names = rng.sample(["vendor", "day", "price", "flag", "user.id"], rng.randint(1, 3))
            d = G.gen_composite_page(rng, G.Cfg(es6=rng.random() < 0.2), path, names, rng.random() < 0.4, last=rng.random() < 0.2, total=rng.randint(0, 99))
            extra_props = ["took", "timed_out", "hits.total.value", "hits.total", "nope"]
        else:
            d = G.gen_bulk_response(rng, rng.choice(["ok", "errors", "errors-mixed"]))
            extra_props = ["errors", "took", "ingest_took", "nope.took"]
        docs.append(d)
        if case["order"] == "shuffled":
            docs = [G.shuffled(x, rng) for x in docs]
        scal, lsts, objs, counts = walk(json.loads(json.dumps(docs[0]).replace(G.MARK_TXT, '"sort"')))
        uniq = lambda ps: [p for p in ps if counts.get(p, 0) == 1]
        scal, lsts, objs = uniq(scal), uniq(lsts), uniq(objs)
        use_objs = rng.sample(objs, min(len(objs), rng.choice([0, 1, 1, 2]))) if rng.random() < 0.6 else None
        if use_objs is not None and rng.random() < 0.3:
            use_objs.append("aggregations.nope.after_key")
        use_lists = rng.sample(lsts, min(len(lsts), rng.choice([0, 1, 1, 2]))) if rng.random() < 0.6 else None
        if use_lists is not None and rng.random() < 0.2:
            use_lists.append("hits.nope")
        cand = [p for p in scal if not any(p.startswith(o + ".") for o in (use_objs or []))]
        props = rng.sample(cand, min(len(cand), rng.randint(1, 4)))
        for p in rng.sample(extra_props, rng.randint(0, 3)):
            if p not in props and counts.get(p, 0) <= 1 and not any(p.startswith(o + ".") or p == o for o in (use_objs or [])) and p not in (use_lists or []):
                props.append(p)
        rng.shuffle(props)
        P.update(props=props, lists=use_lists, objects=use_objs, source=src)
        return render_case(case, docs), docs
    if case["order"] == "shuffled":
        docs = [G.shuffled(x, rng) for x in docs]
    return render_case(case, docs), docs


# ---------------------------------------------------------------- features
def features_of(case):
    f = {f"layout:{'pretty' if case['layout'] in ('pretty', 'jackson') else 'compact' if case['layout'] == 'compact' else 'spaced'}", f"kind:{case['kind']}"}
    if case["order"] == "shuffled":
        f.add("order:shuffled")
    if not case["ascii"] and any(not p["text"].isascii() for p in case["pages"]):
        f.add("raw-utf8")
    if any(len(p["text"]) > 65536 for p in case["pages"]):
        f.add("big-response")
    kind, P = case["kind"], case["params"]
    docs = [loads(p) for p in case["pages"]]
    nontrivial = False
    if kind == "paginated-search":
        flags = set()
        for pg, d in zip(case["pages"], docs):
            has, exp = ref_last_sort(d)
            flags |= page_flags(pg["text"], pg["pos"], exp)
            nontrivial = nontrivial or has
        f |= {f"sa:{x}" for x in flags}
        if not flags:
            f.add("sa:canonical" if case["order"] == "canonical" else "sa:shuffled-clean")
        if "later-sort-token" in flags:
            f |= {f"sa:cfg:{h}" for h in case.get("hints", [])}
        if P["pit"]:
            f.add("sa:pit")
        if not isinstance(docs[0]["hits"]["total"], dict):
            f.add("sa:es6-total")
    elif kind == "composite-agg":
        aks = [ref_after_key(d, P["path"]) for d in docs]
        vals = [v for ak in aks if ak for v in ak.values()]
        nontrivial = bool(vals)
        nulls = any(v is None for v in vals)
        if nulls:
            f.add("ca:after-key-null")
        elif case["order"] == "canonical":
            f.add("ca:canonical")
        else:
            f.add("ca:shuffled-clean")
        if any(isinstance(v, float) for v in vals):
            f.add("ca:float")
        if any(isinstance(v, bool) for v in vals):
            f.add("ca:bool")
        if len(P["path"]) > 1:
            f.add("ca:nested-path")
        if P["pit"]:
            f.add("ca:pit")
    elif kind == "bulk":
        r = ref_bulk(docs[0])
        nontrivial = r["n"] > 0
        if r["errors"]:
            f.add("bulk:errors")
        if not r["errors"] and r["failed_rally"] > 0:
            f.add("bulk:errors-false-but-failed-item")
        else:
            f.add("bulk:canonical")
        if any(isinstance(next(iter(it.values())).get("error"), str) for it in docs[0]["items"]):
            f.add("bulk:error-string")
        if P["unit"] != "docs":
            f.add("bulk:unit-not-docs")
    elif kind == "scroll-search":
        nontrivial = any(d["hits"]["hits"] for d in docs)
        if not isinstance(docs[0]["hits"]["total"], dict):
            f.add("scroll:es6-total")
    elif kind == "search":
        nontrivial = True
    else:
        nontrivial = True
        if P["objects"]:
            f.add("parse:objects")
        if P["lists"]:
            f.add("parse:lists")
    return f, nontrivial


# ---------------------------------------------------------------- shrinking (doc level, then re-rendered)
def _deletions(o, path=()):
    if isinstance(o, dict):
        for k in list(o):
            yield path + (k,)
            yield from _deletions(o[k], path + (k,))
    elif isinstance(o, list):
        for i in range(len(o) - 1, -1, -1):
            yield path + (i,)
            yield from _deletions(o[i], path + (i,))


def _without(o, path):
    o = copy.deepcopy(o)
    node = o
    for p in path[:-1]:
        node = node[p]
    del node[path[-1]]
    return o


PROTECTED = {G.MARK, "took", "timed_out", "total", "value", "relation", "hits", "status", "items", "errors", "_shards", "failed", "successful", "skipped",
             "max_score", "_index", "_id", "_score", "pit_id", "_scroll_id", "buckets", "doc_count", "key", "result", "type", "sort"}


def shrink(case, docs, target, budget=250):
    """Greedy deletion of members / elements while the same (clause, key) still fails and no new kind of problem appears."""

    def kinds(c):
        try:
            return {(cl, classify({"clause": cl, "witness": witness_of(c, ex), "msg": m})) for cl, m, ex in check_case(Null(), c)}
        except Exception:
            return None

    base = kinds(case)
    if base is None or target not in base:
        return case
    best, best_docs = case, docs
    for di in range(len(docs) - 1, -1, -1):  # whole pages first
        if len(best_docs) > 1:
            cand_docs = best_docs[:di] + best_docs[di + 1:]
            cand = render_case({k: v for k, v in best.items() if k != "pages"}, cand_docs)
            ks = kinds(cand)
            if ks is not None and target in ks and ks <= base:
                best, best_docs = cand, cand_docs
    if best["layout"] != "compact" or not best["ascii"]:  # the plainest rendering that still shows it
        cand = render_case(dict({k: v for k, v in best.items() if k != "pages"}, layout="compact", ascii=True), best_docs)
        ks = kinds(cand)
        if ks is not None and target in ks and ks <= base:
            best = cand
    changed = True
    while changed and budget > 0:
        changed = False
        for di in range(len(best_docs)):
            for path in _deletions(best_docs[di]):
                if path[-1] in PROTECTED or G.MARK in path or "sort" in path:
                    continue
                budget -= 1
                if budget <= 0:
                    break
                cand_docs = list(best_docs)
                try:
                    cand_docs[di] = _without(best_docs[di], path)
                except (KeyError, IndexError, TypeError):
                    continue
                cand = render_case({k: v for k, v in best.items() if k != "pages"}, cand_docs)
                if best["kind"] == "bulk" and best["params"]["unit"] == "docs":
                    cand["params"] = dict(cand["params"], bulk_size=len(cand_docs[0].get("items", [])))
                ks = kinds(cand)
                if ks is not None and target in ks and ks <= base:
                    best, best_docs, changed = cand, cand_docs, True
                    break
            if changed or budget <= 0:
                break
    return best


def witness_of(case, extra):
    w = {"case": {k: case[k] for k in ("kind", "layout", "ascii", "order", "params", "pages")}}
    w.update(extra)
    return w


# ---------------------------------------------------------------- driver
_SEEN = {}


def one_case(ctx, rng, explicit=None):
    if explicit is None:
        case, docs = gen_case(rng, big_p=0.01 if ctx.tier == "thorough" else 0.004)
    else:
        case, docs = explicit, None
    problems = check_case(ctx, case)
    feats, nontrivial = features_of(case)
    ctx.case((case["kind"], case["params"], [p["text"] for p in case["pages"]]), nontrivial, feats)
    ctx.feature("responses", len(case["pages"]))
    if sum(len(p["text"]) for p in case["pages"]) < 700:
        ctx.sample({"kind": case["kind"], "layout": case["layout"], "order": case["order"], "params": case["params"], "texts": [p["text"] for p in case["pages"]]},
                   tag=case["kind"] + ":" + "+".join(sorted(x for x in feats if x.startswith(("sa:", "ca:", "bulk:")) and ":cfg:" not in x)))
    reported = set()
    for clause, msg, extra in problems:
        w = witness_of(case, extra)
        key = classify({"clause": clause, "witness": w, "msg": msg})
        if (clause, key) in reported:
            continue
        reported.add((clause, key))
        if key is not None:
            ctx.distinct("finding-mechanisms", key)
        seen = _SEEN.get((clause, key), 0)
        _SEEN[(clause, key)] = seen + 1
        if docs is not None and seen < 3 and sum(len(p["text"]) for p in case["pages"]) < 30000:
            small = shrink(case, docs, (clause, key))
            if small is not case:
                for c2, m2, e2 in check_case(Null(), small):
                    w2 = witness_of(small, e2)
                    if c2 == clause and classify({"clause": c2, "witness": w2, "msg": m2}) == key:
                        w, msg = w2, m2
                        break
        ctx.violation(clause, w, msg)
    return problems


def run_shard(ctx):
    logging.disable(logging.CRITICAL)
    i = 0
    while ctx.more():
        one_case(ctx, ctx.case_rng(i))
        i += 1


# ---------------------------------------------------------------- mechanism classifier for known findings
def _read_from(text, start):
    """What the documented extraction rule ('"sort": [...]' up to the first ']') yields when reading starts at `start`."""
    i = text.find('sort":', start)
    if i < 0:
        return {"value": None}
    j = text.find("]", i + 6)
    if j < 0:
        return {"value": None}
    try:
        return {"value": json.loads(text[i + 6:j + 1])}
    except json.JSONDecodeError:
        return {"exception": "JSONDecodeError"}


def _decode_at(text, tok):
    """The JSON array that follows the key token at `tok` (None if the token is not a key followed by an array)."""
    j = tok + 6
    while text[j:j + 1] in (" ", "\n", "\t", "\r"):
        j += 1
    if text[j:j + 1] != ":":
        return {"value": None}
    j += 1
    while text[j:j + 1] in (" ", "\n", "\t", "\r"):
        j += 1
    if text[j:j + 1] != "[":
        return {"value": None}
    return {"value": json.JSONDecoder().raw_decode(text, j)[0]}


def _same_outcome(a, b):
    if "exception" in a or "exception" in b:
        return a.get("exception") == b.get("exception")
    return same(a.get("value"), b.get("value"))


def classify(v):
    clause, w = v["clause"], v["witness"]
    case = w.get("case") or {}
    out = w.get("outcome") or {}
    exp = w.get("expected")
    if clause in CURSOR_CLAUSES and case.get("kind") == "paginated-search":
        k = w.get("page", -1)
        if not (0 <= k < len(case["pages"])):
            return None
        text, pos = case["pages"][k]["text"], case["pages"][k]["pos"]
        if pos < 0 or not isinstance(exp, list):
            return None
        last = text.rfind('"sort"')
        if last > pos:
            # some other "sort" token follows the last hit's sort key and the outcome is exactly what reading from that token gives
            # (by the documented pattern, or by decoding the array that follows it)
            if _same_outcome(out, _read_from(text, last)) or _same_outcome(out, _decode_at(text, last)):
                return "cursor-read-from-later-sort-token"
            return None
        if last != pos:
            return None
        if text[pos + 6:pos + 7] != ":":
            # "sort" : [ ... ] (Jackson pretty printing): the pattern cannot match at the key at all
            return "cursor-none-whitespace-before-colon" if out == {"value": None} else None
        if any(isinstance(s, str) and "]" in s for s in exp) and out.get("exception") == "JSONDecodeError":
            return "cursor-jsondecodeerror-bracket-in-sort-string"
        return None
    if clause in AFTER_CLAUSES and isinstance(exp, dict) and "value" in out and isinstance(out["value"], dict):
        if any(x is None for x in exp.values()) and same(out["value"], {k: x for k, x in exp.items() if x is not None}):
            return "parse-objects-drops-null-members"
        return None
    if clause == "bulk-run" and case.get("kind") == "bulk":
        # error_description() sorts (status, reason) tuples: a failed item with a reason and one without, same status, cannot be ordered
        s, d = w.get("simple") or {}, w.get("detailed") or {}
        raised = [x for x in (s, d) if "exception" in x]
        if not raised or any(x["exception"] != "TypeError" or "not supported between" not in x.get("detail", "") for x in raised):
            return None
        by_status = {}
        for it in json.loads(case["pages"][0]["text"])["items"]:
            data = next(iter(it.values()))
            if item_failed_rally(data):
                err = data.get("error")
                reason = (err.get("reason") if isinstance(err, dict) else str(err)) if err else None
                by_status.setdefault(data["status"], set()).add("none" if reason is None else "str")
        return "bulk-error-description-typeerror-reason-and-none-same-status" if any(len(x) == 2 for x in by_status.values()) else None
    if clause in BULK_FAST_CLAUSES and case.get("kind") == "bulk":
        ref, s, d, P = w.get("ref") or {}, w.get("simple") or {}, w.get("detailed") or {}, case["params"]
        if ref.get("errors") is False and ref.get("failed_rally", 0) > 0 and "exception" not in s and "exception" not in d:
            all_ok = s.get("success") is True and s.get("error-count") == 0 and s.get("success-count") == (P["bulk_size"] if P["unit"] == "docs" else None)
            per_item = d.get("success") is False and d.get("error-count") == ref["failed_rally"] and d.get("success-count") == ref["n"] - ref["failed_rally"]
            if all_ok and per_item:
                return "bulk-fast-path-trusts-errors-false"
        return None
    return None


def replay(ctx, rec):
    logging.disable(logging.CRITICAL)
    one_case(ctx, None, explicit=rec["witness"]["case"])


MANIFEST = {
    "text": "Exploration: ~1.5*10^5 (quick) / ~10^6 or more (thorough) generated Elasticsearch-shaped responses (bulk, search, scroll, composite-agg pages; hostile strings, "
    "compact / pretty / Jackson layouts, canonical and shuffled key order, pages with more than 8 KiB - some with several hundred KiB - after the last hit's sort key) are fed to the real runner.parse, BulkIndex fast and detailed path, SearchAfterExtractor, "
    "CompositeAggExtractor and the paginated Query runner (end to end against a recording stub client); every extracted value, cursor, count and page/hits/took/timed_out "
    "figure is compared with json.loads of the same bytes. Holds on the responses produced, not beyond; the canonical ES shape must be violation-free, "
    "known deviations are keyed by mechanism.",
    "note": "Trusts json.loads as reference parser, the ~10-line reference extractors/folds, the generator's model of ES response shapes and the stub client (pages served in order).",
    "technique": "runtime monitor: differential oracle (full parse vs fast path) + reference fold over a recorded request/response history, seeded class-structured generators",
    "design_ref": "DESIGN.md section 4 C19",
}
