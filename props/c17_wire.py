"""C17 helper: the real client stack with a scripted HTTP node.

`Wire.run(target, kinds, tail)` builds rally's real synchronous client (client.EsClientFactory(...).create(): RallySyncElasticsearch on
elastic_transport.Transport, the transport's own retries switched off so that one attempt of `guarded` is one HTTP exchange), lets the real
`metrics.EsClient` operation (and the real `elasticsearch.helpers.bulk`) run on it and records, at the boundary between `guarded` and the
wrapped client function, what that function returned or raised. Only the node (the HTTP exchange) is scripted.
"""
import functools
import json

import elastic_transport
import elasticsearch
import elasticsearch.helpers
from elastic_transport._node._base import NodeApiResponse

from esrally import client as rally_client
from esrally import metrics

HOST, PORT = "metrics.example.org", 9243

WIRE_BASE = ["ok", "ctimeout", "cerror", "tls", "http429", "http502", "http503", "http504", "http401", "http403", "http404", "http400", "http409", "http500", "badjson",
             "html502", "html503", "html504", "text503", "empty502",
             # JSON error bodies of other shapes than the usual one: A = empty root_cause (search_phase_execution_exception, "all shards failed"),
             # B = "error" is a plain string (REST layer, proxies), C = no "error" member, D = a JSON array
             # E = "error" is an object without "type", F = "error" is a list (both reach guarded() as an ApiError whose error is no string)
             "jsnA503", "jsnB503", "jsnC502", "jsnD504", "jsnA500", "jsnB400", "jsnE503", "jsnF429", "jsnE500", "jsnF400"]
WIRE_BULK = ["items429", "items503", "items429+201", "items201+503", "items400", "items429+400", "items400+429", "items502+504", "items409+201"]

ERRORS = {
    429: ("es_rejected_execution_exception", "rejected execution of coordinating operation"),
    502: ("bad_gateway_exception", "bad gateway"),
    503: ("unavailable_shards_exception", "primary shard is not active Timeout: [1m]"),
    504: ("gateway_timeout_exception", "gateway timeout"),
    400: ("mapper_parsing_exception", "failed to parse field [value] of type [float]"),
    401: ("security_exception", "unable to authenticate user [rally] for REST request"),
    403: ("security_exception", "action [indices:data/write/bulk] is unauthorized for user [rally]"),
    404: ("index_not_found_exception", "no such index [rally-metrics-2026-09]"),
    409: ("version_conflict_engine_exception", "version conflict, document already exists"),
    500: ("illegal_state_exception", "internal failure"),
}


class ScriptedNode(elastic_transport.BaseNode):
    """One HTTP exchange per script entry; GET / (rally's product check) is always answered and does not consume the script."""

    current = None  # the Wire that owns the running script

    def __init__(self, config):
        super().__init__(config)

    def _resp(self, status, body=b"", ctype="application/json"):
        headers = {"x-elastic-product": "Elasticsearch"}
        if ctype:
            headers["content-type"] = ctype
        meta = elastic_transport.ApiResponseMeta(node=self.config, duration=0.0, http_version="1.1", status=status, headers=elastic_transport.HttpHeaders(headers))
        return NodeApiResponse(meta, body)

    def perform_request(self, method, target, body=None, headers=None, request_timeout=None):
        w = ScriptedNode.current
        if method == "GET" and target == "/":
            # rally's product check (first request of a client, and of every derived client: each attempt of a bulk / ignore= call starts with
            # one). In half of the runs a pending FAULT lands on it instead of on the request it precedes; a pending "ok" is never spent on it.
            # The transport repeats the product check on its own (it is sent without rally's max_retries=0): the fault stays for all product
            # checks of the same call of the wrapped function and is recorded as ONE exchange.
            nxt = w.kinds[w.consumed] if w.consumed < len(w.kinds) else w.tail
            if w.sticky is None and not (w.faults_hit_product_check and nxt != "ok" and not nxt.startswith("items") and nxt != "badjson"):
                return self._resp(200, json.dumps({"name": "n1", "version": {"number": "8.6.1", "build_flavor": "default"}, "tagline": "You Know, for Search"}).encode())
            if w.sticky is None:
                w.product_check_faults += 1
                w.sticky = w.next_kind()
                w.requests.append((method, "/", w.sticky, 0))
            kind = w.sticky
            return self._answer(kind, False, 0)
        w.sticky = None
        kind = w.next_kind()
        head = method == "HEAD"
        ndocs, ops = 0, []
        if target.split("?")[0].endswith("/_bulk") and body:
            lines = [l for l in body.split(b"\n") if l.strip()]
            ndocs = len(lines) // 2
            # Elasticsearch keys every item of its answer by the action that the client wrote (index, create, ...)
            for l in lines[0::2]:
                try:
                    ops.append(next(iter(json.loads(l))))
                except Exception:
                    ops.append("index")
        w.requests.append((method, target.split("?")[0], kind, ndocs))
        return self._answer(kind, head, ndocs, ops)

    def _answer(self, kind, head, ndocs, ops=()):
        op = lambda i: ops[i] if i < len(ops) else "index"  # noqa: E731
        if kind == "ctimeout":
            raise elastic_transport.ConnectionTimeout("Connection timed out", errors=(TimeoutError("read timed out"),))
        if kind == "cerror":
            raise elastic_transport.ConnectionError("Connection error caused by: NewConnectionError(Failed to establish a new connection: [Errno 111] Connection refused)")
        if kind == "tls":
            raise elastic_transport.TlsError("TLS error caused by: SSLError(certificate verify failed)")
        if kind == "ok":
            if head:
                return self._resp(200)
            if ndocs:
                items = [{op(i): {"_index": "rally-metrics-2026-09", "_id": f"id{i}", "_version": 1, "result": "created", "status": 201}} for i in range(ndocs)]
                return self._resp(200, json.dumps({"took": 3, "errors": False, "items": items}).encode())
            return self._resp(200, json.dumps({"acknowledged": True, "hits": {"total": {"value": 0, "relation": "eq"}, "hits": []}}).encode())
        if kind == "badjson":
            return self._resp(200, b"" if head else b"{\"acknowledged\": tru")
        if kind.startswith("http"):
            status = int(kind[4:])
            etype, reason = ERRORS[status]
            payload = {"error": {"root_cause": [{"type": etype, "reason": reason}], "type": etype, "reason": reason}, "status": status}
            return self._resp(status, b"" if head else json.dumps(payload).encode())
        if kind.startswith("jsn"):
            status = int(kind[4:])
            etype, reason = ERRORS[status]
            payload = {
                "A": {"error": {"root_cause": [], "type": "search_phase_execution_exception", "reason": "all shards failed", "phase": "query", "grouped": True, "failed_shards": []}, "status": status},
                "B": {"error": f"{reason} (plain text error)", "status": status},
                "C": {"message": reason, "ok": False},
                "D": [{"error": {"type": etype, "reason": reason}}],
                "E": {"error": {"reason": reason, "caused_by": {"reason": "no type anywhere"}}, "status": status},
                "F": {"error": [reason, {"reason": "second entry"}], "status": status},
            }[kind[3]]
            return self._resp(status, b"" if head else json.dumps(payload).encode())
        if kind.startswith("html"):
            status = int(kind[4:])
            return self._resp(status, b"" if head else f"<html><body><h1>{status} from the load balancer</h1></body></html>".encode(), ctype="text/html")
        if kind.startswith("text"):
            status = int(kind[4:])
            return self._resp(status, b"" if head else b"upstream connect error or disconnect/reset before headers", ctype="text/plain")
        if kind.startswith("empty"):
            return self._resp(int(kind[5:]), b"", ctype=None)
        if kind.startswith("items"):
            statuses = [int(s) for s in kind[5:].split("+")]
            if not ndocs:
                # not a bulk request: answer like a plain error of the first status
                status = statuses[0] if statuses[0] >= 300 else 200
                if status == 200:
                    return self._resp(200, b"" if head else b"{\"acknowledged\": true}")
                etype, reason = ERRORS[status]
                return self._resp(status, b"" if head else json.dumps({"error": {"type": etype, "reason": reason}, "status": status}).encode())
            items = []
            for i in range(ndocs):
                s = statuses[i % len(statuses)]
                if s < 300:
                    items.append({op(i): {"_index": "rally-metrics-2026-09", "_id": f"id{i}", "_version": 1, "result": "created", "status": s}})
                else:
                    etype, reason = ERRORS[s]
                    items.append({op(i): {"_index": "rally-metrics-2026-09", "_id": f"id{i}", "status": s, "error": {"type": etype, "reason": reason}}})
            return self._resp(200, json.dumps({"took": 3, "errors": True, "items": items}).encode())
        raise AssertionError(kind)

    def close(self):
        pass


class _Recorder:
    """Stands between EsClient and the real client: every API function fetched through it records what it returned / raised."""

    def __init__(self, wire, real, depth=0):
        object.__setattr__(self, "_wire", wire)
        object.__setattr__(self, "_real", real)
        object.__setattr__(self, "_depth", depth)

    def __getattr__(self, name):
        real = getattr(self._real, name)
        if name == "transport":
            return real
        if name == "indices" and self._depth == 0:
            return _Recorder(self._wire, real, 1)
        if not callable(real):
            return real
        return self._wire.recording(real, name)


class Wire:
    def __init__(self, env):
        self.env = env
        self.trace = None
        self.kinds, self.tail, self.consumed, self.requests = [], "ok", 0, []

    def alphabet(self, target):
        return WIRE_BASE + (WIRE_BULK if target in ("bulk_index", "index") else [])

    def transient_kinds(self, target):
        """Kinds that are (mostly) transient faults in the statement's terms; only used to steer the generator."""
        t = ["ctimeout", "cerror", "tls", "http429", "http502", "http503", "http504", "html502", "html503", "html504", "text503", "empty502", "jsnA503", "jsnB503", "jsnC502", "jsnD504", "jsnE503", "jsnF429"]
        if target in ("bulk_index", "index"):
            t += ["items429", "items503", "items429+201", "items502+504"]
        return t

    def next_kind(self):
        i = self.consumed
        self.consumed += 1
        return self.kinds[i] if i < len(self.kinds) else self.tail

    def recording(self, fn, name):
        wire = self

        @functools.wraps(fn)
        def wrapper(*args, **kwargs):
            t = wire.trace
            i = len(t.outcomes)
            if i >= 40:
                from props.c17 import Abort

                raise Abort()
            t.events.append(("call", i))
            t.calls.append((name, args, kwargs))
            wire.sticky = None
            try:
                res = fn(*args, **kwargs)
            except Exception as e:  # pylint: disable=broad-except
                t.outcomes.append((True, e))
                raise
            t.outcomes.append((False, res))
            return res

        return wrapper

    def run(self, target, kinds, tail):
        from props import c17

        self.trace = c17.Trace()
        self.env.trace = self.trace
        self.kinds, self.tail, self.consumed, self.requests = list(kinds), tail, 0, []
        self.run_no = getattr(self, "run_no", 0) + 1
        self.faults_hit_product_check = self.run_no % 2 == 0
        self.product_check_faults = 0
        self.sticky = None
        ScriptedNode.current = self
        factory = rally_client.EsClientFactory(
            hosts=[{"host": HOST, "port": PORT}],
            client_options={"timeout": 120, "node_class": ScriptedNode, "max_retries": 0, "retry_on_timeout": False},
        )
        real = factory.create()
        real_bulk = self.env.real_bulk
        recorded_bulk = self.recording(lambda client, *a, **k: real_bulk(client._real if isinstance(client, _Recorder) else client, *a, **k), "bulk")
        recorded_bulk.__name__ = "bulk"
        elasticsearch.helpers.bulk = recorded_bulk
        es_client = metrics.EsClient(_Recorder(self, real))
        try:
            res = c17.call_operation(es_client, target, self.env.ops[target])
            final = ("return", res)
        except c17.Abort:
            final = ("abort", None)
        except c17.HarnessError:
            raise
        except Exception as e:  # pylint: disable=broad-except
            final = ("raise", e)
        finally:
            self.env.use_scripted_bulk()
        return self.trace, final, [r[2] for r in self.requests]

    def agree(self, ctx, target, kinds, tail, trace, final, label):
        """The faults of the statement must reach `guarded` as the classes the statement talks about: every attempt is one HTTP exchange
        (operation-reaches-store), and a transient fault on the wire (timeout, connection error, HTTP 429/502/503/504 whatever the body, bulk
        items all 429/502/503/504) is a transient outcome of the wrapped function; 401 / 403 are fatal; success is success (wire-agrees)."""
        from props import c17

        out = []
        ctx.clause("operation-reaches-store")
        if len(self.requests) != len(trace.outcomes):
            what = f"raised {type(final[1]).__name__}: {c17.short(str(final[1]))}" if final[0] == "raise" else f"returned {c17.short(final[1])}"
            out.append(("operation-reaches-store", f"{label}: against the real client {len(trace.outcomes)} call(s) of the wrapped function made {len(self.requests)} HTTP exchange(s); the operation {what}"))
            return out
        ctx.clause("wire-agrees")
        for i, ((method, path, kind, ndocs), outcome) in enumerate(zip(self.requests, trace.outcomes)):
            cls, detail = c17.classify_outcome(*outcome)
            want = None
            if kind in ("ctimeout", "cerror", "tls"):
                want = "transient"
            elif kind[:4] in ("http", "html", "text", "jsnA", "jsnB", "jsnC", "jsnD", "jsnE", "jsnF") or kind.startswith("empty"):
                status = int(kind[4:] if not kind.startswith("empty") else kind[5:])
                if status in c17.RETRYABLE_STATUS:
                    want = "transient"
                elif status in (401, 403):
                    want = "fatal"
            elif kind.startswith("items") and path.endswith("/_bulk"):
                statuses = [int(s) for s in kind[5:].split("+")]
                bad = [s for s in (statuses[j % len(statuses)] for j in range(ndocs)) if s >= 300]
                want = "success" if not bad else ("transient" if all(s in c17.RETRYABLE_STATUS for s in bad) else "fatal")
            elif kind == "ok":
                want = "success"
            if want is not None and cls != want:
                out.append((
                    "wire-agrees",
                    f"{label}: attempt {i + 1}: '{kind}' on the wire ({method} {path}) is a {want} outcome in the statement's terms but reached guarded() as "
                    f"{cls}/{detail}: {c17.short(outcome[1])}",
                ))
                break
        return out
