"""C10 helpers: track model generator, printer (model -> track directory with Jinja), rule mutators.

Vocabulary
  spec tree    what is written into the track file: dict / list / scalars, with special leaves/wrappers
               P (a Jinja track-parameter expression), Inc ({% include %}), Coll (rally.collect), Cond ({% if %} list item)
  expect tree  what the loaded Track must contain according to docs/track.rst (plain dicts, leaves may be PV = "this value
               came out of a track parameter")
Both trees are produced together by the generator (print-then-parse: the model is the expected value, the spec is its print).
"""
import copy
import json
import re

# --------------------------------------------------------------------------- leaves / wrappers of the spec tree


class P:
    """A scalar written as a Jinja expression over a track parameter."""

    def __init__(self, name, default, eff, form, supplied):
        self.name, self.default, self.eff, self.form, self.supplied = name, default, eff, form, supplied

    def render(self, macro_ok=True):
        d = self.default
        if self.form == "macro" and macro_ok and self.macro_able():
            # the parameter is read inside a macro that lives in a file imported WITHOUT context: only what the loader makes available
            # to every template (not just to the top-level render call) is visible there
            return "{{ vm.m_%s() }}" % self.name
        if isinstance(d, bool):
            lit = "true" if d else "false"
        elif isinstance(d, str):
            lit = '"%s"' % d
        else:
            lit = repr(d)
        f = self.form
        if f == "setvar":  # {% set name = eff %} in the header, no track parameter
            return "{{ %s }}" % self.name
        if f == "bare":  # no default, value must be supplied
            if isinstance(self.eff, str):
                return '"{{ %s }}"' % self.name
            if isinstance(self.eff, bool):
                return "{{ %s | tojson }}" % self.name
            return "{{ %s }}" % self.name
        if isinstance(d, bool):
            return "{{ %s | default(%s) | tojson }}" % (self.name, lit)
        if isinstance(d, str):
            if f == "tojson":
                return "{{ %s | default(%s) | tojson }}" % (self.name, lit)
            return '"{{ %s | default(\'%s\') }}"' % (self.name, d)
        if f == "tight":
            return "{{%s|default(%s)}}" % (self.name, lit)
        return "{{ %s | default(%s) }}" % (self.name, lit)


def _macro_able(p):
    return isinstance(p.default, int) and not isinstance(p.default, bool) and isinstance(p.eff, int) and not isinstance(p.eff, bool)


P.macro_able = _macro_able


def macro_definition(p):
    return "{%% macro m_%s() %%}{{ %s | default(%r) }}{%% endmacro %%}" % (p.name, p.name, p.default)


class PV:
    """Expected value that was produced by parameter substitution."""

    def __init__(self, v, name):
        self.v, self.name = v, name


class Inc:
    """node is written to <path> and pulled in with {% include "<path>" %} (docs/adding_tracks.rst 'Structuring your track')."""

    def __init__(self, path, node):
        self.path, self.node = path, node


class Coll:
    """list items written to <dir>/NN.json and pulled in with rally.collect (docs/adding_tracks.rst, track_collect_helper)."""

    def __init__(self, dirname, items, macro=False):
        self.dirname, self.items, self.macro = dirname, items, macro


class ESP:
    """dict entry written with Rally's helper {{ rally.exists_set_param("key", param) }} (docs/advanced.rst): the entry exists
    only when the parameter is supplied (or a default_value is given). Stored in the spec dict under its key."""

    def __init__(self, p, default_value=None):
        self.p, self.default_value = p, default_value

    def present(self):
        return self.p.supplied or self.default_value is not None

    def value(self):
        return self.p.eff if self.p.supplied else self.default_value


class Cond:
    """list item wrapped in {% if flag %}...{% endif %}; flag is a P (bool)."""

    def __init__(self, flag, node):
        self.flag, self.node = flag, node


def unwrap(x):
    return x.v if isinstance(x, PV) else x


def plain(node):
    """spec tree -> plain JSON value (what the rendered track must be), dropping false Cond items."""
    if isinstance(node, P):
        return node.eff
    if isinstance(node, Inc):
        return plain(node.node)
    if isinstance(node, dict):
        return {k: (plain(v) if not isinstance(v, ESP) else v.value()) for k, v in node.items() if not isinstance(v, ESP) or v.present()}
    if isinstance(node, list):
        out = []
        for it in node:
            if isinstance(it, Coll):
                out.extend(plain(x) for x in it.items)
            elif isinstance(it, Cond):
                if it.flag.eff:
                    out.append(plain(it.node))
            else:
                out.append(plain(it))
        return out
    return node


def exp_json(node):
    if isinstance(node, PV):
        return {"$pv": exp_json(node.v), "p": node.name}
    if isinstance(node, dict):
        return {k: exp_json(v) for k, v in node.items()}
    if isinstance(node, (list, tuple)):
        return [exp_json(v) for v in node]
    return node


def exp_unjson(node):
    if isinstance(node, dict):
        if set(node.keys()) == {"$pv", "p"}:
            return PV(exp_unjson(node["$pv"]), node["p"])
        return {k: exp_unjson(v) for k, v in node.items()}
    if isinstance(node, list):
        return [exp_unjson(v) for v in node]
    return node


# --------------------------------------------------------------------------- printer


class Printer:
    def __init__(self):
        self.files = {}
        self.refs = {}  # param name -> set of contexts in which it is referenced
        self.stack = ["main"]
        self.coll_dirs = []  # directories of the enclosing (textually assembled) collects: a nested collect is relative to them
        self.macros = {}  # parameter name -> P, for parameters read through an imported macro file

    def ctx(self):
        if "macro-part" in self.stack:
            return "macro-part"
        if "jinja-include" in self.stack:
            return "jinja-include"
        if "collect-part" in self.stack:
            return "collect-part"
        return self.stack[0]

    def ref(self, p):
        if p.form != "setvar":
            self.refs.setdefault(p.name, set()).add(self.ctx())

    def emit(self, node, ind=0):
        pad = " " * ind
        if isinstance(node, P):
            # the imported name `vm` is known in track.json, in textually collected parts and in {% include %}d files (they get the context),
            # not in body files (rendered on their own) nor in parts that the collect *macro* renders
            macro_ok = self.ctx() in ("main", "collect-part", "jinja-include")
            if node.form == "macro" and macro_ok and node.macro_able():
                self.macros[node.name] = node
                self.refs.setdefault(node.name, set()).add("imported-macro-file")
            else:
                self.ref(node)
            return node.render(macro_ok)
        if isinstance(node, Inc):
            self.stack.append("jinja-include")
            self.files[node.path] = self.emit(node.node, 0) + "\n"
            self.stack.pop()
            return '{%% include "%s" %%}' % node.path
        if isinstance(node, dict):
            if not node:
                return "{}"
            parts, helper = [], ""
            for k, v in node.items():
                if isinstance(v, ESP):
                    continue
                parts.append("%s  %s: %s" % (pad, json.dumps(k, ensure_ascii=False), self.emit(v, ind + 2)))
            for k, v in node.items():
                if isinstance(v, ESP):  # at most one per dict; the helper brings its own leading comma
                    self.ref(v.p)
                    args = '"%s", %s' % (k, v.p.name)
                    if v.default_value is not None:
                        args += ", default_value=%s" % json.dumps(v.default_value)
                    if not parts:
                        args += ", comma=False"
                    helper = "\n%s  {{ rally.exists_set_param(%s) }}" % (pad, args)
            return "{\n" + ",\n".join(parts) + helper + "\n" + pad + "}"
        if isinstance(node, list):
            if not node:
                return "[]"
            if all(not isinstance(x, (dict, list, Coll, Cond, Inc, P)) for x in node):
                return json.dumps(node, ensure_ascii=False)
            out = []
            n = len(node)
            for i, it in enumerate(node):
                last = i == n - 1
                sep = "" if last else ","
                if isinstance(it, Coll):
                    self.stack.append("macro-part" if it.macro else "collect-part")
                    # Rally assembles a collect found inside a collected part relative to the directory of that part
                    # (TemplateSource.replace_includes recurses with the directory of the glob); {% include %} stays root-relative
                    self.coll_dirs.append(it.dirname)
                    for j, sub in enumerate(it.items):
                        self.files["%s/%02d.json" % ("/".join(self.coll_dirs), j)] = self.emit(sub, 0) + "\n"
                    self.coll_dirs.pop()
                    self.stack.pop()
                    if it.macro:
                        # same helper, but written so that Rally's textual pre-assembly does not apply and the Jinja macro runs
                        # (without blanks inside the braces - pre-assembled all the same since 851d1bd - or with the other kind of string quotes Jinja knows)
                        # or with blanks around the keyword argument, as a code formatter for Jinja would write it)
                        if len(self.files) % 3 == 1:
                            out.append("%s  {{ rally.collect(parts='%s/*.json') }}%s" % (pad, it.dirname, sep))
                            self.single_quoted_collect = True
                        elif len(self.files) % 3 == 2:
                            out.append('%s  {{ rally.collect( parts = "%s/*.json" ) }}%s' % (pad, it.dirname, sep))
                            self.blanks_in_collect_call = True
                        else:
                            out.append('%s  {{rally.collect(parts="%s/*.json")}}%s' % (pad, it.dirname, sep))
                    elif i > 0 and isinstance(node[i - 1], Coll) and not node[i - 1].macro:
                        # two collects in a row are written on ONE line
                        out[-1] += ' {{ rally.collect(parts="%s/*.json") }}%s' % (it.dirname, sep)
                    else:
                        out.append('%s  {{ rally.collect(parts="%s/*.json") }}%s' % (pad, it.dirname, sep))
                elif isinstance(it, Cond):
                    assert not last, "conditional list items must not be last"
                    self.ref(it.flag)
                    lit = "true" if it.flag.default else "false"
                    out.append("%s  {%% if %s | default(%s) %%}%s,{%% endif %%}" % (pad, it.flag.name, lit, self.emit(it.node, ind + 2)))
                else:
                    out.append("%s  %s%s" % (pad, self.emit(it, ind + 2), sep))
            return "[\n" + "\n".join(out) + "\n" + pad + "]"
        return json.dumps(node, ensure_ascii=False)


def print_track(spec, header_sets, use_import, body_files):
    """Returns (files, refs). body_files: {file name: spec tree} for index bodies / templates."""
    pr = Printer()
    head = ""
    for name, val in header_sets:
        head += "{%% set %s = %s %%}\n" % (name, json.dumps(val))
    if use_import:
        head += '{% import "rally.helpers" as rally with context %}\n' if (header_sets or use_import == "ctx") else '{% import "rally.helpers" as rally %}\n'
    body = pr.emit(spec, 0)
    pr.stack = ["body-file"]
    for fname, tree in body_files.items():
        pr.files[fname] = pr.emit(tree, 0) + "\n"
    if pr.macros:
        pr.files["verif_macros.json"] = "\n".join(macro_definition(p) for p in pr.macros.values()) + "\n"
        head += '{% import "verif_macros.json" as vm %}\n'
    pr.files["track.json"] = head + body + "\n"
    return pr.files, {k: sorted(v) for k, v in pr.refs.items()}


def params_cli(rng, user_params):
    """The string that would follow --track-params= on the command line (docs/command_line_reference.rst, track-params)."""
    if not user_params:
        return ""
    simple = all(
        isinstance(v, (bool, int, float)) or (isinstance(v, str) and re.fullmatch(r"[a-z][a-z0-9_\-]*", v) and v not in ("true", "false", "none"))
        for v in user_params.values()
    )
    if simple and rng.random() < 0.5:
        def s(v):
            if isinstance(v, bool):
                return "true" if v else "false"
            return str(v)
        return ",".join("%s:%s" % (k, s(v)) for k, v in user_params.items())
    return json.dumps(user_params)


# --------------------------------------------------------------------------- documented operation types (docs/track.rst, section "operations")

DOC_OPERATION_TYPES = [
    "bulk", "force-merge", "index-stats", "node-stats", "search", "paginated-search", "scroll-search", "composite-agg", "put-pipeline",
    "put-settings", "cluster-health", "refresh", "create-index", "delete-index", "create-ilm-policy", "delete-ilm-policy",
    "create-data-stream", "delete-data-stream", "create-composable-template", "create-component-template", "create-index-template",
    "delete-composable-template", "delete-component-template", "delete-index-template", "shrink-index", "delete-ml-datafeed",
    "create-ml-datafeed", "start-ml-datafeed", "stop-ml-datafeed", "delete-ml-job", "create-ml-job", "open-ml-job", "close-ml-job",
    "raw-request", "sleep", "delete-snapshot-repository", "create-snapshot-repository", "create-snapshot", "wait-for-snapshot-create",
    "wait-for-current-snapshots-create", "restore-snapshot", "wait-for-recovery", "create-transform", "start-transform",
    "wait-for-transform", "delete-transform", "transform-stats", "composite", "submit-async-search", "get-async-search",
    "delete-async-search", "open-point-in-time", "close-point-in-time", "sql", "downsample", "field-caps", "esql",
]


def doc_operation_types(track_rst="/repo/docs/track.rst"):
    """Operation types listed as sub-sections of 'operations' in docs/track.rst; falls back to the list above."""
    try:
        lines = open(track_rst, encoding="utf-8").read().splitlines()
    except OSError:
        return list(DOC_OPERATION_TYPES), "builtin-list"
    out, inside = [], False
    for i in range(1, len(lines)):
        if re.fullmatch(r"\.{4,}", lines[i]):
            inside = lines[i - 1].strip() == "operations"
        elif inside and re.fullmatch(r"~{3,}", lines[i]) and re.fullmatch(r"[a-z][a-z\-]+", lines[i - 1].strip()):
            out.append(lines[i - 1].strip())
    return (out, "docs/track.rst") if len(out) >= 40 else (list(DOC_OPERATION_TYPES), "builtin-list")


# --------------------------------------------------------------------------- generator

ODD_STRINGS = ["plain", "with space", "naïve café", 'q"uote', "back\\slash", "tab\there", "日本", "a/b:c", "100%"]
JINJA_GLOBAL_NAMES = ["range", "dict", "namespace", "cycler", "joiner", "lipsum"]
MARKUP_STRINGS = ["R&D", "<logs-{now/d}>", "a>b", "x&y<z", "1 < 2 && 3 > 2"]
SIMPLE_WORDS = ["alpha", "beta", "gamma", "delta", "logs", "geo", "nyc", "so", "pmc", "http"]
TIME_KEYS = ("warmup-iterations", "iterations", "warmup-time-period", "time-period", "ramp-up-time-period")
EXP_KEY = {"warmup-iterations": "wi", "iterations": "it", "warmup-time-period": "wtp", "time-period": "tp", "ramp-up-time-period": "rup"}


class Gen:
    def __init__(self, rng, size="small", want=None):
        self.rng = rng
        self.size = size
        self.want = want  # the rule that will be violated in the twin: bias the model so that the rule is applicable
        self.params = {}  # name -> dict(default, eff, supplied, kind)
        self.sets = []  # header {% set %} variables
        self.counter = 0
        self.features = set()
        self.needs_import = False
        self.param_budget = rng.choice([0, 0, 2, 4, 8])
        self.p_supplied = rng.choice([0.0, 0.3, 0.6])

    # ---- parameters
    def fresh(self, prefix):
        self.counter += 1
        return "%s_%d" % (prefix, self.counter)

    def pv(self, eff, prefix="p", allow_set=True):
        """Returns (spec leaf, expect leaf) for scalar eff: literal, or a track parameter."""
        rng = self.rng
        if self.param_budget <= 0 or rng.random() < 0.5 or isinstance(eff, float):
            return eff, eff
        self.param_budget -= 1
        # reuse a parameter with the same effective value now and then (one parameter, several places)
        same = [n for n, d in self.params.items() if d["form"] not in ("esp", "cond") and type(d["eff"]) is type(eff) and d["eff"] == eff]
        if same and rng.random() < 0.4:
            d = self.params[same[0]]
            self.features.add("param-reused")
            return P(same[0], d["default"], eff, d["form"], d["supplied"]), PV(eff, same[0])
        if allow_set and isinstance(eff, int) and not isinstance(eff, bool) and rng.random() < 0.1:
            name = self.fresh("var")
            self.sets.append((name, eff))
            self.features.add("set-variable")
            return P(name, eff, eff, "setvar", False), eff
        name = self.fresh(prefix)
        supplied = rng.random() < self.p_supplied
        if supplied and isinstance(eff, int) and not isinstance(eff, bool) and rng.random() < 0.04:
            free = [g for g in JINJA_GLOBAL_NAMES if g not in self.params]
            if free:
                # a perfectly good parameter name that happens to be one of Jinja's own global names
                name = rng.choice(free)
                self.features.add("param-named-like-a-jinja-global")
        if supplied:
            if isinstance(eff, bool):
                default = not eff
            elif isinstance(eff, int):
                default = eff + rng.choice([1, 7, 100])
            else:
                default = "dflt"
            form = rng.choice(["spaced", "tight", "tojson", "bare"])
        else:
            default = eff
            form = rng.choice(["spaced", "tight", "tojson"])
        if isinstance(eff, int) and not isinstance(eff, bool) and rng.random() < 0.15:
            form = "macro"
            self.features.add("param-in-imported-macro")
        self.params[name] = {"default": default, "eff": eff, "supplied": supplied, "form": form}
        self.features.add("param-supplied" if supplied else "param-default")
        return P(name, default, eff, form, supplied), PV(eff, name)

    def pstr(self):
        return self.rng.choice(SIMPLE_WORDS) + str(self.rng.randint(0, 9))

    def text(self):
        return self.rng.choice(ODD_STRINGS) if self.rng.random() < 0.3 else self.rng.choice(SIMPLE_WORDS)

    def meta(self):
        rng = self.rng
        if rng.random() < 0.7:
            return None
        return {rng.choice(["owner", "tag", "k"]): rng.choice([1, "x", True, self.text()]), "n": rng.randint(0, 5)}

    # ---- operations
    def op_params(self, typ):
        rng = self.rng
        p = {}
        if typ == "bulk":
            p["bulk-size"] = rng.choice([1, 100, 5000])
            if rng.random() < 0.3 or self.want == "schema-enum":
                p["conflicts"] = rng.choice(["sequential", "random"])
            if rng.random() < 0.2:
                p["pipeline"] = "pipe"
        elif typ in ("search", "paginated-search", "scroll-search", "composite-agg"):
            p["body"] = {"query": rng.choice([{"match_all": {}}, {"term": {"f": self.text()}}])}
            if rng.random() < 0.4:
                p["index"] = rng.choice(["logs-*", "idx0", "_all"])
            if rng.random() < 0.3:
                p["cache"] = rng.random() < 0.5
            if typ != "search":
                p["pages"] = rng.randint(1, 5)
                p["results-per-page"] = rng.choice([10, 100])
        elif typ == "force-merge":
            if rng.random() < 0.4 or self.want == "schema-enum":
                p["mode"] = rng.choice(["blocking", "polling"])
                p["poll-period"] = rng.randint(1, 20)
        elif typ == "cluster-health":
            p["request-params"] = {"wait_for_status": rng.choice(["green", "yellow"])}
            p["retry-until-success"] = True
        elif typ == "sleep":
            p["duration"] = rng.randint(1, 30)
        elif typ == "raw-request":
            p["method"] = "GET"
            p["path"] = "/_cat/indices"
        else:
            if rng.random() < 0.4:
                p[rng.choice(["index", "pipeline"])] = self.pstr()
            if rng.random() < 0.12:
                # characters that mean something to HTML / XML but nothing to a track: they must come out of the template as they went in
                p["pipeline"] = rng.choice(MARKUP_STRINGS)
            if rng.random() < 0.3:
                p["settings"] = {"a.b": rng.randint(0, 3), "nested": {"x": [1, 2, {"y": None}]}}
        if rng.random() < 0.2:
            p["request-timeout"] = rng.choice([1.5, 30, 0.25])
        if rng.random() < 0.2:
            p["include-in-reporting"] = rng.random() < 0.5
        if rng.random() < 0.15:
            p["retries"] = rng.randint(0, 5)
        if rng.random() < 0.1:
            p["assertions"] = [{"property": "hits", "condition": ">", "value": 0}]
        return p

    def operation(self, name, custom_ok=True, force_type=None):
        """Returns (spec dict, expect dict). name None => not written (defaults to the type, docs 'Defining operations')."""
        rng = self.rng
        custom = custom_ok and rng.random() < 0.15
        typ = rng.choice(["my-custom-op", "percolate", "x-pack-thing"]) if custom else rng.choice(self.doc_types)
        if force_type:
            typ = force_type
        self.used_types.add(typ)
        spec, written = {}, {}
        if name is not None:
            spec["name"] = written["name"] = name
        spec["operation-type"] = written["operation-type"] = typ
        for k, v in self.op_params(typ).items():
            if isinstance(v, int) and not isinstance(v, bool) and k in ("bulk-size", "pages", "duration", "retries"):
                s, e = self.pv(v, k.replace("-", "_"))
            elif isinstance(v, str) and k in ("index", "pipeline") and (re.fullmatch(r"[a-z0-9]+", v) or v in MARKUP_STRINGS):
                s, e = self.pv(v, k)
                if v in MARKUP_STRINGS and isinstance(s, P):
                    self.features.add("param-value-with-markup-characters")
            elif isinstance(v, bool) and k == "cache":
                s, e = self.pv(v, k)
            else:
                s, e = v, v
            spec[k], written[k] = s, e
        if self.param_budget > 0 and rng.random() < 0.08:
            # docs/advanced.rst: set a value only if the track parameter has been provided
            self.param_budget -= 1
            pname = self.fresh("opt")
            supplied = rng.random() < max(self.p_supplied, 0.3)
            val = rng.choice([-1, 8, "40mb"])
            dv = rng.choice([None, None, 5])
            self.params[pname] = {"default": dv, "eff": val, "supplied": supplied, "form": "esp"}
            esp = ESP(P(pname, dv, val, "esp", supplied), dv)
            spec["max-bytes-setting"] = esp
            if esp.present():
                written["max-bytes-setting"] = PV(esp.value(), pname)
            self.needs_import = True
            self.features.add("exists_set_param-" + ("supplied" if supplied else ("default" if dv is not None else "absent")))
        ps = None
        if rng.random() < 0.1:
            ps = spec["param-source"] = written["param-source"] = rng.choice(["my-source", "sorted-terms"])
            self.features.add("param-source")
        m = self.meta()
        if m is not None:
            spec["meta"] = written["meta"] = m
        exp = {"name": name if name is not None else typ, "type": typ, "params": written, "param_source": ps, "meta": m or {}}
        return spec, exp

    # ---- tasks
    def timing(self, mode, allow_rup):
        rng = self.rng
        d = {}
        if mode == "iter":
            ks = rng.choice([["iterations"], ["warmup-iterations", "iterations"], ["warmup-iterations"]])
            for k in ks:
                d[k] = rng.choice([0, 5, 50, 500]) if k == "warmup-iterations" else rng.choice([1, 10, 100, 1000])
        elif mode == "time":
            ks = rng.choice([["time-period"], ["warmup-time-period", "time-period"], ["warmup-time-period"]])
            for k in ks:
                d[k] = rng.choice([0, 10, 120, 300]) if k == "warmup-time-period" else rng.choice([1, 60, 600])
            if allow_rup and "warmup-time-period" in d and rng.random() < 0.4:
                d["ramp-up-time-period"] = rng.choice([0, d["warmup-time-period"], d["warmup-time-period"] // 2])
                self.features.add("ramp-up")
        return d

    def task(self, ch_names, ops_section, pdefaults=None, in_parallel=False):
        """Returns (spec, expect). ch_names: task names used so far in this challenge."""
        rng = self.rng
        spec, written = {}, {}
        # operation: reference / inline dict / inline type string
        how = rng.choice(["ref", "ref", "inline", "inline", "typestr"]) if ops_section else rng.choice(["inline", "inline", "typestr"])
        if how == "ref":
            oname = rng.choice(sorted(ops_section))
            op_spec, op_exp = oname, ops_section[oname]
            self.features.add("op-by-reference")
        elif how == "typestr":
            cands = [t for t in ["force-merge", "refresh", "create-index", "delete-index", "node-stats", "index-stats"] if t not in ops_section]
            typ = rng.choice(cands)
            op_spec, op_exp = typ, {"name": typ, "type": typ, "params": {}, "param_source": None, "meta": {}}
            self.features.add("op-type-string")
        else:
            named = rng.random() < 0.6
            oname = None
            if named:
                oname = self.fresh("iop")
            op_spec, op_exp = self.operation(oname)
            self.features.add("op-inline-named" if named else "op-inline-unnamed")
        default_name = op_exp["name"]
        if default_name in ch_names or rng.random() < 0.35:
            tname = self.fresh("task")
            spec["name"] = written["name"] = tname
        else:
            tname = default_name
            self.features.add("task-name-from-operation")
        ch_names.add(tname)
        spec["operation"] = op_spec
        # clients
        clients = 1
        if rng.random() < 0.5:
            clients = rng.choice([1, 2, 4, 8, 16])
            spec["clients"], written["clients"] = self.pv(clients, "clients")
        # timing
        pd = pdefaults or {}
        if pd:
            mode = "iter" if ("iterations" in pd or "warmup-iterations" in pd) else "time"
            own = {}
            if rng.random() < 0.55:
                cand = self.timing(mode, False)
                for k, v in cand.items():
                    if rng.random() < 0.6:
                        own[k] = v
            if "ramp-up-time-period" in pd:
                eff_wtp = own.get("warmup-time-period", pd.get("warmup-time-period"))
                if eff_wtp is None or eff_wtp < pd["ramp-up-time-period"]:
                    own["warmup-time-period"] = pd["ramp-up-time-period"] + rng.choice([0, 5])
        elif self.want == "ramp-up-larger-than-warmup-time-period" and not self.forced_task:
            self.forced_task = True  # the rule needs a time-based task with a warm-up time period
            own = {"warmup-time-period": rng.choice([0, 10, 120])}
            if rng.random() < 0.5:
                own["time-period"] = rng.choice([1, 60])
        else:
            mode = rng.choice(["none", "iter", "time"])
            own = self.timing(mode, allow_rup=not in_parallel)
        inherited = []
        eff = {}
        for k in TIME_KEYS:
            if k in own:
                s, e = self.pv(own[k], k.replace("-", "_"))
                spec[k], written[k] = s, e
                eff[k] = e
                if k in pd:
                    self.features.add("parallel-default-overridden")
            elif k in pd:
                eff[k] = pd[k]
                inherited.append(k)
        # throughput
        thr = None
        r = rng.random()
        if r < 0.2:
            v = rng.choice([1, 10, 100, 0.5, 1000])
            spec["target-throughput"] = written["target-throughput"] = v
            thr = [float(v), "ops/s"]
            self.features.add("target-throughput")
        elif r < 0.3:
            v = rng.choice([2, 5, 0.5, 10])
            spec["target-interval"] = written["target-interval"] = v
            thr = [1.0 / v, "ops/s"]
            self.features.add("target-interval")
        elif r < 0.35:
            # "<number> <unit>/s" (docs/track.rst, target-throughput): whole and fractional numbers, also the ".5" spelling
            v, u = rng.choice([10, 500, 2.5, 0.5, 0.25, 1.75]), rng.choice(["docs/s", "pages/s", "MB/s", "ops/s"])
            text = ("%d" % v) if float(v).is_integer() else (("%s" % v).lstrip("0") if rng.random() < 0.3 else "%s" % v)
            spec["target-throughput"] = written["target-throughput"] = "%s %s" % (text, u)
            thr = [float(v), u]
            self.features.add("target-throughput-unit")
            if not float(v).is_integer():
                self.features.add("target-throughput-fractional-string")
        sched = None
        if rng.random() < 0.2:
            sched = spec["schedule"] = written["schedule"] = rng.choice(["deterministic", "poisson", "my-sched"])
            if sched == "my-sched":
                spec["my-sched-param"] = written["my-sched-param"] = rng.randint(1, 9)
        tags = []
        if rng.random() < 0.25:
            t = rng.choice(["setup", ["setup"], ["a", "b"], "query"])
            spec["tags"] = written["tags"] = t
            tags = [t] if isinstance(t, str) else list(t)
            self.features.add("tags")
        m = self.meta()
        if m is not None:
            spec["meta"] = written["meta"] = m
        if rng.random() < 0.08:
            spec["ignore-response-error-level"] = written["ignore-response-error-level"] = "non-fatal"
        if rng.random() < 0.08:
            spec["run-on-serverless"] = written["run-on-serverless"] = rng.random() < 0.5
        exp = {
            "kind": "task", "name": tname, "op": op_exp, "clients": written.get("clients", 1),
            "wi": eff.get("warmup-iterations"), "it": eff.get("iterations"), "wtp": eff.get("warmup-time-period"),
            "tp": eff.get("time-period"), "rup": eff.get("ramp-up-time-period"),
            "tags": tags, "meta": m or {}, "schedule": sched, "completes_parent": False, "any_completes_parent": False,
            "throughput": thr, "params": written, "inherited": inherited,
        }
        if inherited:
            self.features.add("parallel-default-inherited")
        return spec, exp

    def parallel(self, ch_names, ops_section, force_rup=False):
        rng = self.rng
        pspec = {}
        mode = rng.choice(["none", "none", "iter", "time", "time"])
        pd = self.timing(mode, allow_rup=True)
        if force_rup:
            w = rng.choice([10, 120, 300])
            pd = {"warmup-time-period": w, "ramp-up-time-period": rng.choice([0, w // 2, w])}
            if rng.random() < 0.5:
                pd["time-period"] = rng.choice([1, 60])
            self.features.add("ramp-up")
        elif pd and rng.random() < 0.3:  # only part of the defaults
            k = rng.choice(sorted(pd))
            if k != "warmup-time-period" or "ramp-up-time-period" not in pd:
                pd = {kk: vv for kk, vv in pd.items() if kk != k}
        pd_exp = {}
        for k, v in pd.items():
            s, e = self.pv(v, "par_" + k.replace("-", "_"))
            pspec[k], pd_exp[k] = s, e
        pclients = None
        if rng.random() < 0.4:
            pclients = rng.choice([1, 2, 3, 8])
            pspec["clients"], pclients = self.pv(pclients, "par_clients")
            self.features.add("parallel-clients")
        n = rng.choice([1, 2, 2, 3, 4])
        tspecs, texps = [], []
        for _ in range(n):
            # values inherited are the *effective* ones (PV unwrapped inside task())
            s, e = self.task(ch_names, ops_section, {k: unwrap(v) for k, v in pd_exp.items()}, in_parallel=True)
            for k in e["inherited"]:
                e[EXP_KEY[k]] = pd_exp[k]
            tspecs.append(s)
            texps.append(e)
        cb = None
        r = rng.random()
        if r < 0.25:
            cb = rng.choice(texps)["name"]
            self.features.add("completed-by-name")
        elif r < 0.4:
            cb = "any"
            self.features.add("completed-by-any")
        if cb is not None:
            pspec["completed-by"] = cb
            for e in texps:
                e["completes_parent"] = cb != "any" and e["name"] == cb
                e["any_completes_parent"] = cb == "any"
        pspec["tasks"] = tspecs
        if pd:
            self.features.add("parallel-defaults")
        if "ramp-up-time-period" in pd:
            self.features.add("parallel-ramp-up")
        return {"parallel": pspec}, {"kind": "parallel", "clients": pclients, "tasks": texps, "completed_by": cb}

    def schedule(self, ops_section):
        rng = self.rng
        n = rng.choice([1, 2, 3, 3, 4, 5]) if self.size == "small" else rng.choice([2, 4, 6, 9])
        names = set()
        specs, exps = [], []
        force_at = rng.randrange(n) if self.want in ("unknown-completed-by", "ramp-up-overridden-in-nested-task") and not self.forced_parallel else -1
        for i in range(n):
            if i == force_at:
                self.forced_parallel = True
                s, e = self.parallel(names, ops_section, force_rup=self.want == "ramp-up-overridden-in-nested-task")
            elif rng.random() < 0.35:
                s, e = self.parallel(names, ops_section)
            else:
                s, e = self.task(names, ops_section)
            # conditional list item (never the last one)
            if i < n - 1 and rng.random() < 0.08 and self.param_budget > 0:
                self.param_budget -= 1
                on = rng.random() < 0.5
                name = self.fresh("with_step")
                supplied = rng.random() < self.p_supplied
                default = (not on) if supplied else on
                self.params[name] = {"default": default, "eff": on, "supplied": supplied, "form": "cond"}
                flag = P(name, default, on, "cond", supplied)
                specs.append(Cond(flag, s))
                self.features.add("conditional-task-on" if on else "conditional-task-off")
                if on:
                    exps.append(e)
                else:
                    # its names are free again (the task does not exist); None keeps spec and expectation aligned
                    exps.append(None)
                    for t in (e["tasks"] if e["kind"] == "parallel" else [e]):
                        names.discard(t["name"])
                continue
            specs.append(s)
            exps.append(e)
        return specs, exps

    # ---- whole track
    def track(self, doc_types):
        rng = self.rng
        self.doc_types = doc_types
        self.used_types = set()
        self.forced_parallel = False
        self.forced_task = False
        want = self.want
        spec, exp = {}, {}
        body_files = {}
        if rng.random() < 0.8:
            spec["version"] = 2
        desc = ""
        if rng.random() < 0.7:
            desc = self.text()
            spec["description"] = desc
        exp["description"] = desc
        m = self.meta()
        if m is not None:
            spec["meta"] = m
        exp["meta"] = m or {}
        # ---- indices / data streams / templates
        kind = rng.choice(["indices", "indices", "indices", "data-streams", "none"])
        if want == "indices+data-streams" and kind == "none":
            kind = rng.choice(["indices", "data-streams"])
        exp["indices"], exp["data_streams"] = [], []
        if kind == "indices":
            n = rng.choice([1, 1, 2, 3])
            lst = []
            for i in range(n):
                e = {"name": "idx%d" % i, "body": {}, "types": []}
                s = {"name": e["name"]}
                if rng.random() < 0.6:
                    fname = "index-%d.json" % i
                    sh, she = self.pv(rng.choice([1, 2, 5]), "shards", allow_set=False)
                    body_files[fname] = {"settings": {"index.number_of_shards": sh, "codec": self.text()}, "mappings": {"properties": {"f": {"type": "keyword"}}}}
                    e["body"] = {"settings": {"index.number_of_shards": she, "codec": body_files[fname]["settings"]["codec"]}, "mappings": {"properties": {"f": {"type": "keyword"}}}}
                    s["body"] = fname
                    self.features.add("index-body-file")
                if rng.random() < 0.25:
                    e["types"] = s["types"] = rng.choice([["docs"], ["docs"], ["t1", "t2"]])
                    self.features.add("index-types")
                lst.append(s)
                exp["indices"].append(e)
            spec["indices"] = lst
        elif kind == "data-streams":
            n = rng.choice([1, 1, 2])
            spec["data-streams"] = [{"name": "ds%d" % i} for i in range(n)]
            exp["data_streams"] = ["ds%d" % i for i in range(n)]
            self.features.add("data-streams")
        exp["templates"], exp["composable"], exp["component"] = [], [], []
        if rng.random() < (0.5 if kind == "none" else 0.15):
            content = {"index_patterns": ["logs-*"], "settings": {"number_of_replicas": rng.randint(0, 2)}}
            body_files["tpl.json"] = content
            s = {"name": "tpl", "index-pattern": "logs-*", "template": "tpl.json"}
            dm = True  # docs/track.rst templates: delete-matching-indices defaults to true
            if rng.random() < 0.5:
                dm = s["delete-matching-indices"] = rng.random() < 0.5
            spec["templates"] = [s]
            exp["templates"] = [{"name": "tpl", "pattern": "logs-*", "delete": dm, "content": content}]
            self.features.add("templates")
        if rng.random() < (0.6 if kind == "data-streams" else 0.15):
            rep, repe = self.pv(rng.randint(0, 2), "replicas", allow_set=False)
            inner = {"settings": {"number_of_replicas": rep}}
            innere = {"settings": {"number_of_replicas": repe}}
            body_files["component.json"] = {"template": inner}
            cs = {"name": "comp", "template": "component.json"}
            ce = {"name": "comp", "content": {"template": innere}}
            if rng.random() < 0.4:
                cs["template-path"] = "template"
                ce["content"] = innere
            spec["component-templates"] = [cs]
            exp["component"] = [ce]
            full = {"index_patterns": ["ds*"], "composed_of": ["comp"], "data_stream": {}}
            body_files["composable.json"] = full
            s = {"name": "composable", "index-pattern": "ds*", "template": "composable.json"}
            dm = True
            if rng.random() < 0.5:
                dm = s["delete-matching-indices"] = rng.random() < 0.5
            spec["composable-templates"] = [s]
            exp["composable"] = [{"name": "composable", "pattern": "ds*", "delete": dm, "content": full}]
            self.features.add("composable-templates")
        # ---- corpora
        exp["corpora"] = []
        self.corpus_default_wo_section = False
        if rng.random() < 0.75 or want == "dup-corpus-name":
            spec["corpora"] = []
            for ci in range(rng.choice([1, 1, 2, 3])):
                s, e = self.corpus(ci, kind, exp)
                spec["corpora"].append(s)
                exp["corpora"].append(e)
        # ---- operations section
        ops_section = {}
        if rng.random() < 0.6 or want in ("dup-operation-name", "schema-enum"):
            lst = []
            for i in range(rng.choice([1, 2, 3, 5])):
                if i == 0 and want == "schema-enum":
                    s, e = self.operation("op0", force_type=rng.choice(["bulk", "force-merge"]))
                    ops_section[e["name"]] = e
                    lst.append(s)
                    continue
                if i == 0 and rng.random() < 0.2:
                    # named like its type, docs/track.rst "Defining operations" first example
                    s, e = self.operation("tmp", custom_ok=False)
                    s["name"] = e["params"]["name"] = e["name"] = e["type"]
                    if e["name"] in ops_section:
                        continue
                else:
                    s, e = self.operation("op%d" % i)
                ops_section[e["name"]] = e
                lst.append(s)
            spec["operations"] = lst
        exp["operations"] = ops_section
        # ---- challenges
        form = rng.choice(["challenges", "challenges", "challenge", "schedule"])
        many = want in ("dup-challenge-name", "no-default-challenge", "two-default-challenges")
        if many:
            form = "challenges"
        exp["form"] = form
        exp["challenges"] = []
        selected = None
        if form == "schedule":
            s, e = self.schedule(ops_section)
            spec["schedule"] = s
            exp["challenges"].append({"name": None, "description": None, "user_info": None, "default": True, "selected": True, "meta": {}, "schedule": e})
            self.features.add("top-level-schedule")
        else:
            n = 1 if form == "challenge" else rng.choice([2, 2, 3] if many else [1, 2, 2, 3])
            default_ix = rng.randrange(n)
            chs = []
            for i in range(n):
                cs, ce = {}, {}
                cs["name"] = ce["name"] = "ch%d" % i if rng.random() < 0.8 else self.text() + str(i)
                ce["description"] = ce["user_info"] = None
                if rng.random() < 0.5:
                    cs["description"] = ce["description"] = self.text()
                if rng.random() < 0.15:
                    cs["user-info"] = ce["user_info"] = "deprecated, use " + self.text()
                if n == 1:
                    # docs/track.rst l.450 challenge.default: a single challenge is implicitly the default, whatever it says
                    r = rng.random()
                    if r < 0.3:
                        cs["default"] = True
                    elif r < 0.45:
                        cs["default"] = False
                        self.features.add("single-challenge-default-false")
                    ce["default"] = True
                else:
                    ce["default"] = i == default_ix
                    if ce["default"]:
                        cs["default"], _ = self.pv(True, "is_default") if rng.random() < 0.2 else (True, True)
                    elif rng.random() < 0.3:
                        cs["default"] = False
                m = self.meta()
                if m is not None:
                    cs["meta"] = m
                ce["meta"] = m or {}
                cs["schedule"], ce["schedule"] = self.schedule(ops_section)
                chs.append(cs)
                exp["challenges"].append(ce)
            if n > 1:
                self.features.add("multiple-challenges")
                if rng.random() < 0.5:
                    selected = rng.choice(exp["challenges"])["name"]
            for ce in exp["challenges"]:
                ce["selected"] = n == 1 or ce["name"] == selected
            if form == "challenge":
                spec["challenge"] = chs[0]
                self.features.add("single-challenge-element")
            else:
                spec["challenges"] = chs
        exp["dependencies"] = []
        if rng.random() < 0.1:
            spec["dependencies"] = exp["dependencies"] = ["pytoml", "eland<8.0.0"]
        exp["unordered_challenges"] = False
        return spec, exp, body_files, selected

    def corpus(self, ci, kind, exp):
        rng = self.rng
        s = {"name": "corpus%d" % ci}
        e = {"name": s["name"], "meta": {}, "documents": []}
        m = self.meta()
        if m is not None:
            s["meta"] = m
            e["meta"] = m
        dflt = {}
        if rng.random() < 0.4:
            dflt["base-url"] = "https://example.org/corpora/" + s["name"]
        if rng.random() < 0.15:
            dflt["source-format"] = "bulk"
        if rng.random() < 0.15:
            dflt["includes-action-and-meta-data"] = rng.random() < 0.5
        idx_names = [i["name"] for i in exp["indices"]]
        ds_names = exp["data_streams"]
        sole_type = exp["indices"][0]["types"][0] if len(idx_names) == 1 and len(exp["indices"][0]["types"]) == 1 else None
        # corpus-level target defaults (docs/track.rst corpora: "you can specify default values on document corpus level")
        if kind == "indices":
            if rng.random() < 0.35:
                dflt["target-index"] = rng.choice(idx_names)
            if rng.random() < 0.15:
                dflt["target-type"] = "docs"
        elif kind == "data-streams":
            if rng.random() < 0.35:
                dflt["target-data-stream"] = rng.choice(ds_names)
        else:
            # no indices / data-streams section (track works on templates or existing data): targets are given explicitly.
            if rng.random() < 0.12:
                r = rng.random()
                if r < 0.4:
                    dflt["target-index"] = "logs-2024"
                elif r < 0.7:
                    dflt["target-data-stream"] = "logs-ds"
                else:
                    dflt["target-type"] = "docs"
                self.corpus_default_wo_section = True
                self.features.add("corpus-target-default-without-section")
        s.update(dflt)
        if dflt:
            self.features.add("corpus-level-defaults")
        docs = []
        for di in range(rng.choice([1, 1, 2, 3])):
            d, w = {}, {}
            # docs/track.rst: ".zip, .bz2, .gz, .tar, .tar.gz, .tgz, .tar.bz2 or zst ... must contain exactly one JSON file with the same name"
            ext = rng.choice([".json", ".json", ".json", ".json.bz2", ".json.bz2", ".json.gz", ".json.zst", ".json.zip", ".json.tar", ".json.tar.gz", ".json.tgz", ".json.tar.bz2"])
            if ext.count(".") > 2 or ext.endswith((".tar", ".tgz")):
                self.features.add("tar-archive-source-file")
            src = "documents-%d-%d%s" % (ci, di, ext)
            d["source-file"] = src
            cnt, cnte = self.pv(rng.choice([1, 1000, 11396505]), "doc_count")
            d["document-count"] = cnt
            comp = unc = None
            if rng.random() < 0.5 and ext != ".json":
                comp = d["compressed-bytes"] = rng.randint(1, 10**9)
            if rng.random() < 0.5:
                unc = d["uncompressed-bytes"] = rng.randint(1, 10**10)
            for k in ("base-url", "includes-action-and-meta-data"):
                if rng.random() < 0.2:
                    w[k] = ("https://other.example.org/" + s["name"]) if k == "base-url" else (rng.random() < 0.3)
            if rng.random() < 0.1:
                w["source-format"] = "bulk"
            iam = w.get("includes-action-and-meta-data", dflt.get("includes-action-and-meta-data", False))
            # targets at document level
            if kind == "indices":
                need = len(idx_names) > 1 and "target-index" not in dflt and not iam
                if need or rng.random() < 0.3:
                    w["target-index"] = rng.choice(idx_names)
                if rng.random() < 0.1:
                    w["target-type"] = rng.choice(["docs", "other"])
            elif kind == "data-streams":
                need = len(ds_names) > 1 and "target-data-stream" not in dflt and not iam
                if need or rng.random() < 0.3:
                    w["target-data-stream"] = rng.choice(ds_names)
            else:
                has_default = "target-index" in dflt or "target-data-stream" in dflt
                if not iam and (not has_default or rng.random() < 0.3):
                    if "target-data-stream" in dflt or ("target-index" not in dflt and "target-type" not in dflt and rng.random() < 0.4):
                        w["target-data-stream"] = "logs-ds-doc"
                    else:
                        w["target-index"] = "logs-doc"
            dm = self.meta()
            if dm is not None:
                d["meta"] = dm
            d.update(w)
            docs.append(d)
            # ---- expectation per docs/track.rst corpora
            inherited = []

            def val(k, fallback=None):
                if k in w:
                    return w[k]
                if k in dflt:
                    inherited.append(k)
                    return dflt[k]
                return fallback

            ee = {
                "source_format": val("source-format", "bulk"),
                "base_url": val("base-url"),
                "iam": val("includes-action-and-meta-data", False),
                "count": cnte, "compressed": comp, "uncompressed": unc, "meta": dm or {},
                "archive": src if ext != ".json" else None,
                "file": src[: len(src) - len(ext)] + ".json",
            }
            if ee["iam"]:
                # "Ignored if includes-action-and-meta-data is true"
                ee["target_index"] = ee["target_type"] = ee["target_data_stream"] = None
            else:
                ee["target_index"] = val("target-index", idx_names[0] if len(idx_names) == 1 else None)
                ee["target_data_stream"] = val("target-data-stream", ds_names[0] if len(ds_names) == 1 else None)
                ee["target_type"] = val("target-type", sole_type)
                if ("target-index" not in w and "target-index" not in dflt and len(idx_names) == 1) or (
                    "target-data-stream" not in w and "target-data-stream" not in dflt and len(ds_names) == 1
                ):
                    inherited.append("derived-from-sole-index-or-data-stream")
            ee["inherited"] = inherited
            e["documents"].append(ee)
        s["documents"] = docs
        return s, e


# --------------------------------------------------------------------------- layout: includes / collect

def apply_layout(seed, spec, features, level, needs_import=False):
    """Wraps parts of the spec tree into Inc / Coll. Every decision is a coin keyed by the element it concerns, so that removing
    other elements (shrinking) does not change it. Returns (spec, use_import, unordered_challenges)."""
    import random

    def coin(key):
        return random.Random(f"{seed}:{key}").random()

    use_import = [None, None, "plain", "ctx"][int(coin("import") * 4)]
    if needs_import and use_import is None:
        use_import = "plain"
    unordered = False
    if level == 0:
        return spec, use_import, unordered
    spec = dict(spec)
    if "challenges" in spec:
        r = coin("challenges")
        chs = spec["challenges"]
        if r < 0.2:
            # parts pulled in by the macro are rendered in the helper module's context, where "rally" itself is not defined
            macro = coin("macro") < 0.15 and not needs_import
            spec["challenges"] = [Coll("challenges", chs, macro=macro)]
            use_import = use_import or "ctx"
            unordered = len(chs) > 1  # glob order is not a property of the track
            features.add("collect-challenges-macro" if macro else "collect-challenges")
            if not macro:
                # a collected challenge may itself collect: one schedule item (glob order does not matter for one file) moves to
                # a sub-directory *of the challenges directory*
                new = []
                for ci, c in enumerate(chs):
                    sched = c.get("schedule") if isinstance(c, dict) else None
                    if isinstance(sched, list) and sched and coin("nested:" + str(plain(c)["name"])) < 0.35:
                        k = int(coin("nested-at:" + str(plain(c)["name"])) * len(sched))
                        if not isinstance(sched[k], (Cond, Coll)) and not (k == len(sched) - 1 and any(isinstance(x, Cond) for x in sched)):
                            c = dict(c)
                            c["schedule"] = sched[:k] + [Coll("sub%d" % ci, [sched[k]])] + sched[k + 1:]
                            features.add("nested-collect")
                    new.append(c)
                spec["challenges"] = [Coll("challenges", new, macro=False)]
        elif r < 0.4:
            new = []
            for c in chs:
                if coin("inc-ch:" + str(plain(c)["name"])) < 0.7:
                    new.append(Inc("challenges/%s.json" % len(new), c))
                    features.add("include-challenge")
                else:
                    new.append(c)
            spec["challenges"] = new
        else:
            # include a single task of a schedule
            new = []
            for c in chs:
                c = dict(c)
                c["schedule"] = wrap_tasks(coin, c["schedule"], features, str(plain(c)["name"]), len(new))
                new.append(c)
            spec["challenges"] = new
    elif "challenge" in spec:
        if coin("challenge") < 0.25:
            spec["challenge"] = Inc("challenges/only.json", spec["challenge"])
            features.add("include-challenge")
    elif "schedule" in spec:
        spec["schedule"] = wrap_tasks(coin, spec["schedule"], features, "")
    if "operations" in spec and coin("operations") < 0.25:
        ops = spec["operations"]
        if len(ops) >= 2 and coin("operations-split") < 0.4:
            k = 1 + int(coin("operations-split-at") * (len(ops) - 1))
            spec["operations"] = [Coll("operations", ops[:k]), Coll("operations-more", ops[k:])]
            features.add("two-collects-on-one-line")
        else:
            spec["operations"] = [Coll("operations", ops)]
        use_import = use_import or "plain"
        features.add("collect-operations")
    return spec, use_import, unordered


def wrap_tasks(coin, sched, features, chname, prefix=0):
    out = []
    for it in sched:
        if isinstance(it, Cond):
            out.append(it)
            continue
        pj = plain(it)
        key = _tname(None, pj["parallel"]["tasks"][0]) + "+" if "parallel" in pj else _tname(None, pj)
        if coin("inc-task:%s:%s" % (chname, key)) < 0.1:
            out.append(Inc("tasks/c%d-t%d.json" % (prefix, len(out)), it))
            features.add("include-task")
        else:
            out.append(it)
    return out


# --------------------------------------------------------------------------- mutators (one rule each)
# Each mutator works on the *plain* JSON of a valid track (parameters resolved) plus the user parameters and returns
# (mutated json, user params, description) or None when the rule cannot be violated in this track.
# The line numbers refer to /repo/docs/track.rst unless noted.

def _leaf_tasks(ch):
    """[(container list, index, task dict, parallel dict or None)] for one challenge spec."""
    out = []
    for i, it in enumerate(ch["schedule"]):
        if "parallel" in it:
            for j, t in enumerate(it["parallel"]["tasks"]):
                out.append((it["parallel"]["tasks"], j, t, it["parallel"]))
        else:
            out.append((ch["schedule"], i, it, None))
    return out


def _challenges(js):
    if "challenges" in js:
        return js["challenges"]
    if "challenge" in js:
        return [js["challenge"]]
    return [{"name": "default", "schedule": js["schedule"]}]


def _opname(js, t):
    op = t["operation"]
    if isinstance(op, str):
        return op
    return op.get("name", op.get("operation-type"))


def _tname(js, t):
    return t.get("name", _opname(js, t))


def _eff(t, par):
    e = {}
    for k in TIME_KEYS:
        if k in t:
            e[k] = t[k]
        elif par is not None and k in par:
            e[k] = par[k]
    return e


def m_dup_task(rng, js, up):
    # l.464: "if the same operation is run multiple times, a unique task name must be specified"
    cands = []
    for ci, ch in enumerate(_challenges(js)):
        leaves = _leaf_tasks(ch)
        if len(leaves) >= 2:
            cands.append((ci, leaves))
    if not cands:
        return None
    ci, leaves = rng.choice(cands)
    a, b = rng.sample(range(len(leaves)), 2)
    ta, tb = leaves[a][2], leaves[b][2]
    pa, pb = leaves[a][3], leaves[b][3]
    na, nb = _tname(js, ta), _tname(js, tb)
    for p in (pa, pb):
        if p is not None and p.get("completed-by") in (na, nb):
            return None  # keep it to exactly one violated rule
    how = rng.choice(["name", "operation"]) if isinstance(ta["operation"], str) and "name" not in ta else "name"
    if how == "operation" and "name" not in tb:
        tb["operation"] = ta["operation"]  # the same operation twice without task names
    else:
        tb["name"] = na
    where = "same-parallel" if pa is not None and pa is pb else ("with-parallel" if (pa is not None or pb is not None) else "sequential")
    return js, up, {"rule": "dup-task-name", "where": where, "name": na, "challenge": ci}


def m_dup_challenge(rng, js, up):
    # property statement "duplicate ... challenge ... names"; l.447 "name (mandatory): A descriptive name of the challenge"
    if len(js.get("challenges", [])) < 2:
        return None
    a, b = rng.sample(range(len(js["challenges"])), 2)
    js["challenges"][b]["name"] = js["challenges"][a]["name"]
    return js, up, {"rule": "dup-challenge-name", "name": js["challenges"][a]["name"]}


def m_dup_corpus(rng, js, up):
    # property statement "duplicate ... corpus ... names"; l.330 "name (mandatory): Name of this document corpus ... used in directory names"
    if not js.get("corpora"):
        return None
    cs = js["corpora"]
    if len(cs) >= 2 and rng.random() < 0.5:
        a, b = rng.sample(range(len(cs)), 2)
        cs[b]["name"] = cs[a]["name"]
        name = cs[a]["name"]
    else:
        c = copy.deepcopy(rng.choice(cs))
        c["documents"] = [dict(c["documents"][0])]
        c["documents"][0]["source-file"] = "other-" + c["documents"][0]["source-file"]
        cs.insert(rng.randrange(len(cs) + 1), c)
        name = c["name"]
    return js, up, {"rule": "dup-corpus-name", "name": name}


def m_dup_operation(rng, js, up):
    # property statement "duplicate ... operation names"; l.680 "name (mandatory) ... needed to reference the operation when defining schedules"
    ops = js.get("operations")
    if not ops:
        return None
    if len(ops) >= 2 and rng.random() < 0.5:
        a, b = rng.sample(range(len(ops)), 2)
        # keep references valid: a reference to b's old name would become an inline type string, which is a different track but
        # not an additional rule violation
        ops[b]["name"] = ops[a]["name"]
        name = ops[a]["name"]
    else:
        o = copy.deepcopy(rng.choice(ops))
        o["x-variant"] = 2
        ops.insert(rng.randrange(len(ops) + 1), o)
        name = o["name"]
    return js, up, {"rule": "dup-operation-name", "name": name}


def m_no_default(rng, js, up):
    # l.450: "otherwise you need to define "default": true on exactly one challenge"
    chs = js.get("challenges", [])
    if len(chs) < 2:
        return None
    for c in chs:
        if c.get("default"):
            if rng.random() < 0.5:
                del c["default"]
            else:
                c["default"] = False
    return js, up, {"rule": "no-default-challenge", "n": len(chs)}


def m_two_defaults(rng, js, up):
    # l.450 as above
    chs = js.get("challenges", [])
    if len(chs) < 2:
        return None
    others = [c for c in chs if not c.get("default")]
    rng.choice(others)["default"] = True
    return js, up, {"rule": "two-default-challenges", "n": len(chs)}


def _pick_task(rng, js, pred):
    cands = []
    for ci, ch in enumerate(_challenges(js)):
        for lst, i, t, par in _leaf_tasks(ch):
            if pred(t, par, _eff(t, par)):
                cands.append((ci, t, par))
    return rng.choice(cands) if cands else None


def m_warmup_iter_with_time(rng, js, up):
    # property statement "mixing iterations with time periods"; l.604 "Time-based vs. iteration-based"
    got = _pick_task(rng, js, lambda t, par, e: not any(k in e for k in ("warmup-time-period", "time-period", "ramp-up-time-period")))
    if not got:
        return None
    ci, t, par = got
    e = _eff(t, par)
    via = "task"
    if "warmup-iterations" not in e:
        t["warmup-iterations"] = rng.choice([0, 10, 100])
    if par is not None and "time-period" not in par and rng.random() < 0.4:
        par["time-period"] = rng.choice([1, 60])  # arrives at the task as an inherited default
        via = "parallel-default"
    else:
        t["time-period"] = rng.choice([1, 60])
    return js, up, {"rule": "warmup-iterations+time-period", "via": via, "task": _tname(js, t), "in_parallel": par is not None}


def m_warmup_time_with_iter(rng, js, up):
    # property statement "mixing iterations with time periods"; l.604
    got = _pick_task(rng, js, lambda t, par, e: not any(k in e for k in ("warmup-iterations", "warmup-time-period", "time-period", "ramp-up-time-period")))
    if not got:
        return None
    ci, t, par = got
    e = _eff(t, par)
    via = "task"
    if "iterations" not in e:
        t["iterations"] = rng.choice([1, 10, 100])
    if par is not None and "warmup-time-period" not in par and rng.random() < 0.4:
        par["warmup-time-period"] = rng.choice([0, 10, 60])
        via = "parallel-default"
    else:
        t["warmup-time-period"] = rng.choice([0, 10, 60])
    return js, up, {"rule": "warmup-time-period+iterations", "via": via, "task": _tname(js, t), "in_parallel": par is not None}


def _time_only(e):
    return not any(k in e for k in ("warmup-iterations", "iterations"))


def m_rampup_without_warmup(rng, js, up):
    # l.470 / l.612: "This property requires warmup-time-period to be set as well"
    got = _pick_task(rng, js, lambda t, par, e: _time_only(e) and "warmup-time-period" not in e and "ramp-up-time-period" not in e)
    if not got:
        return None
    ci, t, par = got
    r = rng.choice([0, 5, 30])
    if par is None:
        t["ramp-up-time-period"] = r
    else:
        if not all(_time_only(_eff(x, par)) for x in par["tasks"]):
            return None
        par["ramp-up-time-period"] = r  # only allowed on the parallel element; this task has no warm-up time period
    return js, up, {"rule": "ramp-up-without-warmup-time-period", "task": _tname(js, t), "in_parallel": par is not None, "ramp_up": r}


def m_rampup_gt_warmup(rng, js, up):
    # l.470 / l.612: "warmup-time-period ... must be greater than or equal to the ramp-up time"
    got = _pick_task(rng, js, lambda t, par, e: _time_only(e) and "warmup-time-period" in e)
    if not got:
        return None
    ci, t, par = got
    e = _eff(t, par)
    if par is None:
        t["ramp-up-time-period"] = e["warmup-time-period"] + rng.choice([1, 10])
        r = t["ramp-up-time-period"]
    else:
        if not all(_time_only(_eff(x, par)) and "warmup-time-period" in _eff(x, par) for x in par["tasks"]):
            return None
        # larger than the smallest warm-up among the tasks, not larger than needed
        r = min(_eff(x, par)["warmup-time-period"] for x in par["tasks"]) + rng.choice([1, 10])
        for x in par["tasks"]:
            x.pop("ramp-up-time-period", None)
        par["ramp-up-time-period"] = r
    return js, up, {"rule": "ramp-up-larger-than-warmup-time-period", "task": _tname(js, t), "in_parallel": par is not None, "ramp_up": r, "warmup": e["warmup-time-period"]}


def m_rampup_override(rng, js, up):
    # l.612: parallel ramp-up-time-period: "If this property is defined here, it cannot be overridden in nested tasks."
    got = _pick_task(rng, js, lambda t, par, e: par is not None and "ramp-up-time-period" in par and "ramp-up-time-period" not in t and e.get("warmup-time-period", 0) >= 1)
    if not got:
        return None
    ci, t, par = got
    e = _eff(t, par)
    choices = [v for v in range(0, e["warmup-time-period"] + 1) if v != par["ramp-up-time-period"]]
    if not choices:
        return None
    t["ramp-up-time-period"] = rng.choice(choices)
    return js, up, {"rule": "ramp-up-overridden-in-nested-task", "task": _tname(js, t), "parallel": par["ramp-up-time-period"], "task_value": t["ramp-up-time-period"]}


def m_unknown_completed_by(rng, js, up):
    # l.617: completed-by "Allows to define the name of one task in the tasks list, or the value any"
    cands = []
    for ch in _challenges(js):
        for it in ch["schedule"]:
            if "parallel" in it:
                cands.append((ch, it["parallel"]))
    if not cands:
        return None
    ch, par = rng.choice(cands)
    names = {_tname(js, t) for t in par["tasks"]}
    outside = [_tname(js, t) for _, _, t, p in _leaf_tasks(ch) if p is not par and _tname(js, t) not in names]
    pool = ["no-such-task", "Any", "ANY"] + outside[:2]  # a task of the same challenge that is not in this tasks list counts as unknown
    par["completed-by"] = rng.choice(pool)
    return js, up, {"rule": "unknown-completed-by", "completed_by": par["completed-by"], "tasks": sorted(names), "names_other_task": par["completed-by"] in outside}


def m_indices_and_data_streams(rng, js, up):
    # l.210 "Cannot be used if the data-streams section is specified" / l.258
    if "indices" in js and "data-streams" not in js:
        js["data-streams"] = [{"name": "extra-ds"}]
    elif "data-streams" in js and "indices" not in js:
        js["indices"] = [{"name": "extra-idx"}]
    else:
        return None
    return js, up, {"rule": "indices+data-streams", "corpora": len(js.get("corpora", []))}


def m_unused_param(rng, js, up):
    # property statement "unused ... track parameters"
    up = dict(up)
    name = rng.choice(["not_used_anywhere", "bulk_sizes", "clientz", "Number_Of_Shards"])
    up[name] = rng.choice([1, "x", True])
    return js, up, {"rule": "unused-track-parameter", "param": name, "others": len(up) - 1}


def m_reserved_param(rng, js, up):
    # docs/migrate.rst l.34, l.43 (serverless_operator, build_flavor "becomes a reserved name"); docs/advanced.rst l.20 ("now" is Rally's global)
    up = dict(up)
    name = rng.choice(["build_flavor", "serverless_operator", "now"])
    up[name] = rng.choice([1, "x", True])
    # note: Jinja's find_undeclared_variables skips names that are environment globals, so a reserved name never counts as "used"
    # by the track; the same parameter is therefore also an unused one and both checks lead to a TrackConfigError
    return js, up, {"rule": "reserved-track-parameter", "param": name, "others": len(up) - 1}


def m_future_version(rng, js, up):
    # l.165: "Rally uses it to detect incompatible future track specification versions and raise an error" (any Rally error will do)
    js["version"] = rng.choice([3, 4, 10])
    return js, up, {"rule": "unsupported-future-version", "path": ["version"], "to": js["version"]}


def m_docs_mandatory(rng, js, up):
    # l.353 document-count (mandatory); l.466 task.operation (mandatory); l.681 operation-type (mandatory)
    cands = []
    for ci, c in enumerate(js.get("corpora", [])):
        for di, d in enumerate(c["documents"]):
            cands.append(("document-count", d, "document-count"))
    for ch in _challenges(js):
        for lst, i, t, par in _leaf_tasks(ch):
            cands.append(("task.operation", t, "operation"))
            if isinstance(t["operation"], dict):
                cands.append(("inline operation-type", t["operation"], "operation-type"))
    what, obj, key = rng.choice(cands)
    del obj[key]
    return js, up, {"rule": "docs-mandatory-missing", "what": what}


# ---- schema-driven mutations
JSON_TYPES = {
    "string": "s", "integer": 7, "number": 1.5, "boolean": True, "object": {"k": 1}, "array": [1], "null": None,
    # track-schema.json declares JSON-schema draft 04, where "integer" is a JSON number without fraction part: 4.0 (what Jinja's true division
    # produces) is a number but no integer. Wrong wherever only "integer" is allowed.
    "integral-float": 4.0,
}


def _type_ok(v, t):
    if t == "string":
        return isinstance(v, str)
    if t == "integer":
        return isinstance(v, int) and not isinstance(v, bool)
    if t == "number":
        return isinstance(v, (int, float)) and not isinstance(v, bool)
    if t == "boolean":
        return isinstance(v, bool)
    if t == "object":
        return isinstance(v, dict)
    if t == "array":
        return isinstance(v, list)
    if t == "null":
        return v is None
    return False


def schema_sites(schema, js):
    """Walks the instance along the schema and returns the places where one constraint can be broken."""
    sites = []
    defs = schema.get("definitions", {})

    def res(s):
        while "$ref" in s:
            s = defs[s["$ref"].split("/")[-1]]
        return s

    def walk(s, v, path, parent, key):
        s = res(s)
        types = []
        if "type" in s:
            types = [s["type"]] if isinstance(s["type"], str) else list(s["type"])
        elif "anyOf" in s:
            types = [res(x).get("type") for x in s["anyOf"] if "type" in res(x)]
        if types and parent is not None:
            sites.append({"kind": "type", "path": path, "allowed": types, "parent": parent, "key": key})
        if "minimum" in s and isinstance(v, (int, float)) and not isinstance(v, bool) and parent is not None:
            sites.append({"kind": "minimum", "path": path, "minimum": s["minimum"], "parent": parent, "key": key})
        if "enum" in s and parent is not None:
            sites.append({"kind": "enum", "path": path, "parent": parent, "key": key})
        if isinstance(v, dict):
            for rk in s.get("required", []):
                if rk in v:
                    sites.append({"kind": "required", "path": path + [rk], "parent": v, "key": rk})
            for k, sub in s.get("properties", {}).items():
                if k in v:
                    walk(sub, v[k], path + [k], v, k)
        elif isinstance(v, list):
            if s.get("minItems", 0) >= 1 and parent is not None:
                sites.append({"kind": "minItems", "path": path, "parent": parent, "key": key})
            if s.get("uniqueItems") and v and parent is not None:
                sites.append({"kind": "uniqueItems", "path": path, "parent": parent, "key": key})
            if isinstance(s.get("items"), dict):
                for i, x in enumerate(v):
                    walk(s["items"], x, path + [i], v, i)

    walk(schema, js, [], None, None)
    return sites


def m_schema(kind):
    def mut(rng, js, up, schema=None):
        sites = [s for s in schema_sites(schema, js) if s["kind"] == kind and not (kind == "minimum" and s["path"] == ["version"])]
        if not sites:
            return None
        # spread over distinct keys instead of over the many task-level sites
        bykey = {}
        for s in sites:
            bykey.setdefault(str(s["path"][-1]) if not isinstance(s["path"][-1], int) else str(s["path"][-2:]), []).append(s)
        s = rng.choice(bykey[rng.choice(sorted(bykey))])
        if kind == "type" and "version" in bykey and rng.random() < 0.1:
            s = bykey["version"][0]  # the one field Rally reads before it validates against the schema
        d = {"rule": "schema-" + kind, "path": s["path"]}
        if kind == "required":
            del s["parent"][s["key"]]
        elif kind == "type":
            wrong = [t for t in JSON_TYPES if not any(_type_ok(JSON_TYPES[t], a) for a in s["allowed"])]
            t = rng.choice(wrong)
            s["parent"][s["key"]] = copy.deepcopy(JSON_TYPES[t])
            d["to"] = t
            d["allowed"] = s["allowed"]
        elif kind == "minimum":
            s["parent"][s["key"]] = s["minimum"] - 1
            d["to"] = s["minimum"] - 1
        elif kind == "enum":
            s["parent"][s["key"]] = "not-in-enum"
        elif kind == "minItems":
            s["parent"][s["key"]] = []
        elif kind == "uniqueItems":
            lst = s["parent"][s["key"]]
            lst.append(copy.deepcopy(rng.choice(lst)))
        return js, up, d

    mut.needs_schema = True
    return mut


MUTATORS = {
    "dup-task-name": m_dup_task,
    "dup-challenge-name": m_dup_challenge,
    "dup-corpus-name": m_dup_corpus,
    "dup-operation-name": m_dup_operation,
    "no-default-challenge": m_no_default,
    "two-default-challenges": m_two_defaults,
    "warmup-iterations+time-period": m_warmup_iter_with_time,
    "warmup-time-period+iterations": m_warmup_time_with_iter,
    "ramp-up-without-warmup-time-period": m_rampup_without_warmup,
    "ramp-up-larger-than-warmup-time-period": m_rampup_gt_warmup,
    "ramp-up-overridden-in-nested-task": m_rampup_override,
    "unknown-completed-by": m_unknown_completed_by,
    "indices+data-streams": m_indices_and_data_streams,
    "unused-track-parameter": m_unused_param,
    "reserved-track-parameter": m_reserved_param,
    "docs-mandatory-missing": m_docs_mandatory,
    "unsupported-future-version": m_future_version,
    "schema-required": m_schema("required"),
    "schema-type": m_schema("type"),
    "schema-minimum": m_schema("minimum"),
    "schema-enum": m_schema("enum"),
    "schema-minItems": m_schema("minItems"),
    "schema-uniqueItems": m_schema("uniqueItems"),
}


# --------------------------------------------------------------------------- probes (recorded, never judged)

def p_target_index_with_data_streams(rng, js):
    if "data-streams" not in js or not js.get("corpora"):
        return None
    d = rng.choice(rng.choice(js["corpora"])["documents"])
    if d.get("includes-action-and-meta-data"):
        return None
    d["target-index"] = "some-index"
    return js


def p_nested_ramp_up(rng, js):
    got = _pick_task(rng, js, lambda t, par, e: par is not None and "ramp-up-time-period" not in par and _time_only(e) and "warmup-time-period" in e)
    if not got:
        return None
    _, t, par = got
    t["ramp-up-time-period"] = _eff(t, par)["warmup-time-period"]
    return js


def p_throughput_and_interval(rng, js):
    got = _pick_task(rng, js, lambda t, par, e: True)
    _, t, par = got
    t["target-throughput"] = 10
    t["target-interval"] = 2
    return js


def p_iterations_and_time_period(rng, js):
    got = _pick_task(rng, js, lambda t, par, e: not any(k in e for k in ("warmup-iterations", "warmup-time-period", "ramp-up-time-period", "time-period")))
    if not got:
        return None
    _, t, par = got
    t["iterations"] = 10
    t["time-period"] = 60
    return js


def p_inline_operation_named_like_section_operation(rng, js):
    if not js.get("operations"):
        return None
    got = _pick_task(rng, js, lambda t, par, e: isinstance(t["operation"], dict) and "name" in t)
    if not got:
        return None
    _, t, par = got
    t["operation"]["name"] = rng.choice(js["operations"])["name"]
    return js


PROBES = {
    "target-index-with-data-streams": p_target_index_with_data_streams,
    "ramp-up-on-nested-task-only": p_nested_ramp_up,
    "target-throughput-and-target-interval": p_throughput_and_interval,
    "iterations-and-time-period": p_iterations_and_time_period,
    "inline-operation-named-like-section-operation": p_inline_operation_named_like_section_operation,
}
