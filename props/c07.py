"""C07 - every request sample reaches the metrics store exactly once.

Workload: complete simulated races (engines.race) with many short steps, over-committed parallel elements (a worker replaces its
Sampler between two rows without a join point), tasks longer than the 30 s post-processing tick, composite operations with
dependent timings, small sample queues and down-sampling, and line-level preemption between the worker actor and its executor.

Monitor: every logical request carries a unique id (task, client index, ordinal) that the runner returns in its meta data, so
every metrics record identifies the request it came from. Offline exactly-once and conservation check over the recorded
pipeline: Sampler.add -> Sampler.samples -> UpdateSamples -> Driver.update_samples -> SamplePostprocessor -> driver store ->
to_externalizable -> race control bulk_add -> final store content.
"""
import json

from esrally import metrics
from esrally.driver import driver

from engines import preempt, race
from props import c01

ID = "C07"
LEVEL = "exploration"
RULE = (
    "races generated as for C01 but biased to many short steps, over-commit (several rows between two join points), tasks that outlast the 30 s "
    "post-processing tick, composite operations, plus classes with a small sample queue or a down-sampling factor; a third of the races run with "
    "seeded line-level preemption inside Worker.receiveMsg_WakeupMessage / drive / send_samples / Sampler.samples; non-trivial = at least 10 samples and 2 steps; "
    "distinct = hash of the case"
)
ASSUMPTIONS = [
    "same actor/ES model as C01",
    "line-level preemption is injected only at statement boundaries of the listed Worker methods and lets the executor run at most 2 ms of virtual time ahead",
    "with a small queue or a down-sampling factor only 'records <= requests', 'drops only when the queue was full' and 'throughput unchanged' are demanded",
]
REQUIRED_CLAUSES = [
    "added=shipped", "shipped=received", "received=postprocessed", "records-per-request", "record-identity", "no-record-without-request",
    "handed-over=bulk-added", "dependent-timings", "queue-drops-only-when-full", "downsample-reduces-only", "throughput-from-all-samples", "queue-capacity-as-configured",
]
REQUIRED_FEATURES = {"over-commit": 3, "long-task-ticks": 2, "composite": 2, "small-queue": 2, "downsample": 2, "fine-preemption": 5, "multi-worker": 5, "meta-key-named-client-id": 5}
BUDGET = {"quick": {"cases": 700, "seconds": 27}, "thorough": {"cases": 15000, "seconds": 700}}


# ------------------------------------------------------------------------------------------------------------ generator
def gen_case(rng):
    case = c01.gen_case(rng)
    # many short steps
    extra = rng.choice([0, 2, 4, 8])
    n = sum(len(el["tasks"]) for el in case["elements"])
    for _ in range(extra):
        t = c01.gen_task(rng, f"t{n}", "normal", rng.choice([0.01, 0.1]))
        t["warmup_iterations"], t["iterations"] = rng.choice([0, 1]), rng.choice([1, 2, 5])
        t.pop("warmup_time_period", None)
        t.pop("time_period", None)
        case["elements"].insert(rng.randrange(len(case["elements"]) + 1), {"tasks": [t]})
        n += 1
    # a task that outlasts the 30 s tick
    if rng.random() < 0.3:
        t = c01.gen_task(rng, f"t{n}", "normal", 1.0)
        t.pop("warmup_iterations", None)
        t.pop("iterations", None)
        t["warmup_time_period"], t["time_period"] = rng.choice([0, 5]), rng.choice([40, 75, 130])
        t["svc"]["base"] = rng.choice([0.5, 2.0])
        case["elements"].append({"tasks": [t]})
        case["test_mode"] = False
        n += 1
    # force over-commit
    if rng.random() < 0.35:
        k = rng.choice([2, 3])
        tasks = []
        for _ in range(k):
            t = c01.gen_task(rng, f"t{n}", "normal", rng.choice([0.01, 0.3, 2.0]))
            t["warmup_iterations"], t["iterations"] = 0, rng.choice([1, 2, 4])
            t.pop("warmup_time_period", None)
            t.pop("time_period", None)
            tasks.append(t)
            n += 1
        if rng.random() < 0.6:
            # "resonant" rows: the executor finishes within a millisecond after one of the worker's wake-ups, which is when the
            # actor thread and the executor thread really race for the sampler
            wake = 0.5 if case["test_mode"] else 5.0
            for t in tasks:
                t["iterations"], t["requests"] = 1, [[{"wire": 1}]]
                t.pop("target_throughput", None)
                # just after the wake-up (actor yields to the executor) or just before it (executor yields to the actor)
                t["svc"] = {"mode": "const", "base": wake * rng.choice([1, 1, 2]) + rng.choice([0.0002, 0.0008, 0.0015, -0.0002, -0.0008, -0.0015]), "seed": 1}
            case["fine"] = True
            case["wakeup_jitter"] = 0.0
            case["delay"] = "zero"
        total = sum(t["clients"] for t in tasks)
        case["elements"].insert(rng.randrange(len(case["elements"]) + 1), {"parallel": True, "tasks": tasks, "clients_cap": rng.randint(1, max(1, total - 1))})
    # composite operation with dependent timings
    if rng.random() < 0.25:
        name = f"t{n}"
        n += 1
        case["elements"].append({"tasks": [{
            "name": name, "clients": rng.choice([1, 2]), "warmup_iterations": 0, "iterations": rng.choice([1, 3]), "requests": [[{"wire": 1}]],
            "composite": gen_composite(rng, name),
            "svc": {"mode": "const", "base": 0.1, "seed": 1},
        }]})
    # meta data whose key collides with the one rally itself adds to every record: a `client_id` in the meta block of a task or an operation
    # (docs/track.rst: arbitrary key-value pairs) or in what a custom runner returns must not replace the id of the executing client
    if rng.random() < 0.2:
        plain = [t for el in case["elements"] for t in el["tasks"] if t.get("composite") is None and t.get("real_op") is None]
        for t in rng.sample(plain, min(len(plain), rng.choice([1, 2, 3]))):
            where = rng.choice(["task", "operation", "runner"])
            value = rng.choice(["tenant-42", 9999, "web-frontend"])
            if where == "task":
                t["meta"] = {"client_id": value, "team": "search"}
            elif where == "operation":
                t["op_meta"] = {"client_id": value}
            else:
                t["requests"] = [[dict(r, ret={"client_id": value}) for r in reqs] for reqs in t["requests"]]
            case["meta_collides"] = True
    r = rng.random()
    if r < 0.1:
        case["ini"] = {"reporting": {"sample.queue.size": rng.choice([1, 3, 8])}}
    elif r < 0.2:
        case["ini"] = {"reporting": {"metrics.request.downsample.factor": rng.choice([2, 3, 10])}}
    case["fine"] = case.get("fine") or rng.random() < 0.35
    return case


# ------------------------------------------------------------------------------------------------------------ instrumentation
def sample_id(s):
    md = s.request_meta_data
    return md.get("verif_id") if isinstance(md, dict) else None


def make_instrument(case, rng):
    def instrument(k, tr):
        undo = [c01.instrument(k, tr)]
        tr.drained = []
        tr.shipped = []
        tr.received = []
        tr.postprocessed = []
        tr.pp_batches = []
        tr.tick_batches = 0
        tr.puts = {}
        tr.handed_over = 0
        tr.bulk_added = 0
        tr.rc_docs = []
        tr.queue_full_at_add = 0
        tr.queue_capacities = set()
        tr.added_ids = []

        orig_add = driver.Sampler.add

        import queue as _queue

        def add(sampler, *a, **kw):
            # what the sampler really accepted is observed at its queue (the only place that knows under thread interleavings)
            q = sampler.q
            if not hasattr(q, "_verif_put"):
                real_put = q.put_nowait

                def put_nowait(sample):
                    try:
                        real_put(sample)
                    except _queue.Full:
                        tr.queue_full_at_add += 1
                        raise
                    tr.added_ids.append(sample_id(sample))

                q._verif_put = True
                q.put_nowait = put_nowait
                tr.queue_capacities.add(q.maxsize)
            return orig_add(sampler, *a, **kw)

        driver.Sampler.add = add
        undo.append(lambda: setattr(driver.Sampler, "add", orig_add))

        orig_samples = driver.Sampler.samples

        def samples(sampler):
            res = orig_samples.fget(sampler)
            tr.drained.extend(sample_id(s) for s in res)
            return res

        driver.Sampler.samples = property(samples)
        undo.append(lambda: setattr(driver.Sampler, "samples", orig_samples))

        def observer(kernel, r, msg, sender):
            if type(msg).__name__ == "UpdateSamples" and r.cls.__name__ == "DriverActor":
                tr.shipped.extend(sample_id(s) for s in msg.samples)

        k.observers.append(observer)

        orig_update = driver.Driver.update_samples

        def update_samples(drv, smpls):
            tr.received.extend(sample_id(s) for s in smpls)
            return orig_update(drv, smpls)

        driver.Driver.update_samples = update_samples
        undo.append(lambda: setattr(driver.Driver, "update_samples", orig_update))

        orig_pp = driver.SamplePostprocessor.__call__

        def pp(self, raw):
            tr.postprocessed.extend(sample_id(s) for s in raw)
            tr.pp_batches.append(len(raw))
            if raw and k.current_msg == "WakeupMessage":
                tr.tick_batches += 1
            store = self.metrics_store
            orig_put = store.put_value_cluster_level

            def put(*a, **kw):
                nm = kw.get("name", a[0] if a else None)
                tr.puts[nm] = tr.puts.get(nm, 0) + 1
                return orig_put(*a, **kw)

            store.put_value_cluster_level = put
            try:
                return orig_pp(self, raw)
            finally:
                del store.put_value_cluster_level

        driver.SamplePostprocessor.__call__ = pp
        undo.append(lambda: setattr(driver.SamplePostprocessor, "__call__", orig_pp))

        orig_ext = metrics.InMemoryMetricsStore.to_externalizable

        def to_ext(store, clear=False):
            if k.current_proc is not None and k.current_proc.cls.__name__ == "DriverActor":
                tr.handed_over += len(store.docs)
            return orig_ext(store, clear)

        metrics.InMemoryMetricsStore.to_externalizable = to_ext
        undo.append(lambda: setattr(metrics.InMemoryMetricsStore, "to_externalizable", orig_ext))

        orig_bulk = metrics.MetricsStore.bulk_add

        def bulk_add(store, memento):
            before = len(store.docs)
            res = orig_bulk(store, memento)
            if k.current_proc is not None and k.current_proc.cls.__name__ == "BenchmarkActor":
                tr.bulk_added += len(store.docs) - before
                tr.rc_docs = list(store.docs)
            return res

        metrics.MetricsStore.bulk_add = bulk_add
        undo.append(lambda: setattr(metrics.MetricsStore, "bulk_add", orig_bulk))

        tr.preempt = None
        if case.get("fine"):
            w = driver.Worker
            tr.preempt = preempt.Preempt(k, [w.receiveMsg_WakeupMessage.__wrapped__ if hasattr(w.receiveMsg_WakeupMessage, "__wrapped__") else inner(w.receiveMsg_WakeupMessage),
                                             w.drive, w.send_samples, orig_samples.fget], prob=0.25, delta=case.get("preempt_delta", 0.002), rng=rng,
                                         executor_functions=[driver_sampler_add_original()])
            tr.preempt.enable()
            undo.append(tr.preempt.disable)

        def undo_all():
            for u in reversed(undo):
                u()

        return undo_all

    return instrument


def driver_sampler_add_original():
    """The real Sampler.add below the recording wrappers (its code object is what the executor thread runs)."""
    f = driver.Sampler.add
    seen = set()
    while f.__code__.co_filename.startswith("/verif") and id(f) not in seen:
        seen.add(id(f))
        nxt = None
        for c in f.__closure__ or ():
            v = c.cell_contents
            if callable(v) and getattr(v, "__name__", "") == "add":
                nxt = v
        if nxt is None:
            break
        f = nxt
    return f


def inner(fn):
    """The function wrapped by actor.no_retry (a closure variable `f`)."""
    if fn.__closure__:
        for c in fn.__closure__:
            v = c.cell_contents
            if callable(v) and getattr(v, "__name__", "").startswith("receiveMsg_"):
                return v
    return fn


# ------------------------------------------------------------------------------------------------------------ checker
def multiset(xs):
    d = {}
    for x in xs:
        d[x] = d.get(x, 0) + 1
    return d


def diff(a, b, limit=4):
    da, db = multiset(a), multiset(b)
    only_a = [k for k in da if da[k] > db.get(k, 0)][:limit]
    only_b = [k for k in db if db[k] > da.get(k, 0)][:limit]
    return only_a, only_b


def check(ctx, case, tr, problems, feats):
    special = case.get("ini", {}).get("reporting", {})
    small_queue = "sample.queue.size" in special
    factor = int(special.get("metrics.request.downsample.factor", 1))
    added = tr.added_ids
    # ---- "only a full sample queue may reduce": full means as many samples as configured (docs/configuration.rst: sample.queue.size, default 2^20)
    ctx.clause("queue-capacity-as-configured")
    want_capacity = int(special.get("sample.queue.size", 1 << 20))
    if tr.queue_capacities - {want_capacity}:
        problems.append(("queue-capacity-as-configured", f"sample.queue.size is {want_capacity} ({'configured' if small_queue else 'the documented default'}) but the workers' sample queues hold {sorted(tr.queue_capacities)} samples", None))
    # ---- shipping
    ctx.clause("added=shipped")
    if multiset(added) != multiset(tr.shipped):
        lost, extra = diff(added, tr.shipped)
        problems.append(("added=shipped", f"{len(added)} samples were recorded by the samplers but {len(tr.shipped)} arrived in UpdateSamples messages; never shipped: {lost}, shipped but not recorded / twice: {extra}",
                         {"lost": lost, "extra": extra, "over_commit": "over-commit" in feats, "fine": bool(case.get("fine"))}))
    ctx.clause("shipped=received")
    if multiset(tr.shipped) != multiset(tr.received):
        problems.append(("shipped=received", f"{len(tr.shipped)} samples shipped, {len(tr.received)} received by the driver", None))
    ctx.clause("received=postprocessed")
    if multiset(tr.received) != multiset(tr.postprocessed):
        lost, extra = diff(tr.received, tr.postprocessed)
        problems.append(("received=postprocessed", f"{len(tr.received)} samples received by the driver but {len(tr.postprocessed)} post-processed; lost {lost}, twice {extra}", None))
    ctx.clause("handed-over=bulk-added")
    if tr.handed_over != tr.bulk_added or tr.bulk_added != len(tr.rc_docs):
        problems.append(("handed-over=bulk-added", f"driver handed over {tr.handed_over} records, race control added {tr.bulk_added}, its store holds {len(tr.rc_docs)}", None))
    # ---- records
    docs_by_id = {}
    composite_tasks = {t["name"]: t for el in case["elements"] for t in el["tasks"] if t.get("composite")}
    dep_counts = {}
    for d in tr.rc_docs:
        if d.get("name") not in ("latency", "service_time", "processing_time"):
            continue
        vid = (d.get("meta") or {}).get("verif_id")
        if vid is None:
            if d.get("task") in composite_tasks and d["name"] == "service_time" and d.get("operation") != "op-" + d["task"]:
                dep_counts[(d["task"], d.get("operation"))] = dep_counts.get((d["task"], d.get("operation")), 0) + 1
            continue
        docs_by_id.setdefault(vid, []).append(d)
    log_by_id = {r["id"]: r for r in tr.sim.log}
    wire_client = {}
    for e in tr.rec.logical:
        if e["wire"] and e.get("run") is not None:
            run = tr.rec.runs[e["run"]]
            wire_client[f"{e['task']}:{run['index_in_task']}:{e['ordinal']}"] = log_by_id[e["wire"][0]].get("node_client")
    sample_by_id = {}
    for s in tr.rec.samples:
        vid = (s["meta"] or {}).get("verif_id")
        if vid is not None:
            sample_by_id[vid] = s
    if small_queue or factor > 1:
        ctx.clause("queue-drops-only-when-full")
        if small_queue and len(added) + tr.queue_full_at_add != len(tr.rec.samples):
            problems.append(("queue-drops-only-when-full", f"{len(tr.rec.samples)} samples offered, {len(added)} accepted, {tr.queue_full_at_add} offered while the queue was full", None))
        ctx.clause("downsample-reduces-only")
        for vid, ds in docs_by_id.items():
            names = sorted(d["name"] for d in ds)
            if names != ["latency", "processing_time", "service_time"] or vid not in sample_by_id:
                problems.append(("downsample-reduces-only", f"request {vid} has records {names}", None))
                break
        if factor > 1:
            expected = sum((n + factor - 1) // factor for n in tr.pp_batches)
            n_lat = sum(1 for d in tr.rc_docs if d.get("name") == "latency")
            if n_lat != expected:
                problems.append(("downsample-reduces-only", f"down-sampling factor {factor}: {n_lat} requests have records, expected every {factor}th of each batch = {expected}", None))
        if small_queue:
            feats.add("small-queue")
            if tr.queue_full_at_add:
                feats.add("queue-overflowed")
        else:
            feats.add("downsample")
        return
    for vid in set(added) - {None}:
        ds = docs_by_id.get(vid, [])
        names = sorted(d["name"] for d in ds)
        ctx.clause("records-per-request")
        if names != ["latency", "processing_time", "service_time"]:
            problems.append(("records-per-request", f"request {vid} has records {names} in race control's metrics store (expected exactly one latency, processing_time, service_time)",
                             {"missing": not names, "over_commit": "over-commit" in feats, "fine": bool(case.get("fine"))}))
            continue
        s = sample_by_id[vid]
        # the client that really issued the request: the id stored on the HTTP node its wire requests travelled through
        real_client = wire_client.get(vid, s["client"])
        ctx.clause("record-identity")
        if real_client != s["client"]:
            problems.append(("record-identity", f"request {vid} was sent through the HTTP client of client {real_client} but its sample says client {s['client']}", None))
            continue
        for d in ds:
            ok = (d.get("task") == s["task"] and d.get("operation") == "op-" + s["task"] and d.get("sample-type") == ("warmup" if s["sample_type"] == 0 else "normal")
                  and (d.get("meta") or {}).get("client_id") == s["client"])
            if not ok:
                problems.append(("record-identity", f"record of request {vid}: task={d.get('task')} operation={d.get('operation')} sample-type={d.get('sample-type')} client_id={(d.get('meta') or {}).get('client_id')}; "
                                 f"the request was task={s['task']} client={s['client']} type={s['sample_type']}", None))
                break
    ctx.clause("no-record-without-request")
    added_set = set(added)
    ghosts = [v for v in docs_by_id if v not in added_set]
    if ghosts:
        problems.append(("no-record-without-request", f"records for requests that were never sampled: {ghosts[:4]}", None))
    for name, t in composite_tasks.items():
        n_req = sum(1 for e in tr.rec.logical if e["task"] == name and "result" in e)
        for leaf in composite_leaves(t["composite"]):
            ctx.clause("dependent-timings")
            got = dep_counts.get((name, leaf), 0)
            if got != n_req:
                problems.append(("dependent-timings", f"composite task {name} (structure {json.dumps(t['composite'])[:300]}): {n_req} requests executed but {got} service_time records for sub-request {leaf}", None))
        feats.add("composite")


def gen_composite(rng, name):
    """A request structure for the composite operation: sub-requests and (nested) streams in any order on every level - also a sub-request
    that follows streams which follow sub-requests. Leaves are named <task>-<letter>."""
    letters = iter("abcdefghijklmnop")

    def leaf():
        l = next(letters)
        return {"name": f"{name}-{l}", "operation-type": "raw-request", "path": f"/_verif/sub/{name}-{l}"}

    def level(depth):
        items = []
        for _ in range(rng.randint(1, 3)):
            if depth < 2 and rng.random() < 0.45:
                items.append({"stream": level(depth + 1)})
            else:
                items.append(leaf())
        return items

    shape = rng.choice(["classic", "op-streams-op", "random", "random"])
    if shape == "classic":
        return [{"stream": [leaf()]}, {"stream": [leaf()]}, leaf()]
    if shape == "op-streams-op":
        return [leaf(), {"stream": [leaf(), leaf()]}, {"stream": [leaf()]}, leaf()]
    return level(0)


def composite_leaves(items):
    for it in items:
        if "stream" in it:
            yield from composite_leaves(it["stream"])
        else:
            yield it["name"]


def throughput_docs(tr):
    return sorted((d.get("task"), round(d.get("value"), 9), d.get("unit"), d.get("sample-type")) for d in tr.rc_docs if d.get("name") == "throughput")


def one_case(ctx, rng, explicit=None):
    import time as _t

    case = explicit or gen_case(rng)
    feats = c01.features_of(case)
    run_case = dict(case, wall_deadline=_t.monotonic() + max(15.0, ctx.time_left() + 10.0))
    prng = ctx.case_rng(f"preempt:{case['seed']}")
    tr = race.run_race(run_case, ctx.scratch, instrument=make_instrument(case, prng))
    c01.finish_trace(tr)
    problems = []
    if tr.budget or tr.stalled or tr.exit_status != "SUCCESSFUL":
        ctx.feature("budget-exceeded" if tr.budget else "race-not-successful")
        ctx.case(case, False, ())
        if tr.exit_status != "SUCCESSFUL" and not tr.budget and not tr.stalled:
            ctx.note(f"race ended with {tr.exit_status}: {tr.console[-200:]!r}")
        if ctx.features.get("race-not-successful", 0) > max(3, ctx.evaluations // 10):
            ctx.mark_inconclusive("too many races did not finish successfully (C01 / C09 territory)")
        return problems
    ref_elements = c01.loaded_elements(tr, case)
    if any(sum(t["clients"] for t in el["tasks"]) > max(e["clients"] for e in ref_elements) for el in ref_elements):
        feats.add("over-commit")
    if tr.tick_batches:
        feats.add("long-task-ticks")
    if len(tr.workers) > 1:
        feats.add("multi-worker")
    if case.get("meta_collides"):
        feats.add("meta-key-named-client-id")
    if case.get("fine"):
        feats.add("fine-preemption")
        ctx.feature("preemption-points", tr.preempt.points)
        ctx.feature("preemption-switches", tr.preempt.switches)
        ctx.feature("preemption-actor-inside-executor", tr.preempt.actor_in_executor)
        for p in tr.kernel.distinct_switch_points:
            ctx.distinct("switch-points", p)
    check(ctx, case, tr, problems, feats)
    factor = int(case.get("ini", {}).get("reporting", {}).get("metrics.request.downsample.factor", 1))
    if factor > 1 and not problems:
        # throughput must still be computed from all samples: same race without down-sampling gives the same throughput records
        plain = dict(run_case)
        plain.pop("ini")
        tr2 = race.run_race(plain, ctx.scratch, instrument=make_instrument(case, ctx.case_rng(f"preempt:{case['seed']}")))
        ctx.clause("throughput-from-all-samples")
        if tr2.exit_status == "SUCCESSFUL" and throughput_docs(tr) != throughput_docs(tr2):
            problems.append(("throughput-from-all-samples", f"down-sampling factor {factor} changed the throughput records: {throughput_docs(tr)[:3]} vs {throughput_docs(tr2)[:3]}", None))
    ctx.distinct("delivery-order-fingerprints", repr(tr.fingerprint))
    ctx.case(case, len(tr.rec.samples) >= 10 and len(ref_elements) >= 2, feats)
    if len(tr.rec.samples) <= 12:
        ctx.sample({"case": c01.slim(case), "observed": {"samples_added": len(tr.added_ids), "shipped": len(tr.shipped), "postprocessed": len(tr.postprocessed), "batches": tr.pp_batches,
                                                          "puts": tr.puts, "handed_over": tr.handed_over, "bulk_added": tr.bulk_added}}, tag="+".join(sorted(feats & {"over-commit", "composite", "small-queue", "downsample", "fine-preemption"})) or "plain")
    seen = set()
    for clause, msg, detail in problems:
        key = (clause, classify({"clause": clause, "witness": {"detail": detail}}))
        if key not in seen:
            seen.add(key)
            ctx.violation(clause, {"case": case, "detail": detail}, msg)
    return problems


def run_shard(ctx):
    i = 0
    while ctx.more():
        one_case(ctx, ctx.case_rng(i))
        i += 1


def classify(v):
    return None


def replay(ctx, rec):
    one_case(ctx, None, explicit=rec["witness"]["case"])


MANIFEST = {
    "text": "Exploration: complete simulated races; every request carries a unique id into its metrics records. An offline checker establishes exactly-once "
    "(one latency/service_time/processing_time record per executed request with the right task, operation, sample type and client id; one service_time per dependent "
    "sub-request) and conservation at every stage of the pipeline (sampler -> UpdateSamples -> driver -> post-processing -> hand-over -> race control), under "
    "seeded message interleavings and line-level preemption between worker actor and executor in both directions (executor code inside an actor handler, the actor's wake-up inside Sampler.add; the executor between two statements of Sampler.samples). "
    "The client id of a record is compared with the id rally stored on the HTTP node the request travelled through; the capacity of every worker's sample queue, observed at the queue, must be the configured sample.queue.size (default 2^20). A fifth of the races give tasks, operations or runner results a meta key named client_id.",
    "note": "Same actor/ES model as C01; preemption points are statement boundaries of three Worker methods, of Sampler.samples (actor side) and of Sampler.add (executor side).",
    "technique": "runtime monitor: unique-id exactly-once + stage conservation check over the recorded sample pipeline of simulated races (incl. injected line-level preemption)",
    "engines": ["vclock", "simactor", "simes", "race"],
    "engine": "race",
}
