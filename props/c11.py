"""C11 - task filters keep exactly the selected tasks and leave a runnable track.

Monitor: a generated track (1-3 challenges, sequential and parallel elements, names / operation types / tags from small,
deliberately overlapping alphabets) is filtered by the real TaskFilterTrackProcessor, configured the way the command
line does it (--include-tasks / --exclude-tasks value -> opts.csv_to_list -> config). The challenge schedules afterwards
are compared with a reference filter written from the documentation (name / "type:" / "tag:", case-sensitive, a task is
selected if at least one filter matches), every remaining task is compared with a snapshot taken before, and the C02
monitors (real Allocator, real Driver bookkeeping walked through every join point) run on every filtered schedule.
Malformed filter values have to raise SystemSetupError.

The end-to-end class (props/c11_race.py) runs filtered tracks through a complete simulated race with --include-tasks / --exclude-tasks on
rally's real command line and checks the trace with C01's checker.
"""
import copy

from esrally import config, exceptions
from esrally.driver import driver

from props import c02
from props import c02_gen as gen

ID = "C11"
LEVEL = "exploration"
RULE = (
    "seeded generator of (track with 1-3 challenges of 1-12 elements, include|exclude, 1-4 filters by name / type: / tag: aimed at all / some / none "
    "of the tasks of a parallel element, near misses and values that belong to another attribute); 15% malformed filter values. "
    "A case is non-trivial when the filter is active and the challenge has >= 2 tasks; distinct = hash of the case data"
)
ASSUMPTIONS = [
    "the filter value is split at commas and stripped as the command line does (opts.csv_to_list is part of the real path, the reference splits independently)",
    "task names are unique per challenge and contain neither ',' nor ':' (the track reader enforces uniqueness; the documentation offers no escaping)",
    "malformed = an item with more than one ':' or with a prefix other than 'type' / 'tag' before the ':'",
    "runnable is judged on the real Allocator and the real Driver step / progress bookkeeping with stubbed collaborators (see C02); the simulated race is a separate workload class",
]
C02_CLAUSES = ["rectangular", "join-aligned", "exact-cover", "steps-progress", "driver-progress", "driver-clients-exactly-once"]
REQUIRED_CLAUSES = [
    "e2e:executed-exactly-kept", "wellformed-accepted", "kept-exactly", "order-preserved", "properties-unchanged", "no-empty-parallel", "malformed-rejected", "still-selectable",
] + ["c02:" + c for c in C02_CLAUSES]
REQUIRED_FEATURES = {
    "e2e": 20, "e2e:include": 5, "e2e:exclude": 5,
    "include": 100, "exclude": 100, "filter-name": 100, "filter-type": 100, "filter-tag": 100, "mixed-kinds": 50,
    "parallel-all-matched": 30, "parallel-some-matched": 30, "parallel-none-matched": 30, "exclude-matches-whole-parallel": 20,
    "everything-removed": 10, "nothing-removed": 10, "multi-challenge": 50, "confusable-value": 30, "malformed": 50, "built-by-loader": 20,
}
BUDGET = {
    "quick": {"cases": 24000, "seconds": 35},
    "thorough": {"cases": 1000000, "seconds": 420},
}

KEY_EMPTY_PARALLEL = "exclude-filter-leaves-empty-parallel"


# ----------------------------------------------------------------------------------------------------------------
# reference filter (from docs/command_line_reference.rst: include-tasks / exclude-tasks)
# ----------------------------------------------------------------------------------------------------------------
def ref_parse(spec):
    out = []
    for item in (spec or "").split(","):
        item = item.strip()
        if item.startswith("type:"):
            out.append(("type", item[len("type:"):]))
        elif item.startswith("tag:"):
            out.append(("tag", item[len("tag:"):]))
        else:
            out.append(("name", item))
    return out


def ref_matches(case, t, filters):
    for kind, v in filters:
        if kind == "name" and t["name"] == v:
            return True
        if kind == "type" and case["ops"][t["op"]] == v:
            return True
        if kind == "tag" and v in gen.norm_tags(t):
            return True
    return False


def ref_filter(case):
    """Per challenge: list of groups (one per schedule element that still has tasks) of task names, in the original order."""
    mode = case["filter"].get("mode")
    filters = ref_parse(case["filter"].get("spec")) if mode else []
    expected = []
    for ch in case["challenges"]:
        groups = []
        for e in ch["schedule"]:
            tasks = [e["t"]] if "t" in e else e["p"]["tasks"]
            if not mode:
                kept = [t["name"] for t in tasks]
            elif mode == "include":
                kept = [t["name"] for t in tasks if ref_matches(case, t, filters)]
            else:
                kept = [t["name"] for t in tasks if not ref_matches(case, t, filters)]
            if kept:
                groups.append(kept)
        expected.append(groups)
    return expected


def filter_features(case):
    feats = set()
    flt = case["filter"]
    if not flt.get("mode"):
        feats.add("no-filter")
        return feats
    feats.add(flt["mode"])
    filters = ref_parse(flt["spec"])
    kinds = {k for k, _ in filters}
    for k in kinds:
        feats.add("filter-" + k)
    if len(kinds) > 1:
        feats.add("mixed-kinds")
    if len(case["challenges"]) > 1:
        feats.add("multi-challenge")
    removed = kept = 0
    names, types, tags = set(), set(case["ops"].values()), set()
    for ch in case["challenges"]:
        for e in ch["schedule"]:
            tasks = [e["t"]] if "t" in e else e["p"]["tasks"]
            m = [ref_matches(case, t, filters) for t in tasks]
            for t in tasks:
                names.add(t["name"])
                names.add(t["op"])
                tags.update(gen.norm_tags(t))
            hit = sum(m) if flt["mode"] == "exclude" else len(m) - sum(m)
            removed += hit
            kept += len(m) - hit
            if "p" in e:
                if all(m):
                    feats.add("parallel-all-matched")
                    if flt["mode"] == "exclude":
                        feats.add("exclude-matches-whole-parallel")
                elif any(m):
                    feats.add("parallel-some-matched")
                else:
                    feats.add("parallel-none-matched")
    if kept == 0:
        feats.add("everything-removed")
    if removed == 0:
        feats.add("nothing-removed")
    for k, v in filters:
        # the value also occurs as a different attribute of some task: evaluating the filter against the wrong attribute changes the result
        if (k == "name" and (v in types or v in tags)) or (k == "type" and (v in names or v in tags)) or (k == "tag" and (v in names or v in types)):
            feats.add("confusable-value")
    return feats


# ----------------------------------------------------------------------------------------------------------------
# monitor
# ----------------------------------------------------------------------------------------------------------------
def snap_task(t):
    s = {k: copy.deepcopy(v) for k, v in vars(t).items() if k != "operation"}
    s["operation"] = {k: copy.deepcopy(v) for k, v in vars(t.operation).items()}
    return s


class _Prefixed:
    """Counts the C02 clauses evaluated on filtered schedules under their own names."""

    def __init__(self, ctx):
        self.ctx = ctx

    def clause(self, name, n=1):
        self.ctx.clause("c02:" + name, n)


def eval_case(ctx, case):
    """Returns (problems, filtered). problems: [(clause, msg, detail, facts of the challenge concerned)]."""
    base = {"filter_mode": case["filter"].get("mode")}
    trk = gen.build(case)
    before = []
    for ch in trk.challenges:
        elements = list(ch.schedule)
        before.append(
            {
                "elements": elements,
                "tasks": {t.name: snap_task(t) for e in elements for t in c02.leaves(e)},
                "order": [t.name for e in elements for t in c02.leaves(e)],
                "elem_of": {t.name: ei for ei, e in enumerate(elements) for t in c02.leaves(e)},
            }
        )
    nchallenges = len(trk.challenges)
    flt = case["filter"]

    if flt.get("malformed"):
        ctx.clause("malformed-rejected")
        try:
            gen.apply_filter(trk, flt)
        except exceptions.SystemSetupError:
            return [], None
        except Exception as e:
            return [("malformed-rejected", f"filter value {flt['spec']!r} (malformed item {flt['malformed']!r}) raised {type(e).__name__} instead of SystemSetupError: {e}", None, base)], None
        return [("malformed-rejected", f"filter value {flt['spec']!r} with the malformed item {flt['malformed']!r} was accepted", None, base)], None

    expected = ref_filter(case)
    ctx.clause("wellformed-accepted")
    if flt.get("mode"):
        try:
            gen.apply_filter(trk, flt)  # in place, as load_track uses it
        except Exception as e:
            return [("wellformed-accepted", f"well-formed filter value {flt['spec']!r} raised {type(e).__name__}: {e}", None, base)], None
    if len(trk.challenges) != nchallenges:
        return [("kept-exactly", f"{nchallenges} challenges before filtering, {len(trk.challenges)} afterwards", None, base)], None

    problems, filtered = [], []
    for ci, ch in enumerate(trk.challenges):
        ps, facts, groups = check_challenge(ctx, case, ci, ch.schedule, before[ci], expected[ci])
        filtered.append(groups)
        facts.update(base)
        problems.extend((clause, msg, detail, facts) for clause, msg, detail in ps)
        # whatever the filters left of it - nothing at all included - the challenge is still the one the driver and the reports select
        ctx.clause("still-selectable")
        try:
            cfg = config.Config()
            cfg.add(config.Scope.application, "track", "challenge.name", ch.name)
            picked = driver.select_challenge(cfg, trk)
            for other in trk.challenges:
                other.selected = other is ch
            via_track = trk.selected_challenge_or_default
            if picked is not ch or via_track is not ch:
                problems.append(("still-selectable", f"challenge {ci} ({ch.name!r}, {len(ch.schedule)} schedule elements after {flt.get('mode')}-tasks={flt.get('spec')!r}): driver.select_challenge "
                                 f"gives {getattr(picked, 'name', picked)!r}, Track.selected_challenge_or_default gives {getattr(via_track, 'name', via_track)!r}", None, dict(facts)))
        except Exception as e:
            problems.append(("still-selectable", f"challenge {ci} ({ch.name!r}, {len(ch.schedule)} schedule elements after filtering) can no longer be selected: {type(e).__name__}: {e}", None, dict(facts)))
    return problems, filtered


def check_challenge(ctx, case, ci, schedule, before, expected):
    flt = case["filter"]
    shown = f"--{flt.get('mode')}-tasks={flt.get('spec')!r}"
    filters = ref_parse(flt.get("spec")) if flt.get("mode") else []
    problems = []
    groups = [[t.name for t in c02.leaves(e)] for e in schedule]
    facts = {"challenge": ci, "filtered_schedule": groups}
    flat = [n for g in groups for n in g]
    want_flat = [n for g in expected for n in g]
    spec_by_name = {t["name"]: t for t in gen.leaf_specs(case["challenges"][ci]["schedule"])}

    ctx.clause("kept-exactly")
    surplus = [n for n in flat if n not in set(want_flat)]
    missing = [n for n in want_flat if n not in set(flat)]
    dup = sorted({n for n in flat if flat.count(n) > 1})
    if surplus or missing or dup:

        def why(n):
            t = spec_by_name.get(n)
            if t is None:
                return f"{n!r} (not a task of the challenge)"
            return f"{n!r} (type {case['ops'][t['op']]!r}, tags {gen.norm_tags(t)})"

        problems.append(
            (
                "kept-exactly",
                f"challenge {ci}, {shown}: "
                + (f"remaining although not selected: {[why(n) for n in surplus[:4]]} " if surplus else "")
                + (f"removed although selected to stay: {[why(n) for n in missing[:4]]} " if missing else "")
                + (f"present more than once: {dup[:4]}" if dup else ""),
                None,
            )
        )

    ctx.clause("order-preserved")
    known = [n for n in flat if n in before["tasks"]]
    original_order = [n for n in before["order"] if n in set(known)]
    if known != original_order and not dup:
        problems.append(("order-preserved", f"challenge {ci}, {shown}: remaining tasks run in order {known[:8]} but were defined in order {original_order[:8]}", None))
    elif not dup:
        # same grouping into schedule elements as before (elements without tasks aside)
        got_groups = [[before["elem_of"].get(n) for n in g] for g in groups if g]
        firsts = [g[0] for g in got_groups]
        if any(len(set(g)) != 1 for g in got_groups) or firsts != sorted(set(firsts)):
            problems.append(("order-preserved", f"challenge {ci}, {shown}: tasks are grouped into schedule elements as {[g for g in groups if g][:6]}, original element index per task {got_groups[:6]}", None))

    ctx.clause("properties-unchanged")
    for e in schedule:
        for t in c02.leaves(e):
            old = before["tasks"].get(t.name)
            if old is not None:
                new = snap_task(t)
                if new != old:
                    changed = sorted(k for k in set(old) | set(new) if old.get(k) != new.get(k))
                    problems.append(("properties-unchanged", f"challenge {ci}, {shown}: task {t.name!r} changed in {changed}: {[(old.get(k), new.get(k)) for k in changed][:3]!r:.300}", None))
                    break
        else:
            continue
        break

    ctx.clause("no-empty-parallel")
    empties = [ei for ei, e in enumerate(schedule) if len(c02.leaves(e)) == 0]
    facts["empty_parallel_elements"] = len(empties)
    if empties:
        # mechanism facts: is every empty element an original parallel element all of whose tasks match an exclude filter?
        explained = flt.get("mode") == "exclude"
        for ei in empties:
            oi = [i for i, oe in enumerate(before["elements"]) if oe is schedule[ei]]
            spec_e = case["challenges"][ci]["schedule"][oi[0]] if oi else None
            if not spec_e or "p" not in spec_e or not spec_e["p"]["tasks"] or not all(ref_matches(case, t, filters) for t in spec_e["p"]["tasks"]):
                explained = False
        facts["empty_elements_are_parallels_fully_matched_by_exclude"] = explained
        problems.append(("no-empty-parallel", f"challenge {ci}, {shown}: element(s) {empties[:5]} of the filtered schedule {groups[:8]} have no task left", None))

    # runnable: the C02 monitors on the filtered schedule
    p1, info = c02.check_allocator(_Prefixed(ctx), schedule)
    p2, _ = c02.check_driver_walk(_Prefixed(ctx), schedule, case["hosts"])
    if empties and (p1 or p2):
        without = [e for e in schedule if len(c02.leaves(e)) > 0]
        q1, _ = c02.check_allocator(_NoCount(), without)
        q2, _ = c02.check_driver_walk(_NoCount(), without, case["hosts"])
        facts["holds_without_empty_parallel"] = not q1 and not q2
    facts.update({"steps": info.get("steps"), "progress_entries": info.get("progress_entries")})
    for clause, msg, detail in p1 + p2:
        problems.append(("c02:" + clause, f"challenge {ci} after {shown}: {msg}", detail))
    return problems, facts, groups


def api_case(ctx, rng, explicit=None, shrink=True):
    if explicit is not None:
        case = explicit
    else:
        case = gen.gen_case(rng, max_challenges=3)
        if rng.random() < 0.15:
            case["filter"] = gen.gen_malformed_filter(rng, case)
        elif rng.random() < 0.9 and not case["filter"].get("mode"):
            case["filter"] = gen.gen_filter(rng, case, allow_none=False)
    feats = {"malformed"} if case["filter"].get("malformed") else filter_features(case)
    if case.get("via_loader"):
        feats.add("built-by-loader")
    problems, filtered = eval_case(ctx, case)
    if filtered is not None:
        ctx.distinct("filtered-structures", (case["filter"].get("mode"), [[len(g) for g in ch] for ch in filtered]))
    ntasks = max(sum(1 for _ in gen.leaf_specs(ch["schedule"])) for ch in case["challenges"])
    ctx.case(("api", case), bool(case["filter"].get("mode")) and ntasks >= 2, feats)
    if ntasks <= 4 and len(case["challenges"]) == 1:
        ctx.sample({"case": c02.slim(case), "filtered": filtered}, tag="+".join(sorted(feats - {"built-by-loader"})))
    reported = set()
    for clause, msg, detail, facts in problems:
        w = {"workload": "api", "case": case, "facts": facts, "detail": detail}
        key = classify({"clause": clause, "witness": w, "msg": msg})
        if (clause, key) in reported:
            continue
        reported.add((clause, key))
        _SHRUNK[(clause, key)] = _SHRUNK.get((clause, key), 0) + 1
        if shrink and _SHRUNK[(clause, key)] <= 3:  # the runner keeps three witnesses per key; later ones are only counted

            def hits(c, clause=clause, key=key):
                ps, _ = eval_case(_NoCount(), c)
                return [p for p in ps if p[0] == clause and classify({"clause": clause, "witness": {"case": c, "facts": p[3]}, "msg": p[1]}) == key]

            small = gen.shrink_case(case, hits)
            hit = hits(small)
            if hit:
                w = {"workload": "api", "case": small, "facts": hit[0][3], "detail": hit[0][2]}
                msg = hit[0][1]
        ctx.violation(clause, w, msg)
    return problems


class _NoCount:
    def clause(self, *a, **k):
        pass


_SHRUNK = {}

# (name, weight, function(ctx, rng)): the shard loop deals cases to the workload classes in proportion to their weights
from props import c11_race  # noqa: E402

# one simulated race costs about as much as 300 API cases
WORKLOADS = [
    ("api", 299, api_case),
    ("e2e", 1, c11_race.race_case),
]


def run_shard(ctx):
    total = sum(w for _, w, _ in WORKLOADS)
    if ctx.shard == 0:
        for case in gen.directed_cases():
            api_case(ctx, None, explicit=case, shrink=False)  # kept as written: the first recorded witness is the documented shape
    i = 0
    while ctx.more():
        slot = i % total
        for _, weight, fn in WORKLOADS:
            if slot < weight:
                fn(ctx, ctx.case_rng(i))
                break
            slot -= weight
        i += 1


def classify(v):
    """Mechanism: every sub-task of a parallel element matched an --exclude-tasks filter; the processor removed the sub-tasks but kept the
    emptied element. Either the empty element itself is reported, or the allocator / driver step mismatch that vanishes once it is dropped."""
    w = v.get("witness") or {}
    facts = w.get("facts") or {}
    clause = v.get("clause")
    if facts.get("filter_mode") != "exclude" or not facts.get("empty_parallel_elements") or facts.get("empty_elements_are_parallels_fully_matched_by_exclude") is not True:
        return None
    if clause == "no-empty-parallel":
        return KEY_EMPTY_PARALLEL
    if (
        clause in ("c02:steps-progress", "c02:driver-progress")
        and facts.get("holds_without_empty_parallel") is True
        and isinstance(facts.get("steps"), int)
        and isinstance(facts.get("progress_entries"), int)
        and facts["steps"] - facts["progress_entries"] == facts["empty_parallel_elements"]
    ):
        return KEY_EMPTY_PARALLEL
    return None


def replay(ctx, rec):
    w = rec["witness"]
    for name, _, fn in WORKLOADS:
        if name == w.get("workload", "api"):
            fn(ctx, None, explicit=w["case"], shrink=False)


MANIFEST = {
    "text": "Exploration: 1-2*10^4 (quick) / 10^5 and more (thorough, time-bounded) generated tracks x filter lists go through the real command-line list parsing and the real "
    "TaskFilterTrackProcessor; the schedules of every challenge afterwards are compared with a documentation-derived reference filter (exactly the selected tasks, original "
    "order and grouping, every task attribute equal to a snapshot taken before), must contain no element without tasks, and are given to the real Allocator and a real "
    "Driver that is walked through every join point (C02 monitors). Malformed filter values must raise SystemSetupError; every filtered challenge - an emptied one included - must still be the one driver.select_challenge and Track.selected_challenge_or_default select. "
    "One case in 300 is a complete simulated race started through the real CLI with --include-tasks / --exclude-tasks: the tasks seen at the simulated node are exactly the selected ones. Holds on the executions produced, not beyond.",
    "note": "Trusts the 25-line reference filter and the C02 monitors; the simulated end-to-end race on filtered tracks is a separate workload class.",
    "technique": "runtime monitor: reference-model oracle + before/after snapshot + C02 invariants on the filtered schedule, generated filters aimed at parallel elements",
    "design_ref": "DESIGN.md section 4 C11",
}
