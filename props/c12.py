"""C12 - cluster engine start/stop is all-or-nothing across hosts and reports failures.

Workload (fault enumeration): rally's real MechanicActor, Dispatcher, NodeMechanicActor and Mechanic classes run on the
deterministic actor kernel (engines.simactor). `mechanic.create` builds a real Mechanic whose supplier / provisioners / launcher
are recording stand-ins, `load_team` returns a stub car, `net.resolve` is the identity. Target-host lists of 1-5 (ip, port) pairs
over up to 4 hosts (incl. 127.0.0.1 - also written as localhost and resolved for real - and repeated pairs), remote actor systems joining the convention before or after the
dispatcher asked for them (every order), acknowledgement delays from the C01 profiles, and single faults: start fails on host i,
stop fails on host i, remote daemon i leaves before it was used / after its nodes started, externally provisioned cluster.

Monitor: offline checker over (a) the messages that reach the requester (race control) and (b) the ordered call log of
start_engine / launcher.stop / flush / cleanup.
"""
import datetime
import itertools
import pickle

import thespian.actors as ta

from esrally import config, metrics, paths
from esrally.mechanic import mechanic, provisioner
from esrally.utils import net, opts

from engines import race, simactor
from props import c12_launcher

ID = "C12"
LEVEL = "fault_enumeration"
RULE = (
    "host lists (1-5 ip:port pairs over <= 4 hosts, with/without 127.0.0.1, repeated pairs) x every join order of the remote daemons (before / after the "
    "dispatcher registered) x delay profile x preserve-install x single fault from {none, start fails on host i, stop fails on host i, daemon i leaves "
    "before use, daemon i leaves after start, external}; the small universe (<= 3 hosts) is enumerated exhaustively, larger ones are sampled; "
    "non-trivial = at least 2 hosts or a fault; distinct = hash of the case"
)
ASSUMPTIONS = [
    "Thespian model of engines/simactor.py; convention updates are sent by the admin (replies to it are lost, as in Thespian)",
    "the node mechanic's supplier/provisioner/launcher are stand-ins; Mechanic.start_engine/stop_engine, MechanicActor, Dispatcher, NodeMechanicActor are real",
    "after a failed start race control tears the actors down (ActorExitRequest), as racecontrol.race() does in its finally block",
]
REQUIRED_CLAUSES = ["started-only-after-all-hosts", "stopped-only-after-all-hosts", "stop-exactly-once", "stop-sequence", "cleanup-unless-preserve",
                    "start-failure-reported", "daemon-departure-reported", "external-untouched", "no-stall", "stopped-after-failure",
                    "launcher:terminate-exactly-once", "launcher:kill-only-after-timeout", "launcher:system-metrics-stored-once", "launcher:stopped-list", "launcher:flush-and-cleanup", "launcher:dead-node-fails-start"]
REQUIRED_FEATURES = {"fault:none": 10, "fault:start-fails": 5, "fault:stop-fails": 5, "fault:leaves-before-use": 3, "fault:leaves-after-start": 3, "fault:external": 3,
                     "remote-joins-late": 5, "several-nodes-per-host": 5, "local-and-remote": 5, "non-target-convention-members": 10, "launcher": 20, "launcher:dead-node-among-living": 5, "launcher-start": 10}
BUDGET = {"quick": {"cases": 60000, "seconds": 30}, "thorough": {"cases": 1500000, "seconds": 600}}


class Boom(Exception):
    """Injected failure (picklable)."""


class StubNodeConfig:
    def __init__(self, ip, port, node_id):
        self.ip, self.port, self.node_id = ip, port, node_id
        self.binary_path = f"/verif/install/{ip}-{port}-{node_id}"
        self.data_paths = [f"/verif/data/{ip}-{port}-{node_id}"]


class StubNode:
    def __init__(self, name):
        self.node_name = name


class Env:
    """Call log shared by the stand-ins."""

    def __init__(self, kernel, fault):
        self.k = kernel
        self.fault = fault
        self.log = []

    def ev(self, kind, host, **kw):
        self.log.append(dict(kw, vt=self.k.clock.now, kind=kind, host=host))


def make_create(env):
    def create(cfg, metrics_store, node_ip, node_http_port, all_node_ips, all_node_ids, sources=False, distribution=False, external=False, docker=False):
        host = f"{node_ip}:{node_http_port}"
        node_ids = cfg.opts("provisioning", "node.ids", mandatory=False)
        env.ev("create", host, node_ids=list(node_ids or []), external=external)
        if external:
            raise AssertionError("mechanic.create called for an externally provisioned cluster")

        def supply():
            env.ev("supply", host)
            return {"elasticsearch": "/verif/es.tar.gz"}

        class Prov:
            def __init__(self, nid):
                self.nid = nid

            def prepare(self, binaries):
                env.ev("prepare", host, node_id=self.nid)
                return StubNodeConfig(node_ip, node_http_port, self.nid)

        class Launcher:
            def start(self, node_configs):
                env.ev("launch", host, node_ids=[c.node_id for c in node_configs])
                f = env.fault
                if f["kind"] == "start-fails" and f["host"] == host:
                    raise Boom(f"cannot launch on {host}")
                env.ev("started", host, node_ids=[c.node_id for c in node_configs])
                return [StubNode(f"rally-node-{c.node_id}") for c in node_configs]

            def stop(self, nodes, metrics_store):
                env.ev("stop", host, nodes=[n.node_name for n in nodes])
                f = env.fault
                if f["kind"] == "stop-fails" and f["host"] == host:
                    raise Boom(f"cannot stop on {host}")

        m = mechanic.Mechanic(cfg, metrics_store, supply, [Prov(n) for n in (node_ids or [])], Launcher())
        orig_flush = m.flush_metrics

        def flush(refresh=False):
            env.ev("flush", host, refresh=refresh)
            return orig_flush(refresh)

        m.flush_metrics = flush
        orig_start, orig_stop = m.start_engine, m.stop_engine

        def start_engine():
            res = orig_start()
            env.ev("start_engine:return", host)
            return res

        def stop_engine():
            env.ev("stop_engine:call", host)
            res = orig_stop()
            env.ev("stop_engine:return", host)
            return res

        m.start_engine, m.stop_engine = start_engine, stop_engine
        m._verif_host = host
        return m

    return create


# ------------------------------------------------------------------------------------------------------------ cases
def gen_hosts(rng, max_hosts=4):
    ips = ["127.0.0.1"] + [f"10.0.0.{i}" for i in range(2, 2 + max_hosts)]
    pool = rng.sample(ips, rng.randint(1, max_hosts)) if rng.random() < 0.7 else rng.sample(ips[1:], rng.randint(1, max_hosts))
    n = rng.randint(1, 5)
    pairs = []
    for _ in range(n):
        pairs.append((rng.choice(pool), rng.choice([9200, 9200, 9201])))
    return pairs


def faults_for(pairs, rng=None):
    hosts = list(dict.fromkeys(f"{ip}:{port}" for ip, port in pairs))
    remotes = list(dict.fromkeys(ip for ip, _ in pairs if ip != "127.0.0.1"))
    fs = [{"kind": "none"}, {"kind": "external"}]
    fs += [{"kind": "start-fails", "host": h} for h in hosts]
    fs += [{"kind": "stop-fails", "host": h} for h in hosts]
    fs += [{"kind": "leaves-before-use", "ip": ip} for ip in remotes]
    fs += [{"kind": "leaves-after-start", "ip": ip} for ip in remotes]
    return fs


def small_universe():
    """<= 3 (ip, port) pairs over {127.0.0.1, 10.0.0.2, 10.0.0.3} x ports {9200, 9201}: every host list (up to order of first occurrence),
    every join order / lateness pattern of the remotes, every single fault."""
    ips = ["127.0.0.1", "10.0.0.2", "10.0.0.3"]
    cases = []
    all_pairs = [(ip, p) for ip in ips for p in (9200, 9201)]
    seen = set()
    for n in (1, 2, 3):
        for combo in itertools.product(all_pairs, repeat=n):
            key = tuple(combo)
            if key in seen:
                continue
            seen.add(key)
            remotes = list(dict.fromkeys(ip for ip, _ in combo if ip != "127.0.0.1"))
            orders = list(itertools.permutations(remotes)) or [()]
            for order in orders:
                for late_mask in range(1 << len(remotes)):
                    late = [remotes[i] for i in range(len(remotes)) if late_mask >> i & 1]
                    for fault in faults_for(combo):
                        c = {"pairs": [list(p) for p in combo], "join_order": list(order), "late": late, "fault": fault, "delay": "zero", "preserve": False, "seed": len(cases)}
                        if len(cases) % 3 == 0 and remotes:
                            c["extras"] = [{"ip": "10.0.9.1", "late": len(cases) % 2 == 0}]
                        cases.append(c)
    return cases


def gen_case(rng):
    pairs = gen_hosts(rng)
    remotes = list(dict.fromkeys(ip for ip, _ in pairs if ip != "127.0.0.1"))
    order = remotes[:]
    rng.shuffle(order)
    late = [ip for ip in remotes if rng.random() < 0.5]
    fault = rng.choice(faults_for(pairs))
    case = {"pairs": [list(p) for p in pairs], "join_order": order, "late": late, "fault": fault, "delay": rng.choice(["zero", "small", "heavy", "adversarial"]),
            "preserve": rng.random() < 0.3, "seed": rng.randint(0, 1 << 40), "epsilon": rng.choice([0.0, 0.0, 0.5])}
    if rng.random() < 0.5:
        # other members of the convention that are NOT target hosts (e.g. remote load-driver daemons): the dispatcher hears about them too,
        # possibly after the last target host has shown up
        case["extras"] = [{"ip": f"10.0.9.{i + 1}", "late": rng.random() < 0.5} for i in range(rng.randint(1, 2))]
    if any(ip == "127.0.0.1" for ip, _ in pairs) and rng.random() < 0.25:
        # the local target host is written by name (rally's own error text suggests 'localhost:9200'); the name goes through the real net.resolve
        case["local_name"] = "localhost"
    return case


# ------------------------------------------------------------------------------------------------------------ one run
def run_case(case, scratch):
    import random

    rng = random.Random(f"c12:{case['seed']}")
    race.prepare_home(scratch, 2)
    k = simactor.Kernel(rng, delay_profile=race.make_delay_profile(case.get("delay", "zero")), epsilon=case.get("epsilon", 0.0), max_steps=20000, max_vt=5000.0, stall_horizon=300.0)
    coord = k.add_system("coordinator", {"coordinator": True, "ip": "127.0.0.1"})
    remotes = list(dict.fromkeys(ip for ip, _ in case["pairs"] if ip != "127.0.0.1"))
    systems = {}
    for ip in remotes:
        systems[ip] = k.add_system(ip, {"coordinator": False, "ip": ip}, joined=ip not in case["late"])
    extras = {}
    for x in case.get("extras", []):
        extras[x["ip"]] = k.add_system(x["ip"], {"coordinator": False, "ip": x["ip"]}, joined=not x["late"])
    fault = case["fault"]
    env = Env(k, fault)
    undo = [k.install()]

    def patch(obj, attr, value):
        old = getattr(obj, attr)
        setattr(obj, attr, value)
        undo.append(lambda: setattr(obj, attr, old))

    patch(mechanic, "create", make_create(env))
    patch(mechanic, "load_team", lambda cfg, external: (None, []))
    real_resolve = net.resolve
    patch(net, "resolve", lambda h: real_resolve(h) if h == "localhost" else h)  # ips stand for themselves, a name is resolved for real

    def cleanup(preserve, install_dir, data_paths):
        env.ev("cleanup", install_dir.split("/")[-1].rsplit("-", 1)[0].replace("-", ":", 1) if False else install_dir, preserve=preserve, data_paths=list(data_paths))

    patch(provisioner, "cleanup", cleanup)
    result = {"env": env, "kernel": k, "replies": [], "stalled": False, "budget": False, "error": None}
    try:
        cfg = config.Config()
        cfg.load_config(auto_upgrade=True)
        s = config.Scope.application
        cfg.add(s, "system", "time.start", datetime.datetime(2026, 1, 1))
        cfg.add(s, "system", "race.id", f"c12-{case['seed']}")
        cfg.add(s, "node", "rally.root", paths.rally_root())
        cfg.add(s, "client", "hosts", opts.TargetHosts(",".join(f"{case['local_name'] if case.get('local_name') and ip == '127.0.0.1' else ip}:{port}" for ip, port in case["pairs"])))
        cfg.add(s, "mechanic", "repository.revision", "abc123")
        cfg.add(s, "mechanic", "preserve.install", case.get("preserve", False))
        cfg.add(s, "mechanic", "car.names", ["defaults"])
        cfg.add(s, "race", "user.tags", {})
        ctx = {"race-id": f"c12-{case['seed']}", "race-timestamp": "20260101T000000Z", "track": "t", "challenge": "c", "car": ["defaults"]}
        system = simactor.SimActorSystem(k)
        external = fault["kind"] == "external"
        # convention events: late daemons join in the given order after the start request; departures as the fault says
        t = 0.5
        for ip in case["join_order"]:
            if ip in case["late"] and not (fault["kind"] == "leaves-before-use" and fault["ip"] == ip and False):
                k.post(t, "call", (lambda kk, ip=ip: kk.system_joins(systems[ip])))
                t += rng.choice([0.0, 0.3, 2.0])
        for x in case.get("extras", []):
            if x["late"]:
                t += rng.choice([0.0, 0.2, 1.0])
                k.post(t, "call", (lambda kk, ip=x["ip"]: kk.system_joins(extras[ip])))  # after the target hosts have joined
        if fault["kind"] == "leaves-before-use":
            # the daemon goes away while the dispatcher is still waiting for daemons (i.e. before all of them have joined)
            ip = fault["ip"]
            if ip in case["late"]:
                # it joined late: leave right after its own join but before a later one; else it never shows up usefully
                pass
            def leave(kk, ip=ip):
                result["departure"] = {"vt": kk.clock.now, "dispatcher_listening": bool(kk.listeners), "dispatcher_exists": any(r.cls is not None and r.cls.__name__ == "Dispatcher" and r.inst is not None and r.inst.start_sender is not None for r in kk.recs.values()),
                                       "actors_on_daemon": sum(1 for r in kk.recs.values() if r.system is systems[ip] and not r.dead and r.inst is not None),
                                       "nodes_started_on_daemon": bool([e for e in env.log if e["kind"] == "started" and e["host"].startswith(ip + ":")])}
                kk.system_leaves(systems[ip])

            k.post(0.25 if ip not in case["late"] else t + 0.1, "call", leave)
        ma = system.createActor(mechanic.MechanicActor, targetActorRequirements={"coordinator": True})
        result["mechanic_addr"] = ma
        msg = mechanic.StartEngine(cfg, ctx, False, not external, external, False)
        r1 = ask(k, system, ma, msg, result)
        result["replies"].append(("start", k.clock.now, type(r1).__name__ if r1 is not None else None, getattr(r1, "message", None)))
        if isinstance(r1, mechanic.EngineStarted):
            if fault["kind"] == "leaves-after-start":
                result["departure"] = {"vt": k.clock.now, "dispatcher_listening": bool(k.listeners), "actors_on_daemon": 1, "nodes_started_on_daemon": True}
                k.system_leaves(systems[fault["ip"]])
                k.drain(5.0)
                # anything race control hears now?
                while k.ext.inbox:
                    m = k.ext.inbox.pop(0)
                    result["replies"].append(("after-leave", k.clock.now, type(m).__name__, getattr(m, "message", None)))
            r2 = ask(k, system, ma, mechanic.StopEngine(), result)
            result["replies"].append(("stop", k.clock.now, type(r2).__name__ if r2 is not None else None, getattr(r2, "message", None)))
        if not isinstance(r1, mechanic.EngineStarted) and case.get("settle_before_teardown", rng.random() < 0.5):
            # race control tears the actors down right after a failure - or a little later: both are explored. Letting the other hosts
            # finish first shows whether anything else (e.g. a late EngineStarted) is still sent to race control.
            k.drain(40.0)
            while k.ext.inbox:
                m = k.ext.inbox.pop(0)
                result["replies"].append(("after-failure", k.clock.now, type(m).__name__, getattr(m, "message", None)))
        # race control always ends with an exit request (racecontrol.race(): finally: tell(ActorExitRequest))
        system.tell(ma, ta.ActorExitRequest())
        k.drain(60.0)
        while k.ext.inbox:
            m = k.ext.inbox.pop(0)
            result["replies"].append(("late", k.clock.now, type(m).__name__, getattr(m, "message", None)))
    except simactor.Budget:
        result["budget"] = True
    except BaseException as e:  # harness problem
        result["error"] = f"{type(e).__name__}: {e}"
    finally:
        for u in reversed(undo):
            u()
    result["stalled"] = result["stalled"] or k.stalled
    return result


def ask(k, system, addr, msg, result):
    r = system.ask(addr, msg)
    if r is None and (k.stalled or not k.heap):
        result["stalled"] = True
    return r


# ------------------------------------------------------------------------------------------------------------ checker
def check(ctx, case, res, problems, feats):
    env, fault = res["env"], case["fault"]
    log = env.log
    kind = fault["kind"]
    hosts = list(dict.fromkeys(f"{ip}:{port}" for ip, port in case["pairs"]))
    nodes_by_host = {}
    for i, (ip, port) in enumerate(case["pairs"]):
        nodes_by_host.setdefault(f"{ip}:{port}", []).append(i)
    replies = res["replies"]
    start = next((r for r in replies if r[0] == "start"), None)
    stop = next((r for r in replies if r[0] == "stop"), None)
    where = f"hosts {case['pairs']} join order {case['join_order']} late {case['late']} fault {fault}"

    def evs(kind_, host=None):
        return [e for e in log if e["kind"] == kind_ and (host is None or e["host"] == host)]

    if kind == "external":
        ctx.clause("external-untouched")
        touching = [e for e in log if e["kind"] in ("create", "supply", "prepare", "launch", "stop", "cleanup")]
        if touching or start is None or start[2] != "EngineStarted" or stop is None or stop[2] != "EngineStopped":
            problems.append(("external-untouched", f"{where}: externally provisioned cluster: calls {[(e['kind'], e['host']) for e in touching][:4]}, start reply {start}, stop reply {stop}", None))
        return
    dep0 = res.get("departure")
    if kind == "leaves-before-use" and dep0 is not None and not dep0.get("dispatcher_exists"):
        # the daemon was gone before the dispatcher even looked for it: an absent daemon, not one "leaving during start-up" (rally waits
        # for it to show up; the code marks a time-out as TBD). Nothing is demanded.
        feats.add("observed:daemon-absent-from-the-beginning")
        return
    ctx.clause("no-stall")
    expect_failure = kind in ("start-fails", "leaves-before-use")
    if res["stalled"] and not (start and start[2]):
        clause = {"start-fails": "start-failure-reported", "leaves-before-use": "daemon-departure-reported"}.get(kind, "no-stall")
        ctx.clause(clause)
        problems.append((clause, f"{where}: race control never got an answer to StartEngine (hang); call log {[(e['kind'], e['host']) for e in log][-6:]}; handler errors {res['kernel'].handler_errors[:1]}",
                         {"fault": kind, "handler_error": (res["kernel"].handler_errors[:1] or [None])[0], "departure": res.get("departure")}))
        return
    if start is None:
        return
    # whenever race control is told that the engine has started - as the answer to StartEngine or at any later time - every host
    # must have started all of its nodes by then
    for r in replies:
        if r[2] == "EngineStarted" and r is not start:
            ctx.clause("started-only-after-all-hosts")
            missing = [h for h in hosts if not [e for e in evs("start_engine:return", h) if e["vt"] <= r[1]]]
            if missing:
                problems.append(("started-only-after-all-hosts", f"{where}: race control was told EngineStarted at vt={r[1]:.3f} ({r[0]}) although hosts {missing} never finished start_engine", None))
    if start[2] == "EngineStarted":
        ctx.clause("started-only-after-all-hosts")
        t_started = start[1]
        missing = [h for h in hosts if not [e for e in evs("start_engine:return", h) if e["vt"] <= t_started]]
        wrong_nodes = [h for h in hosts if sorted(n for e in evs("started", h) for n in e["node_ids"]) != sorted(nodes_by_host[h])]
        if missing or wrong_nodes:
            problems.append(("started-only-after-all-hosts", f"{where}: EngineStarted at vt={t_started:.3f} but hosts {missing} had not finished start_engine / hosts {wrong_nodes} did not start exactly their nodes", None))
        if expect_failure:
            ctx.clause("start-failure-reported" if kind == "start-fails" else "daemon-departure-reported")
            if kind == "start-fails":
                problems.append(("start-failure-reported", f"{where}: start failed on {fault['host']} but race control was told the engine has started", None))
            elif not [h for h in hosts if h.startswith(fault["ip"] + ":") and evs("started", h)]:
                problems.append(("daemon-departure-reported", f"{where}: daemon {fault['ip']} left during start-up, its nodes never started, but race control was told the engine has started", None))
    else:
        ctx.clause("start-failure-reported" if kind == "start-fails" else "daemon-departure-reported" if kind == "leaves-before-use" else "no-stall")
        if start[2] != "BenchmarkFailure":
            problems.append(("start-failure-reported", f"{where}: unexpected reply to StartEngine: {start}", None))
        elif not expect_failure:
            problems.append(("no-stall", f"{where}: engine start failed without any injected start fault: {start}", None))
    dep = res.get("departure")
    departed_ip = fault.get("ip") if dep is not None else None
    departed_after_start = bool(dep and dep["nodes_started_on_daemon"])

    def gone(h):
        return departed_ip is not None and h.startswith(departed_ip + ":")

    if stop is not None:
        if departed_after_start and stop[2] != "EngineStopped":
            # a daemon whose nodes were already running went away: outside the statement (a report is promised only for departures during
            # start-up, an acknowledgement only after all hosts confirmed): observed and counted, nothing demanded
            feats.add("observed:stop-after-departure-answered-with-" + str(stop[2]))
        elif stop[2] == "EngineStopped":
            ctx.clause("stopped-only-after-all-hosts")
            started_hosts = [h for h in hosts if evs("started", h)]
            alive = [h for h in started_hosts if not gone(h)]
            late_hosts = [h for h in alive if not [e for e in evs("stop_engine:return", h) if e["vt"] <= stop[1]]]
            if late_hosts:
                problems.append(("stopped-only-after-all-hosts", f"{where}: EngineStopped at vt={stop[1]:.3f} before hosts {late_hosts} had finished stop_engine", None))
        elif kind == "stop-fails":
            ctx.clause("stopped-only-after-all-hosts")
            if stop[2] != "BenchmarkFailure":
                problems.append(("stopped-only-after-all-hosts", f"{where}: stop failed on {fault['host']} but race control got {stop}", None))
        else:
            problems.append(("stopped-only-after-all-hosts", f"{where}: StopEngine was answered with {stop}", None))
    # every started host is stopped exactly once (normal path or teardown), with the full stop sequence
    for h in hosts:
        if not evs("started", h):
            continue
        if gone(h):
            continue  # its process is gone
        stops = evs("stop", h)
        ctx.clause("stop-exactly-once" if start[2] == "EngineStarted" else "stopped-after-failure")
        if kind == "stop-fails" and fault["host"] == h and len(stops) in (1, 2):
            continue  # the failed stop may be attempted again when the actor is torn down
        if len(stops) != 1:
            problems.append(("stop-exactly-once" if start[2] == "EngineStarted" else "stopped-after-failure", f"{where}: nodes on {h} were stopped {len(stops)} times", {"stops": len(stops)}))
            continue
        if kind == "stop-fails" and fault["host"] == h:
            continue
        ctx.clause("stop-sequence")
        i_stop = log.index(stops[0])
        seq = [e["kind"] for e in log[i_stop:] if e["host"] == h and e["kind"] in ("stop", "flush")]
        if seq[:2] != ["stop", "flush"] or not [e for e in log[i_stop:] if e["host"] == h and e["kind"] == "flush" and e.get("refresh")]:
            problems.append(("stop-sequence", f"{where}: stop sequence on {h} was {seq[:4]} (expected stop, then flush with refresh)", None))
        ctx.clause("cleanup-unless-preserve")
        cl = [e for e in log if e["kind"] == "cleanup" and any(f"/{h.replace(':', '-')}-" in p for p in [e["host"]])]
        if len(cl) != len(nodes_by_host[h]) or any(e["preserve"] != case.get("preserve", False) for e in cl):
            problems.append(("cleanup-unless-preserve", f"{where}: cleanup on {h}: {[(e['host'], e['preserve']) for e in cl]} (expected one per node with preserve={case.get('preserve', False)})", None))


def one_case(ctx, case):
    feats = {"fault:" + case["fault"]["kind"]}
    res = run_case(case, ctx.scratch)
    problems = []
    if res["budget"] or res["error"]:
        ctx.feature("budget-exceeded" if res["budget"] else "harness-error")
        if res["error"]:
            ctx.note(res["error"])
            if ctx.features["harness-error"] > 3:
                ctx.mark_inconclusive(f"harness errors: {res['error']}")
        ctx.case(case, False, ())
        return problems
    check(ctx, case, res, problems, feats)
    if case["late"]:
        feats.add("remote-joins-late")
    if case.get("extras"):
        feats.add("non-target-convention-members")
    hosts = {}
    for ip, port in case["pairs"]:
        hosts.setdefault((ip, port), 0)
        hosts[(ip, port)] += 1
    if any(v > 1 for v in hosts.values()):
        feats.add("several-nodes-per-host")
    ips = {ip for ip, _ in case["pairs"]}
    if "127.0.0.1" in ips and len(ips) > 1:
        feats.add("local-and-remote")
    if case.get("local_name"):
        feats.add("local-host-by-name")
    ctx.distinct("delivery-order-fingerprints", repr(tuple(res["kernel"].fingerprint)))
    ctx.case(case, len(hosts) >= 2 or case["fault"]["kind"] != "none", feats)
    ctx.sample({"case": case, "observed": {"replies": [(r[0], round(r[1], 3), r[2]) for r in res["replies"]], "calls": [(round(e["vt"], 3), e["kind"], e["host"]) for e in res["env"].log][:14]}},
               tag=case["fault"]["kind"] + ("-late" if case["late"] else ""))
    for clause, msg, detail in problems:
        ctx.violation(clause, {"case": case, "detail": detail}, msg)
    return problems


def run_shard(ctx):
    universe = small_universe()
    limit = len(universe) if ctx.tier == "thorough" else min(len(universe), 9000)
    done = True
    for i in range(ctx.shard, limit, ctx.nshards):
        if ctx.time_left() < -15:
            done = False
            break
        one_case(ctx, universe[i])
    ctx.exhaustive[f"small universe: first {limit} of {len(universe)} (host list <= 3 pairs over 3 ips x 2 ports) x join order x lateness x single fault"] = done
    # launcher class: every combination of up to 3 node process states (exhaustive), then random longer ones
    import itertools as _it

    combos = [list(c) for n in (1, 2, 3) for c in _it.product(c12_launcher.STATES, repeat=n)]
    for j in range(ctx.shard, len(combos), ctx.nshards):
        c12_launcher.launcher_case(ctx, None, explicit=combos[j])
    ctx.exhaustive["launcher: all sequences of <= 3 node process states"] = True
    starts = [list(c) for n in (1, 2, 3) for c in _it.product(c12_launcher.START_STATES, repeat=n)]
    for j in range(ctx.shard, len(starts), ctx.nshards):
        c12_launcher.start_case(ctx, None, explicit=starts[j])
    i = 0
    while ctx.more():
        if i % 50 == 25:
            c12_launcher.launcher_case(ctx, ctx.case_rng(i))
        else:
            one_case(ctx, gen_case(ctx.case_rng(i)))
        i += 1


def classify(v):
    d = (v.get("witness") or {}).get("detail") or {}
    dep = d.get("departure") or {}
    if v["clause"] == "daemon-departure-reported" and d.get("fault") == "leaves-before-use" and not d.get("handler_error") and dep and not dep.get("dispatcher_listening") \
            and dep.get("actors_on_daemon", 0) > 0:
        # the daemon went away after the dispatcher had stopped listening for convention changes (all daemons had joined and the
        # StartNodes messages were on their way) but before all of its node mechanics answered
        return "daemon-departure-after-dispatch-not-reported"
    return None


def replay(ctx, rec):
    if rec["witness"].get("workload") == "launcher-start":
        c12_launcher.start_case(ctx, None, explicit=rec["witness"]["states"])
    elif rec["witness"].get("workload") == "launcher":
        c12_launcher.launcher_case(ctx, None, explicit=rec["witness"]["states"])
    else:
        one_case(ctx, rec["witness"]["case"])


MANIFEST = {
    "text": "Fault enumeration: the real MechanicActor/Dispatcher/NodeMechanicActor/Mechanic run on the deterministic actor kernel with recording stand-ins below "
    "Mechanic; host lists x daemon join orders x single faults are enumerated (small universe exhaustively) and every run's reply messages and ordered call log "
    "are checked: EngineStarted/EngineStopped only after all hosts finished, every started node stopped exactly once with stop->flush->cleanup (cleanup honours "
    "preserve), start failures and daemon departures reach race control instead of hanging, external clusters untouched. The convention also holds members that are no "
    "target hosts. A second workload class drives the real ProcessLauncher.stop / Mechanic.stop_engine over scripted process states (all sequences of <= 3 nodes): every node "
    "is asked to stop, its system metrics are stored exactly once, telemetry is detached, a process that refuses to die is killed. A third class drives the real ProcessLauncher.start with the real telemetry devices "
    "over node processes that are alive or already gone when the telemetry attaches: a dead node must fail the start.",
    "note": "Supplier/provisioner (and, in the actor class, the launcher) are stand-ins; Thespian model as in C01; convention notices come from the admin.",
    "technique": "runtime monitor: trace checker over reply messages and an ordered call log of the real mechanic actors under enumerated faults and message orders",
    "engines": ["vclock", "simactor"],
    "engine": "simactor",
}
