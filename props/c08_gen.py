"""Generators shared by C08 and C20.

Two kinds of objects, both plain JSON-able data so that a witness can be written out and replayed:

* a *store spec*: the list of metric records (in put order) that will be written to a real InMemoryMetricsStore, plus the
  track / challenge / task structure the real GlobalStatsCalculator walks over;
* a *result structure*: a dict in the shape of GlobalStats.as_dict() (what ends up under "results" in race.json), with every
  optional section present or absent. `mutate_results` turns one into a near relative for comparisons.
"""
import copy
import datetime
import math

TASK_NAMES = [
    "index-append", "search #1", "term", "tâche-é", "задача", "任务-1", "a b/c", "match_all", "force-merge", "scroll", "phrase",
    "aggs.hourly", "üñï-code", "index-update", "composite-1", "put-settings", "wait", "delete-index", "λ-query", "日本語タスク",
]
OP_TYPES = ["bulk", "search", "force-merge", "composite", "raw-request", "custom-type", "put-settings", "index-stats", "sleep"]
THROUGHPUT_UNITS = ["docs/s", "ops/s", "pages/s", "MB/s"]
REQUEST_METRICS = ["latency", "service_time", "processing_time"]

SMALL_COUNTS = [0, 0, 1, 1, 2, 2, 3, 4, 5, 9, 10, 11, 12, 20, 50, 99, 100, 101, 150]
MEDIUM_COUNTS = [200, 500, 999, 1000, 1001, 1500, 2500]
BIG_COUNTS = [9999, 10000, 10001, 12000, 20000]

SUM_METRICS = {
    # result attribute -> (metric key, unit)
    "merge_count": ("merges_total_count", None),
    "refresh_count": ("refresh_total_count", None),
    "flush_count": ("flush_total_count", None),
    "young_gc_time": ("node_total_young_gen_gc_time", "ms"),
    "young_gc_count": ("node_total_young_gen_gc_count", None),
    "old_gc_time": ("node_total_old_gen_gc_time", "ms"),
    "old_gc_count": ("node_total_old_gen_gc_count", None),
    "zgc_cycles_gc_time": ("node_total_zgc_cycles_gc_time", "ms"),
    "zgc_cycles_gc_count": ("node_total_zgc_cycles_gc_count", None),
    "zgc_pauses_gc_time": ("node_total_zgc_pauses_gc_time", "ms"),
    "zgc_pauses_gc_count": ("node_total_zgc_pauses_gc_count", None),
    "dataset_size": ("dataset_size_in_bytes", "byte"),
    "store_size": ("store_size_in_bytes", "byte"),
    "translog_size": ("translog_size_in_bytes", "byte"),
    "ingest_pipeline_cluster_count": ("ingest_pipeline_cluster_count", None),
    "ingest_pipeline_cluster_time": ("ingest_pipeline_cluster_time", "ms"),
    "ingest_pipeline_cluster_failed": ("ingest_pipeline_cluster_failed", None),
}
NODE_LEVEL_KEYS = {k for k, (m, _) in SUM_METRICS.items() if m.startswith("node_total_")}
# cumulative times of primary shards: one record with a per-shard list
SHARD_TIME_METRICS = {
    "total_time": "indexing_total_time",
    "indexing_throttle_time": "indexing_throttle_time",
    "merge_time": "merges_total_time",
    "refresh_time": "refresh_total_time",
    "flush_time": "flush_total_time",
    "merge_throttle_time": "merges_total_throttled_time",
}
MEDIAN_METRICS = {
    "memory_segments": "segments_memory_in_bytes",
    "memory_doc_values": "segments_doc_values_memory_in_bytes",
    "memory_terms": "segments_terms_memory_in_bytes",
    "memory_norms": "segments_norms_memory_in_bytes",
    "memory_points": "segments_points_memory_in_bytes",
    "memory_stored_fields": "segments_stored_fields_memory_in_bytes",
    "segment_count": "segments_count",
}
TRANSFORM_METRICS = {
    "total_transform_processing_times": ("total_transform_processing_time", "ms"),
    "total_transform_index_times": ("total_transform_index_time", "ms"),
    "total_transform_search_times": ("total_transform_search_time", "ms"),
    "total_transform_throughput": ("total_transform_throughput", "docs/s"),
}
DISK_USAGE_ATTRS = [
    "disk_usage_total", "disk_usage_inverted_index", "disk_usage_stored_fields", "disk_usage_doc_values", "disk_usage_points",
    "disk_usage_norms", "disk_usage_term_vectors",
]
INDEX_NAMES = ["logs-1", "geonames", "индекс", "idx.with.dots"]
FIELD_NAMES = ["_id", "_source", "message", "@timestamp", "geo.location", "naïve_field", "字段"]

RACE_TIMESTAMP = datetime.datetime(2021, 3, 4, 5, 6, 7)


# --------------------------------------------------------------------------- values
def gen_values(rng, n, profile=None):
    """n request-metric values (ms or ops/s), never negative."""
    if n == 0:
        return []
    if profile is None:
        profile = rng.choice(["uniform", "uniform", "lognormal", "equal", "zeros", "with-zeros", "huge", "tiny", "ints", "two-values", "mostly-zero"])
    if profile == "uniform":
        scale = rng.choice([1.0, 10.0, 1000.0, 1e5])
        return [rng.random() * scale for _ in range(n)]
    if profile == "lognormal":
        return [rng.lognormvariate(1.0, 1.5) for _ in range(n)]
    if profile == "equal":
        v = rng.choice([0.0, 0, 1, 2.5, 1e-9, 123456.789, rng.random() * 100])
        return [v] * n
    if profile == "zeros":
        return [rng.choice([0.0, 0])] * n
    if profile == "with-zeros":
        return [rng.choice([0.0, 0.0, rng.random() * 50]) for _ in range(n)]
    if profile == "mostly-zero":
        # a strict majority of zeros (median 0) and at least one positive value (mean > 0)
        if n < 3:
            return [0.0] * n
        k = rng.randint(1, (n - 1) // 2)
        vals = [0.0] * (n - k) + [rng.choice([5, 0.25, rng.random() * 1000 + 1]) for _ in range(k)]
        rng.shuffle(vals)
        return vals
    if profile == "huge":
        return [rng.choice([1e12, 1e15, 2.0**53, 1e18, rng.random() * 1e16, rng.randint(10**9, 10**17)]) for _ in range(n)]
    if profile == "tiny":
        return [rng.choice([1e-12, 1e-9, 5e-7, rng.random() * 1e-6, 1e-300, 0.0]) for _ in range(n)]
    if profile == "ints":
        return [rng.randint(0, 1000) for _ in range(n)]
    if profile == "two-values":
        a, b = rng.choice([(0, 5), (1.0, 1.0000000001), (0.0, 1e-9), (10, 1e15), (3, 4)])
        return [rng.choice([a, b]) for _ in range(n)]
    raise ValueError(profile)


def warmup_values(rng, n, normal):
    """Warm-up values that would visibly change any statistic if they were (wrongly) included."""
    if n == 0:
        return []
    mode = rng.choice(["above", "below", "same"])
    hi = max(normal) if normal else 1.0
    lo = min(normal) if normal else 1.0
    if mode == "above":
        return [hi * 3 + 1000 + rng.random() * 1000 for _ in range(n)]
    if mode == "below":
        return [lo / (3 + rng.random()) if lo > 0 else 0.0 for _ in range(n)]
    return gen_values(rng, n)


def pick_count(rng, size):
    if size == "big":
        return rng.choice(BIG_COUNTS)
    if size == "medium":
        return rng.choice(MEDIUM_COUNTS)
    r = rng.random()
    if r < 0.75:
        return rng.choice(SMALL_COUNTS)
    return rng.randint(0, 120)


def gen_meta(rng):
    return rng.choice([None, None, {}, {"tag": "v1"}, {"clients": 8, "phase": "idx"}, {"étiquette": "ü", "n": 1.5}, {"nested": {"a": [1, 2]}}])


# --------------------------------------------------------------------------- store spec
def gen_store_spec(rng, size="small"):
    """size: small | medium | big - the largest per-metric normal count that one (task, metric) of the store gets."""
    ntasks = rng.choice([1, 1, 2, 2, 3, 4]) if size == "small" else rng.choice([1, 2])
    names = rng.sample(TASK_NAMES, ntasks + 1)
    foreign_task = names.pop()  # records of a task that is not part of the challenge
    tasks = []
    records = []
    big_slot = (rng.randrange(ntasks), rng.choice(REQUEST_METRICS)) if size != "small" else None
    twin_of = None
    for ti in range(ntasks):
        op_type = rng.choice(OP_TYPES)
        op_name = rng.choice([names[ti], names[ti], f"op-{ti}", "shared-op"] + ([names[ti + 1]] if ti + 1 < len(names) else []))
        report = rng.random() < 0.85
        t = {
            "name": names[ti], "op": op_name, "op_type": op_type, "report": report, "meta": gen_meta(rng), "op_meta": gen_meta(rng),
            "parallel": rng.random() < 0.25, "thr_unit": rng.choice(THROUGHPUT_UNITS),
        }
        tasks.append(t)
        coherent = rng.random() < 0.5  # the three request metrics share count and flags, as the driver writes them
        base_n = pick_count(rng, "small")
        if twin_of is not None and rng.random() < 0.7:
            base_n = twin_of  # same normal count as the previous task, different values: reported percentile sets must agree
        twin_of = base_n
        base_w = rng.choice([0, 0, 1, 3, 10, rng.randint(0, 40)])
        fail_p = rng.choice([0.0, 0.0, 0.1, 0.5, 1.0])
        warm_fail_p = rng.choice([0.0, 1.0, fail_p])
        flags_n = [rng.random() >= fail_p for _ in range(base_n)]
        flags_w = [rng.random() >= warm_fail_p for _ in range(base_w)]
        for m in REQUEST_METRICS:
            if big_slot == (ti, m):
                n, w = pick_count(rng, size), rng.choice([0, 5, 300])
                profile = rng.choice(["uniform", "lognormal", "with-zeros", "ints", "huge", "two-values"])
                fn = [rng.random() >= fail_p for _ in range(n)]
                fw = [rng.random() >= warm_fail_p for _ in range(w)]
            elif coherent:
                n, w, fn, fw, profile = base_n, base_w, flags_n, flags_w, None
            else:
                n, w = pick_count(rng, "small"), rng.choice([0, 0, 2, rng.randint(0, 30)])
                # flags that differ from those of service_time, so that only service_time decides the error rate
                fp2 = rng.choice([0.0, 0.5, 1.0])
                fn = [rng.random() >= fp2 for _ in range(n)]
                fw = [rng.random() >= fp2 for _ in range(w)]
                profile = None
            if m == "processing_time" and rng.random() < 0.2:
                n, w, fn, fw = 0, 0, [], []
            normal = gen_values(rng, n, profile)
            warm = warmup_values(rng, w, normal)
            for v, ok in zip(normal, fn):
                records.append({"k": "req", "name": m, "task": ti, "v": v, "st": 1, "ok": ok})
            for v, ok in zip(warm, fw):
                records.append({"k": "req", "name": m, "task": ti, "v": v, "st": 0, "ok": ok})
        # throughput
        nthr = rng.choice([0, 1, 2, 2, 3, 5, 8, 20, rng.randint(0, 60)])
        wthr = rng.choice([0, 0, 1, 4, rng.randint(0, 10)])
        if fail_p == 1.0 and rng.random() < 0.15:
            tprofile = "zeros"  # every request failed under on-error=continue: 0 ops per request
        else:
            tprofile = rng.choice(["with-zeros", "mostly-zero", "equal", "tiny", "two-values"]) if rng.random() < 0.12 else rng.choice(["uniform", "uniform", "lognormal", "ints", "huge"])
        tn = gen_values(rng, nthr, tprofile)
        tw = warmup_values(rng, wthr, tn)
        for v in tn:
            records.append({"k": "thr", "task": ti, "v": v, "st": 1})
        for v in tw:
            records.append({"k": "thr", "task": ti, "v": v, "st": 0})
        # dependent timings of a composite-like task: service_time records of the same task, other operation / type
        if rng.random() < 0.3:
            sub_type = rng.choice([x for x in OP_TYPES if x != op_type])
            for _ in range(rng.randint(1, 12)):
                records.append(
                    {"k": "dep", "task": ti, "v": rng.random() * 1e4 + 5e4, "st": rng.choice([0, 1, 1]), "ok": rng.random() < 0.5,
                     "op": f"sub-{sub_type}", "op_type": sub_type}
                )
        # the same operation type under another task name that is not in the challenge
        if rng.random() < 0.25:
            for _ in range(rng.randint(1, 6)):
                records.append({"k": "foreign", "name": rng.choice(REQUEST_METRICS + ["throughput"]), "task_name": foreign_task,
                                "op_type": op_type, "v": rng.random() * 1e6 + 1e5, "st": 1, "ok": rng.random() < 0.5})
    g = {}
    sections = set()
    for attr, (key, unit) in SUM_METRICS.items():
        p = 0.35 if not attr.startswith("ingest") else 0.25
        if rng.random() < p:
            n = rng.choice([1, 1, 2, 3, 5])
            vals = [rng.choice([0, 0, rng.randint(0, 10**6), rng.random() * 1e5, rng.randint(10**9, 10**13)]) for _ in range(n)]
            for i, v in enumerate(vals):
                if attr in NODE_LEVEL_KEYS:
                    records.append({"k": "node", "name": key, "node": f"rally-node-{i}", "v": v, "unit": unit})
                else:
                    records.append({"k": "cluster", "name": key, "v": v, "unit": unit})
            g[attr] = vals
            if attr.startswith("ingest"):
                sections.add("ingest-pipeline")
    for attr, key in SHARD_TIME_METRICS.items():
        if rng.random() < 0.4:
            nshards = rng.choice([1, 2, 3, 5, 8])
            per_shard = [rng.choice([0, rng.randint(0, 10**6), rng.randint(0, 100)]) for _ in range(nshards)]
            records.append({"k": "shard-time", "name": key, "v": sum(per_shard), "per_shard": per_shard})
            g[attr] = {"value": [sum(per_shard)], "per_shard": per_shard}
            sections.add("per-shard")
    for attr, key in MEDIAN_METRICS.items():
        if rng.random() < 0.35:
            n = rng.choice([1, 1, 2, 3, 4])
            vals = [rng.choice([0, rng.randint(0, 10**9), rng.randint(1, 50)]) for _ in range(n)]
            for v in vals:
                records.append({"k": "cluster", "name": key, "v": v, "unit": "byte" if key != "segments_count" else None})
            g[attr] = vals
    if rng.random() < 0.25:
        jobs = []
        for j in range(rng.randint(1, 3)):
            lo = rng.random() * 10
            job = {"job": rng.choice(["job", "benchmark_ml_job", "jöb"]) + f"_{j}", "min": lo, "mean": lo + 1.5, "median": lo + 1, "max": lo + 40, "unit": "ms"}
            if rng.random() < 0.2:
                job.update({"min": 0, "mean": 0.0, "median": 0, "max": 0})
            jobs.append(job)
            records.append(dict(job, k="ml"))
        g["ml_processing_time"] = jobs
        sections.add("ml")
    if rng.random() < 0.25:
        ids = [rng.choice(["transform-a", "tränsform"]) + f"-{i}" for i in range(rng.randint(1, 3))]
        for attr, (key, unit) in TRANSFORM_METRICS.items():
            items = []
            for tid in ids:
                v = rng.choice([0, rng.random() * 1e4, rng.randint(0, 10**6)])
                items.append({"id": tid, "mean": v, "unit": unit})
                records.append({"k": "transform", "name": key, "id": tid, "v": v, "unit": unit})
            g[attr] = items
        sections.add("transform")
    if rng.random() < 0.25:
        du = {a: [] for a in DISK_USAGE_ATTRS}
        for index in rng.sample(INDEX_NAMES, rng.randint(1, 2)):
            for field in rng.sample(FIELD_NAMES, rng.randint(1, 3)):
                total = rng.choice([0, rng.randint(1, 10**10)])
                for a in DISK_USAGE_ATTRS:
                    if a == "disk_usage_total":
                        v = total
                    elif rng.random() < 0.5:
                        v = rng.randint(1, 10**9)  # only recorded when non-zero
                    else:
                        continue
                    du[a].append({"index": index, "field": field, "value": v, "unit": "byte"})
                    records.append({"k": "disk", "name": a, "index": index, "field": field, "v": v})
        g.update(du)
        sections.add("disk-usage")
    # telemetry noise that the calculator must ignore
    for _ in range(rng.choice([0, 0, 2, 5])):
        records.append({"k": "node", "name": rng.choice(["cpu_utilization_1s", "disk_io_write_bytes", "node_startup_time", "jvm_memory_pool_peak"]),
                        "node": "rally-node-0", "v": rng.random() * 1e6, "unit": None})
    if rng.random() < 0.7:
        rng.shuffle(records)
    return {
        "track": {"name": rng.choice(["geonames", "trâck", "http_logs"]), "meta": gen_meta(rng)},
        "challenge": {"name": rng.choice(["append-no-conflicts", "défi", "c"]), "meta": gen_meta(rng), "auto": rng.random() < 0.15},
        "tasks": tasks,
        "records": records,
        "globals": g,
        "sections": sorted(sections),
        "transfer": rng.choice([0, 0, 0, 1, 1, 2, 3, 5]),  # ship the records as racecontrol does: to_externalizable() -> bulk_add()
        "car": rng.choice([["defaults"], ["4gheap", "ea"], "external"]),
        "user_tags": rng.choice([{}, {"intention": "baseline"}, {"名前": "テスト", "n": "1"}]),
    }


def spec_size(spec):
    return len(spec["records"])


# --------------------------------------------------------------------------- result structures
def percentile_keys_for(n):
    """Keys as they appear in a stored result for a sample count n (taken from a result of the real calculator, see C08 clause
    percentile-set-by-count which checks that this only depends on n). Used for *generated* result structures only."""
    from esrally import metrics

    return [metrics.encode_float_key(p) for p in metrics.percentiles_for_sample_size(n)] if n > 0 else []


def gen_number(rng, kind="time"):
    if kind == "count":
        return rng.choice([0, 0, 1, 7, rng.randint(0, 10**5), rng.randint(10**9, 10**12)])
    if kind == "bytes":
        return rng.choice([0, 512, 1024, 1025, 1024**2 + 1, rng.randint(0, 10**7), rng.randint(10**9, 10**12)])
    return rng.choice([0, 0.0, 1, 2.5, rng.random(), rng.random() * 100, rng.random() * 1e5, rng.randint(0, 10**7), 1e-7, 123456.789012])


def gen_latency_block(rng, allow_negative=False):
    n = rng.choice([0, 1, 5, 50, 500, 5000, 50000])
    if n == 0:
        return {}
    base = rng.choice([0.0, 0.001, 1.0, 50.0, 5000.0])
    vals = sorted(base + rng.random() * rng.choice([0, 1e-6, 1.0, 100.0]) for _ in range(6))
    if allow_negative and rng.random() < 0.3:
        vals = sorted(-v for v in vals)
    block = {}
    for k, v in zip(percentile_keys_for(n), vals):
        block[k] = v
    block["mean"] = sum(vals) / len(vals)
    block["unit"] = "ms"
    return block


def gen_results(rng, negative=False):
    """A dict shaped like GlobalStats.as_dict() after a JSON round trip. negative=True also produces values below zero
    (hand-edited or derived result files); C08 results never contain them."""
    d = {}
    feats = set()
    ntasks = rng.choice([0, 1, 1, 2, 3, 5])
    op_metrics = []
    for name in rng.sample(TASK_NAMES, ntasks):
        if rng.random() < 0.15:
            thr = {"min": None, "mean": None, "median": None, "max": None, "unit": rng.choice(THROUGHPUT_UNITS)}
        else:
            lo = rng.choice([0, 0.0, 1.5, 100.0, 12345.678, rng.random() * 1e5])
            sp = rng.choice([0, 0, 1e-6, 1.0, 1000.0])
            thr = {"min": lo, "mean": lo + sp / 2, "median": lo + sp / 3, "max": lo + sp, "unit": rng.choice(THROUGHPUT_UNITS)}
            if negative and rng.random() < 0.1:
                thr = {k: (-v if isinstance(v, (int, float)) else v) for k, v in thr.items()}
        item = {
            "task": name,
            "operation": rng.choice([name, "shared-op"]),
            "throughput": thr,
            "latency": gen_latency_block(rng, negative),
            "service_time": gen_latency_block(rng, negative),
            "processing_time": gen_latency_block(rng, negative),
            "error_rate": rng.choice([0.0, 0.0, 0, 1.0, 0.5, rng.random(), 1e-8]),
            "duration": rng.choice([None, 0, rng.random() * 1e6]),
        }
        m = gen_meta(rng)
        if m:
            item["meta"] = m
        op_metrics.append(item)
    if len(op_metrics) >= 2 and rng.random() < 0.3:
        # the usual track shape {"name": "warmup-term", "operation": "term"} followed by {"operation": "term"} (task name defaults to the
        # operation name): an earlier task uses the operation a later task is named after
        i = rng.randrange(len(op_metrics) - 1)
        j = rng.randrange(i + 1, len(op_metrics))
        op_metrics[i]["operation"] = op_metrics[j]["task"]
        feats.add("task-named-like-an-earlier-tasks-operation")
    d["op_metrics"] = op_metrics
    for attr in SHARD_TIME_METRICS:
        present = rng.random() < 0.5
        d[attr] = gen_number(rng, "time") if present else None
        if present and rng.random() < 0.6:
            a, b, c = sorted(gen_number(rng, "time") for _ in range(3))
            d[attr + "_per_shard"] = {"min": a, "median": b, "max": c, "unit": "ms"}
            feats.add("per-shard")
        else:
            d[attr + "_per_shard"] = {}
    for attr, (key, unit) in SUM_METRICS.items():
        if attr.startswith("ingest"):
            continue
        kind = "count" if unit is None else ("bytes" if unit == "byte" else "time")
        d[attr] = gen_number(rng, kind) if rng.random() < 0.5 else None
    ingest = rng.random() < 0.4
    for attr in ("ingest_pipeline_cluster_count", "ingest_pipeline_cluster_time", "ingest_pipeline_cluster_failed"):
        d[attr] = gen_number(rng, "time" if attr.endswith("time") else "count") if ingest else None
    if ingest:
        feats.add("ingest-pipeline")
    for attr in MEDIAN_METRICS:
        d[attr] = gen_number(rng, "count" if attr == "segment_count" else "bytes") if rng.random() < 0.5 else None
    d["ml_processing_time"] = []
    if rng.random() < 0.35:
        for j in range(rng.randint(1, 3)):
            lo = gen_number(rng, "time")
            d["ml_processing_time"].append({"job": f"jöb_{j}", "min": lo, "mean": lo + 1.5, "median": lo + 1, "max": lo + 40, "unit": "ms"})
        feats.add("ml")
    transform = rng.random() < 0.35
    ids = [f"tränsform-{i}" for i in range(rng.randint(1, 3))] if transform else []
    for attr, (key, unit) in TRANSFORM_METRICS.items():
        d[attr] = [{"id": tid, "mean": gen_number(rng, "time"), "unit": unit} for tid in ids]
    if transform:
        feats.add("transform")
    for a in DISK_USAGE_ATTRS:
        d[a] = []
    if rng.random() < 0.35:
        for index in rng.sample(INDEX_NAMES, rng.randint(1, 2)):
            for field in rng.sample(FIELD_NAMES, rng.randint(1, 3)):
                for a in DISK_USAGE_ATTRS:
                    if a == "disk_usage_total":
                        v = gen_number(rng, "bytes")
                    elif rng.random() < 0.5:
                        v = rng.choice([1, 1023, 1025, rng.randint(1, 10**10)])
                    else:
                        continue
                    d[a].append({"index": index, "field": field, "value": v, "unit": "byte"})
        feats.add("disk-usage")
    if negative and rng.random() < 0.3:
        for attr in rng.sample(sorted(SHARD_TIME_METRICS) + ["young_gc_time", "store_size", "segment_count"], 3):
            if isinstance(d.get(attr), (int, float)) and d[attr]:
                d[attr] = -d[attr]
                feats.add("negative")
    if any(isinstance(v, (int, float)) and v < 0 for it in op_metrics for blk in (it["throughput"], it["latency"], it["service_time"]) for v in blk.values()):
        feats.add("negative")
    if any(ord(ch) > 127 for it in op_metrics for ch in it["task"]):
        feats.add("non-ascii-task")
    return d, feats


def nudge(rng, v, negative=False):
    """A neighbour of the number v: equal, below the printing threshold, just above it, clearly different, zero."""
    if v is None or isinstance(v, bool) or not isinstance(v, (int, float)):
        return v
    mode = rng.choice(["same", "same", "sub", "edge", "edge", "rel", "rel", "big", "zero", "int"] + (["neg"] if negative else []))
    if mode == "same":
        return v
    if mode == "sub":  # below what five decimals can show
        return v + rng.choice([-1, 1]) * rng.choice([1e-9, 1e-7, 4e-6])
    if mode == "edge":  # around the five-decimal / two-decimal-percent thresholds
        return v + rng.choice([-1, 1]) * rng.choice([5e-6, 6e-6, 9e-6, 1e-5, 1.1e-5, 2e-5, abs(v) * 4e-5, abs(v) * 6e-5, abs(v) * 1e-4])
    if mode == "rel":
        return v * (1 + rng.choice([-1, 1]) * rng.choice([1e-3, 0.05, 0.5]))
    if mode == "big":
        return v + rng.choice([-1, 1]) * rng.choice([1, 10, 1000, 60000, 10**9])
    if mode == "zero":
        return 0 if isinstance(v, int) else 0.0
    if mode == "int":
        return int(v) + rng.choice([-1, 0, 1])
    return -v


def mutate_results(rng, base, negative=True):
    """Turns one result structure into a relative of it: subset of tasks, metrics dropped or added, sections toggled, values nudged."""
    d = copy.deepcopy(base)
    feats = set()
    keep_nonneg = lambda old, new: new if negative or new is None or not isinstance(new, (int, float)) or new >= 0 else old  # noqa: E731

    ops = d["op_metrics"]
    if ops and rng.random() < 0.3:
        ops.pop(rng.randrange(len(ops)))
        feats.add("task-only-in-one")
    if rng.random() < 0.2:
        extra, _ = gen_results(rng, negative)
        have = {o["task"] for o in ops}
        for o in extra["op_metrics"][:1]:
            if o["task"] not in have:
                ops.insert(rng.randrange(len(ops) + 1), o)
                feats.add("task-only-in-one")
    if len(ops) > 1 and rng.random() < 0.3:
        rng.shuffle(ops)
        feats.add("task-order-differs")
    for o in ops:
        for blk_name in ("throughput", "latency", "service_time", "processing_time"):
            blk = o[blk_name]
            for k in list(blk):
                if k == "unit":
                    continue
                blk[k] = keep_nonneg(blk[k], nudge(rng, blk[k], negative))
            if blk_name != "throughput" and blk and rng.random() < 0.15:
                # other sample count: fewer / more percentiles
                nb = gen_latency_block(rng, negative)
                o[blk_name] = nb
                feats.add("percentile-only-in-one")
            if blk_name == "throughput" and rng.random() < 0.08:
                for k in ("min", "mean", "median", "max"):
                    blk[k] = None
                feats.add("metric-only-in-one")
        o["error_rate"] = rng.choice([o["error_rate"], o["error_rate"], 0.0, 1.0, min(1.0, o["error_rate"] + 1e-8), min(1.0, o["error_rate"] + 0.25)])
    scalar_attrs = list(SHARD_TIME_METRICS) + list(SUM_METRICS) + list(MEDIAN_METRICS)
    for attr in scalar_attrs:
        r = rng.random()
        if r < 0.1:
            if d.get(attr) is None:
                d[attr] = gen_number(rng, "time")
            else:
                d[attr] = None
            feats.add("metric-only-in-one")
        else:
            d[attr] = keep_nonneg(d.get(attr), nudge(rng, d.get(attr), negative))
    for attr in SHARD_TIME_METRICS:
        ps = d.get(attr + "_per_shard") or {}
        if ps and rng.random() < 0.2:
            d[attr + "_per_shard"] = {}
            feats.add("section-only-in-one")
        else:
            for k in ("min", "median", "max"):
                if k in ps:
                    ps[k] = keep_nonneg(ps[k], nudge(rng, ps[k], negative))
    for job in d["ml_processing_time"]:
        for k in ("min", "mean", "median", "max"):
            job[k] = keep_nonneg(job[k], nudge(rng, job[k], negative))
    if d["ml_processing_time"] and rng.random() < 0.25:
        d["ml_processing_time"].pop()
        feats.add("section-only-in-one")
    for attr in TRANSFORM_METRICS:
        for it in d[attr]:
            it["mean"] = keep_nonneg(it["mean"], nudge(rng, it["mean"], negative))
    if d["total_transform_throughput"] and rng.random() < 0.25:
        for attr in TRANSFORM_METRICS:
            d[attr] = d[attr][:-1]
        feats.add("section-only-in-one")
    for a in DISK_USAGE_ATTRS:
        for it in d[a]:
            nv = nudge(rng, it["value"], False)
            it["value"] = max(0, int(nv)) if a == "disk_usage_total" else max(1, int(nv))
    if d["disk_usage_total"] and rng.random() < 0.3:
        a = rng.choice(DISK_USAGE_ATTRS[1:])
        if d[a]:
            d[a].pop(rng.randrange(len(d[a])))
            feats.add("disk-stat-only-in-one")
    if d["disk_usage_total"] and rng.random() < 0.15:
        for a in DISK_USAGE_ATTRS:
            d[a] = []
        feats.add("section-only-in-one")
    return d, feats


def is_finite_number(v):
    return isinstance(v, (int, float)) and not isinstance(v, bool) and math.isfinite(v)
