"""Shared workload for C04 and C05: generated task specs executed by rally's real AsyncIoAdapter / AsyncExecutor /
ScheduleHandle / schedulers / runners / async client on a virtual clock (engines.execharness), with a scripted
service-time and error model behind the client (engines.simes)."""
import asyncio
import random as _global_random

from esrally.driver import driver, runner
from esrally.track import params as track_params
from esrally.track import track

from engines import execharness, simes

_registered = False
# fault injection for C09 (set by the harness before a race, None otherwise):
#   {"kind": "params-raise" | "partition-raise" | "runner-keyerror" | "runner-exception", "task": name, "client": index in task, "k": ordinal}
FAULT = None
FAULT_FIRED = []


def _fault(kind, task, client=None, k=None):
    f = FAULT
    if f is None or f["kind"] != kind or f["task"] != task:
        return False
    if client is not None and (f.get("client") != client or f.get("k") != k):
        return False
    FAULT_FIRED.append(kind)
    return True


class VerifParamSource(track_params.ParamSource):
    """Hands each client its own scripted request list (op.params['requests'][client_index_in_task])."""

    def __init__(self, trk, params, **kwargs):
        super().__init__(trk, params, **kwargs)
        self._client = None
        self._k = 0
        self._finite = params.get("finite")  # number of requests after which StopIteration is raised (per client) or None

    def partition(self, partition_index, total_partitions):
        if _fault("partition-raise", self._params.get("task")):
            raise RuntimeError("verif: injected failure in partition()")
        p = VerifParamSource(self.track, self._params)
        p._client = partition_index
        return p

    @property
    def infinite(self):
        return self._finite is None

    @property
    def percent_completed(self):
        if self._finite is None:
            return None
        return min(1.0, self._k / self._finite) if self._finite else 1.0

    def params(self):
        if self._finite is not None and self._k >= self._finite:
            raise StopIteration()
        if _fault("params-raise", self._params.get("task"), self._client, self._k):
            # whatever a track's own parameter source may raise; the RuntimeError family matters because a generator-based schedule could mistake it
            # for the end of the source (PEP 479 turns a StopIteration inside a generator into RuntimeError)
            raise {"RuntimeError": RuntimeError, "NotImplementedError": NotImplementedError, "KeyError": KeyError}.get(FAULT.get("exc"), ValueError)("verif: injected failure in params()")
        reqs = self._params["requests"][self._client % len(self._params["requests"])]
        r = dict(reqs[self._k % len(reqs)])
        r["_k"] = self._k
        r["_client"] = self._client
        r["_task"] = self._params.get("task")
        self._k += 1
        return r


async def verif_runner(es, params):
    """One logical request: optional client-side work before, n wire requests, optional client-side work after."""
    if _fault("runner-keyerror", params.get("_task"), params.get("_client"), params.get("_k")):
        raise KeyError("verif-missing-parameter")
    if _fault("runner-exception", params.get("_task"), params.get("_client"), params.get("_k")):
        raise RuntimeError("verif: injected failure in runner")
    if params.get("pre"):
        await asyncio.sleep(params["pre"])
    n = params.get("wire", 1)
    for i in range(n):
        await es.perform_request(method="GET", path="/_verif/op", params={"k": str(params["_k"]), "i": str(i)})
    if params.get("post"):
        await asyncio.sleep(params["post"])
    res = {"weight": params.get("weight", 1), "unit": params.get("unit", "ops")}
    if params.get("unsuccessful"):
        res["success"] = False
    if params.get("supplied_throughput") is not None:
        res["throughput"] = params["supplied_throughput"]
    if params.get("ret"):
        res.update(params["ret"])  # further meta data that a (custom) runner may return with its result
    if params.get("_task") is not None:
        # unique id of the logical request (task, client index in task, ordinal): every stored record identifies its request
        res["verif_id"] = f"{params['_task']}:{params['_client']}:{params['_k']}"
    return res


class VerifCompletingRunner:
    """A runner that determines completion itself (like the wait-for-* and scroll-style runners): it reports `completed` once a client
    has called it `complete_after` times. Single-client tasks only (the registered instance is shared by all clients)."""

    def __init__(self):
        self.calls = 0
        self.complete_after = None

    def reset(self):
        self.calls, self.complete_after = 0, None

    async def __aenter__(self):
        return self

    async def __aexit__(self, *a):
        return False

    async def __call__(self, es, params):
        self.calls += 1
        self.complete_after = params.get("complete_after")
        return await verif_runner(es, params)

    @property
    def completed(self):
        return self.complete_after is not None and self.calls >= self.complete_after

    @property
    def percent_completed(self):
        return None  # it knows when it is done, not how far it is: the schedule's own progress is reported

    def __repr__(self):
        return "verif-op-completing"


COMPLETING = VerifCompletingRunner()


def ensure_registered(cfg):
    global _registered
    if not _registered:
        runner.register_default_runners(cfg)
        runner.register_runner("verif-op", verif_runner, async_runner=True)
        runner.register_runner("verif-op-completing", COMPLETING, async_runner=True)
        track_params.register_param_source_for_name("verif-source", VerifParamSource)
        _registered = True


# ----------------------------------------------------------------------------------------------------------------
def gen_case(rng, want=None):
    """A case = one schedule element (1-2 tasks running concurrently) + per-request scripts + service-time script."""
    ntasks = rng.choice([1, 1, 1, 2])
    tasks = []
    total_clients = 0
    for ti in range(ntasks):
        clients = rng.choice([1, 1, 2, 2, 3, 4, 8, 16]) if ntasks == 1 else rng.choice([1, 2, 3, 4])
        mode = want or rng.choice(["iter", "iter", "iter", "time", "time", "finite-source"])
        spec = {"name": f"task{ti}", "clients": clients, "mode": mode}
        # throttling
        th = rng.choice(["none", "none", "tp-num", "tp-ops", "tp-unit", "interval"])
        unit = rng.choice(["ops", "docs", "pages"])
        spec["unit"] = unit
        base = rng.choice([0.001, 0.01, 0.05, 0.3, 1.0])
        step = base  # rough virtual seconds per request and client, used to keep time-based tasks to a few hundred requests
        if th == "tp-num":
            spec["target_throughput"] = rng.choice([0.5, 1, 2, 10, 100, 1000, 7.5])
            step = max(step, clients / spec["target_throughput"])
        elif th == "tp-ops":
            v = rng.choice([1, 5, 20, 250, 2.5, 0.5, 12.75])  # a string target may carry a fraction
            spec["target_throughput"] = f"{v} ops/s"
            step = max(step, clients / v)
        elif th == "tp-unit":
            v = rng.choice([1, 10, 500, 5000, 7.5, 0.25])
            spec["target_throughput"] = f"{v} {unit}/s"
            step = max(step, clients / v)
        elif th == "interval":
            spec["target_interval"] = rng.choice([0.01, 0.1, 0.5, 2, 10])
            step = max(step, clients * spec["target_interval"])
        spec["schedule"] = rng.choice([None, None, "deterministic", "poisson"]) if th != "none" else rng.choice([None, "deterministic", "poisson"])
        if mode == "iter":
            w, n = rng.choice([0, 0, 1, 2, 5, 20]), rng.choice([1, 1, 2, 3, 7, 20, 50])  # the track schema requires iterations >= 1
            spec["warmup_iterations"], spec["iterations"] = w, n
        elif mode == "time":
            spec["warmup_time_period"] = round(step * rng.choice([0, 0, 1, 2.5, 5]), 6)
            spec["time_period"] = round(step * rng.choice([0.5, 1, 3, 10, 40]), 6)
            if rng.random() < 0.35 and spec["warmup_time_period"] > 0:
                spec["ramp_up_time_period"] = rng.choice([spec["warmup_time_period"], spec["warmup_time_period"] / 2])
        else:
            spec["finite"] = rng.choice([1, 2, 5, 13])
            if clients > 1 and rng.random() < 0.25:
                # a source that runs dry (a small corpus) under a long warm-up period with ramp-up: the first clients are done while later ones
                # still wait for their turn
                spec["warmup_time_period"] = round(step * rng.choice([20, 100]), 6)
                spec["ramp_up_time_period"] = rng.choice([spec["warmup_time_period"], spec["warmup_time_period"] / 2])
        # per-client request scripts
        weight_mode = rng.choice(["one", "one", "const", "changing"])
        svc_mode = rng.choice(["const", "const", "bursty", "slow", "zero", "mixed"])
        if mode == "time" and svc_mode == "zero":
            svc_mode = "const"  # a time-based task whose requests take no virtual time would never end
        err_mode = rng.choice(["none", "none", "none", "http", "timeout", "unsuccessful", "retry-status"])
        over_mode = rng.choice(["none", "none", "pre", "post", "both"])
        reqs = []
        for c in range(clients):
            lst = []
            for k in range(rng.choice([1, 3, 8])):
                r = {"wire": rng.choice([1, 1, 1, 2, 3]), "unit": unit}
                if weight_mode == "const":
                    r["weight"] = 7
                elif weight_mode == "changing":
                    r["weight"] = rng.choice([1, 2, 10, 500])
                if over_mode in ("pre", "both"):
                    r["pre"] = rng.choice([0.0, 0.002, 0.05])
                if over_mode in ("post", "both"):
                    r["post"] = rng.choice([0.0, 0.004, 0.1])
                if err_mode == "unsuccessful" and rng.random() < 0.4:
                    r["unsuccessful"] = True
                if rng.random() < 0.03:
                    r["supplied_throughput"] = rng.choice([0.0, 12.5])
                lst.append(r)
            reqs.append(lst)
        # keep the virtual duration of a case in the range of an hour: aiohttp's keep-alive housekeeping timer fires every few
        # virtual seconds while a task runs, which is real behaviour but pure overhead for very long idle periods
        if th != "none":
            maxw = max(r.get("weight", 1) for lst in reqs for r in lst) if (th == "tp-unit" or unit == "ops") else 1
            nreq = (spec.get("warmup_iterations", 0) + spec.get("iterations", 0)) or spec.get("finite", 0) or 40
            if step * maxw * nreq > 3000:
                for lst in reqs:
                    for r in lst:
                        r.pop("weight", None)
                if step * nreq > 3000 and mode == "iter":
                    spec["warmup_iterations"] = min(spec["warmup_iterations"], 2)
                    spec["iterations"] = max(1, int(3000 / step) - spec["warmup_iterations"])
        if ntasks == 1 and clients == 1 and mode == "iter" and rng.random() < 0.25:
            # a runner that determines completion itself, on a task with explicit iterations: the iterations decide (the runner would
            # only report completion three requests later)
            spec["op_type"] = "verif-op-completing"
            for lst in reqs:
                for r in lst:
                    r["complete_after"] = spec["warmup_iterations"] + spec["iterations"] + 3
        spec["requests"] = reqs
        spec["svc"] = {"mode": svc_mode, "base": base, "err": err_mode, "seed": rng.randint(0, 1 << 30)}
        tasks.append(spec)
        total_clients += clients
    case = {"tasks": tasks, "pc_offset": rng.choice([0.0, 0.0, 12345.678, 1e4 * rng.random()]), "poisson_seed": rng.randint(0, 1 << 30)}
    # the challenge may hold another, wider schedule element before or after the one that is executed: what the element's clients are told about
    # their position (index, clients of the element) must not depend on it
    if ntasks == 1 and tasks[0]["clients"] > 1 and rng.random() < 0.15:
        # the task is the one that completes its parallel element (completed-by): its own clients still run all of their iterations, however
        # early a sibling client on the same worker is done
        tasks[0]["completes_parent"] = True
    wider = rng.choice([None, None, None, "before", "after"])
    if wider:
        case["wider_neighbour"] = {"where": wider, "clients": total_clients + rng.choice([1, 2, 5, 13])}
    return case


def service_script(case):
    """Deterministic per (task, client, logical ordinal, wire index) outcome."""
    by_task = {t["name"]: t["svc"] for t in case["tasks"]}

    def script(rec):
        svc = by_task.get(rec["task"])
        if svc is None:
            return simes.Outcome()
        r = _global_random.Random(f"{svc['seed']}:{rec['client']}:{rec['logical']}:{rec['query'].get('i')}:{len([x for x in SCRIPT_ATTEMPTS.get((rec['task'], rec['client'], rec['logical'], rec['query'].get('i')), [])])}")
        SCRIPT_ATTEMPTS.setdefault((rec["task"], rec["client"], rec["logical"], rec["query"].get("i")), []).append(rec["id"])
        base, mode = svc["base"], svc["mode"]
        if mode == "const":
            d = base
        elif mode == "zero":
            d = 0.0
        elif mode == "slow":
            d = base * r.choice([20, 50, 200])
        elif mode == "bursty":
            d = base * (r.choice([30, 60]) if r.random() < 0.2 else 1)
        else:
            d = r.choice([0.0, base, base * 0.3, base * 7, base * 40])
        split = r.choice([0.0, 0.5, 1.0])
        out = simes.Outcome(before_headers=d * split, before_body=d * (1 - split))
        err = svc["err"]
        if err == "http" and r.random() < 0.3:
            out.status = r.choice([400, 404, 409, 500])
            out.body = b'{"error":{"type":"verif_error","reason":"scripted"},"status":%d}' % out.status
        elif err == "retry-status" and r.random() < 0.3:
            out.status = r.choice([429, 502, 503])  # elastic-transport retries these on its own: several wire requests per logical one
            out.body = b'{"error":"busy"}'
        elif err == "timeout" and r.random() < 0.25:
            out.fail = "timeout"
        return out

    return script


SCRIPT_ATTEMPTS = {}


def build_track(case):
    tobjs = []
    for t in case["tasks"]:
        params = {"requests": t["requests"]}
        if "finite" in t:
            params["finite"] = t["finite"]
        op = track.Operation(f"op-{t['name']}", t.get("op_type", "verif-op"), params=params, param_source="verif-source")
        tp = {}
        if "target_throughput" in t:
            tp["target-throughput"] = t["target_throughput"]
        if "target_interval" in t:
            tp["target-interval"] = t["target_interval"]
        tobjs.append(
            track.Task(
                t["name"], op,
                warmup_iterations=t.get("warmup_iterations"), iterations=t.get("iterations"),
                warmup_time_period=t.get("warmup_time_period"), time_period=t.get("time_period"),
                ramp_up_time_period=t.get("ramp_up_time_period"), clients=t["clients"], schedule=t.get("schedule"), params=tp,
                completes_parent=bool(t.get("completes_parent")),
            )
        )
    element = tobjs[0] if len(tobjs) == 1 else track.Parallel(tobjs)
    schedule = [element]
    wn = case.get("wider_neighbour")
    if wn:
        other = track.Task("wider-neighbour", track.Operation("op-wider-neighbour", "verif-op", params={"requests": [[{"wire": 1}]]}, param_source="verif-source"), iterations=1, clients=wn["clients"])
        schedule = [other, element] if wn["where"] == "before" else [element, other]
    trk = track.Track("verif", challenges=[track.Challenge("c", default=True, schedule=schedule)])
    # the allocations are the ones rally's real Allocator produces for this schedule element (client id = row of the matrix), so that what
    # the executor is told about its position among the clients of the element (ramp-up, pacing, partitioning) is rally's, not the harness's
    allocs = []
    for client_id, row in enumerate(driver.Allocator(schedule).allocations):
        for ta in row:
            if isinstance(ta, driver.TaskAllocation) and any(ta.task is t for t in tobjs):
                allocs.append((client_id, ta))
    return trk, tobjs, allocs


def run_case(case, scratch):
    """Executes the case; returns the harness (with .rec, .sim.log, .clock) and the exception the adapter raised (or None)."""
    SCRIPT_ATTEMPTS.clear()
    COMPLETING.reset()
    _global_random.seed(case["poisson_seed"])  # PoissonScheduler draws from the global generator
    h = execharness.Harness(scratch, service_script(case), pc_offset=case["pc_offset"])
    try:
        ensure_registered(execharness.make_cfg(h.static_file))
        trk, tobjs, allocs = build_track(case)
        sampler, exc = h.run(trk, allocs, on_error="continue")
    finally:
        h.close()
    return h, exc, tobjs


def features(case):
    f = set()
    if case.get("wider_neighbour"):
        f.add("wider-neighbour-" + case["wider_neighbour"]["where"])
    if any(t.get("completes_parent") for t in case["tasks"]):
        f.add("completing-task-with-several-clients")
    for t in case["tasks"]:
        f.add("mode-" + t["mode"])
        f.add("throttled" if ("target_throughput" in t or "target_interval" in t) else "unthrottled")
        f.add("svc-" + t["svc"]["mode"])
        if t["svc"]["err"] != "none":
            f.add("err-" + t["svc"]["err"])
        if t.get("op_type") == "verif-op-completing":
            f.add("completion-aware-runner-with-iterations")
        if t.get("ramp_up_time_period"):
            f.add("ramp-up")
        if t.get("schedule") == "poisson" and ("target_throughput" in t or "target_interval" in t):
            f.add("poisson")
        if any("pre" in r or "post" in r for c in t["requests"] for r in c):
            f.add("client-overhead")
        if any(r.get("wire", 1) > 1 for c in t["requests"] for r in c):
            f.add("multi-wire")
    if len(case["tasks"]) > 1:
        f.add("parallel")
    if case["pc_offset"]:
        f.add("clock-offset")
    return f


def canon(case):
    return case
