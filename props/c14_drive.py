"""C14: the one place where the real preparation code is invoked (shard process and crashed-earlier-run child alike).

Only two things are substituted: the retry pause of net.download_http (a keyword default, see DESIGN 7.1) and the console
output (quiet). Loader, downloader, decompressor, urllib3, the external decompressors and the file system are real.
"""
import logging

import urllib3
import os

from esrally import config
from esrally.driver import driver
from esrally.track import loader, track
from esrally.utils import console, net


class DuckTypedSource:
    """A class-based custom parameter source as a track plugin registers it."""

    def __init__(self, track, params, **kwargs):
        self.corpora = [c for c in track.corpora if c.name == params["corpus"]]
        self.infinite = False

    def partition(self, partition_index, total_partitions):
        return self

    def params(self):
        raise StopIteration()


class HangDetected(BaseException):
    """Raised by the substituted sleep when the code under test pauses more often than any retry budget allows."""


class SleepCounter:
    def __init__(self, limit=64):
        self.calls = 0
        self.limit = limit

    def __call__(self, seconds):
        self.calls += 1
        if self.calls > self.limit:
            raise HangDetected(f"download paused {self.calls} times for a retry")


class LogTap(logging.Handler):
    """Remembers which code paths announced themselves (library fallback of the external decompressor, retries)."""

    LOOP_LIMIT = 40

    def __init__(self):
        super().__init__(level=logging.DEBUG)
        self.marks = set()
        self.steps = 0

    def emit(self, record):
        try:
            msg = record.getMessage()
        except Exception:  # pylint: disable=broad-except
            return
        if msg.startswith("Decompressing track data") or msg.startswith("Downloading data from"):
            # the state loop of prepare_document_set announces every step; no preparation needs more than a handful
            self.steps += 1
            if self.steps > self.LOOP_LIMIT:
                raise HangDetected(f"preparation started its {self.steps}th download/decompression step")
        if "Falling back to standard library" in msg:
            self.marks.add("external-decompressor-failed-library-fallback")
        elif "Using standard library" in msg:
            self.marks.add("library-decompression")
        elif msg.startswith("Retrying after"):
            self.marks.add("download-retry-logged")


SLEEP = SleepCounter()
READ_TIMEOUT = 0.25
TAP = LogTap()
_installed = False


def install():
    global _installed
    if _installed:
        return
    _installed = True
    console.init(quiet=True)
    root = logging.getLogger("esrally")
    root.addHandler(TAP)
    root.setLevel(logging.DEBUG)
    root.propagate = False
    net.download_http.__kwdefaults__["sleep"] = SLEEP
    # the read timeout of a download (240 s in net.py) is the second constant that is substituted: a server that stalls in the middle of the
    # body is part of the fault alphabet and must not cost four minutes per attempt
    orig_request = net._request

    def _request(method, url, **kwargs):
        if "timeout" in kwargs:
            kwargs["timeout"] = urllib3.Timeout(connect=45, read=READ_TIMEOUT)
        return orig_request(method, url, **kwargs)

    net._request = _request
    from esrally.track import params as track_params

    track_params.register_param_source_for_name("c14-duck-typed-source", DuckTypedSource)
    for k in ("http_proxy", "https_proxy", "all_proxy", "HTTP_PROXY", "HTTPS_PROXY", "ALL_PROXY"):
        os.environ.pop(k, None)


def make_docset(spec, base_url):
    return track.Documents(
        source_format=track.Documents.SOURCE_FORMAT_BULK,
        document_file=spec["doc_name"],
        document_archive=spec["archive_name"],
        base_url=base_url,
        includes_action_and_meta_data=spec["meta"],
        number_of_documents=spec["n_docs"],
        compressed_size_in_bytes=spec["comp"],
        uncompressed_size_in_bytes=spec["uncomp"],
        target_index=None if spec["meta"] else "idx",
    )


def call(spec, base_url):
    """Runs one preparation. spec: entry, roots, doc_name, archive_name, n_docs, meta, comp, uncomp, offline, test_mode.

    Returns the value of the entry point (None / True / False); exceptions propagate.
    """
    install()
    SLEEP.calls = 0
    TAP.marks.clear()
    TAP.steps = 0
    docset = make_docset(spec, base_url)
    prep = loader.DocumentSetPreparator("c14", loader.Downloader(offline=spec["offline"], test_mode=spec["test_mode"]), loader.Decompressor())
    entry = spec["entry"]
    if entry == "cache":
        return prep.prepare_document_set(docset, spec["roots"][-1])
    if entry == "bundled":
        return prep.prepare_bundled_document_set(docset, spec["roots"][0])
    if entry == "docs":
        # the real dispatch: track directory first (bundled), then the corpus cache
        track_dir, cache_dir = spec["roots"]
        cfg = config.Config()
        cfg.add(config.Scope.application, "benchmarks", "local.dataset.cache", os.path.dirname(cache_dir))
        cfg.add(config.Scope.application, "track", "track.path", track_dir)
        # the corpus itself has three document sets: a small one bundled next to track.json BEFORE the one under test, and a small one that sits
        # complete in the corpus cache AFTER it (docs/track.rst: "documents: a list of documents files")
        body = b'{"decoy": 1}\n{"decoy": 2}\n{"decoy": 3}\n'
        siblings = []
        for name, where in (("c14-first-of-corpus.json", track_dir), ("c14-last-of-corpus.json", cache_dir)):
            with open(os.path.join(where, name), "wb") as f:
                f.write(body)
            siblings.append((os.path.join(where, name), track.Documents(
                source_format=track.Documents.SOURCE_FORMAT_BULK, document_file=name, number_of_documents=3, uncompressed_size_in_bytes=len(body), target_index="idx")))
        sets = {0: [docset], 1: [siblings[0][1], docset, siblings[1][1]], 2: [siblings[0][1], docset], 3: [docset, siblings[1][1]]}[spec.get("position", 0) // 3 % 4]
        corpus = track.DocumentCorpus(os.path.basename(cache_dir), documents=sets)
        # The way a race does it: the track has several corpora, the real DefaultTrackPreparator yields one task per corpus the challenge
        # uses, ALL tasks are collected first (TrackPreparationActor._seed_tasks) and then taken from the end of the list one by one
        # (receiveMsg_ReadyForWork) and run as func(**params) (TaskExecutionActor). The two other corpora are tiny, complete and local.
        decoys = []
        for name in ("c14-decoy-a", "c14-decoy-z"):
            d = os.path.join(os.path.dirname(cache_dir), name)
            os.makedirs(d, exist_ok=True)
            body = b'{"decoy": 1}\n{"decoy": 2}\n{"decoy": 3}\n'
            path = os.path.join(d, "decoy.json")
            if not os.path.exists(path):
                with open(path, "wb") as f:
                    f.write(body)
            decoys.append((path, track.DocumentCorpus(name, documents=[track.Documents(
                source_format=track.Documents.SOURCE_FORMAT_BULK, document_file="decoy.json", number_of_documents=3,
                uncompressed_size_in_bytes=len(body), target_index="idx")])))
        order = {0: [corpus, decoys[0][1], decoys[1][1]], 1: [decoys[0][1], corpus, decoys[1][1]], 2: [decoys[0][1], decoys[1][1], corpus]}[spec.get("position", 0) % 3]
        schedule = [track.Task(f"bulk-{c.name}", track.Operation(f"bulk-{c.name}", "bulk", params={"bulk-size": 10, "corpora": c.name})) for c in order]
        # one of the sibling corpora is used through a parameter source of the track's own that is no subclass of rally's bulk source; it
        # tells which corpora it needs the way rally asks every parameter source of the challenge (loader.used_corpora: a `corpora` attribute)
        for n, c in enumerate(order):
            if c.name == "c14-decoy-z":
                schedule[n] = track.Task("custom-c14-decoy-z", track.Operation("custom-c14-decoy-z", "bulk", params={"corpus": c.name}, param_source="c14-duck-typed-source"))
        t = track.Track(name=os.path.basename(track_dir), corpora=order, challenges=[track.Challenge("c", default=True, schedule=schedule)])
        tp = loader.DefaultTrackPreparator()
        tp.cfg, tp.downloader, tp.decompressor = cfg, prep.downloader, prep.decompressor
        tasks = [driver.WorkerTask(func, params) for func, params in tp.on_prepare_track(t, os.path.dirname(cache_dir))]
        DECOYS_UNPREPARED[:] = []
        try:
            while tasks:
                task = tasks.pop()
                task.func(**task.params)
        finally:
            from esrally.utils import io as rally_io

            DECOYS_UNPREPARED[:] = [c.name for path, c in decoys if not rally_io.FileOffsetTable.create_for_data_file(path).exists()]
            DECOYS_UNPREPARED.extend(f"document set {d.document_file} of the same corpus" for path, d in siblings if d in sets and not rally_io.FileOffsetTable.create_for_data_file(path).exists())
        return None
    raise ValueError(entry)


DECOYS_UNPREPARED = []
