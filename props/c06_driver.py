"""C06, third workload class: the same generated streams, but batched the way a race batches them - by the real Driver coordinator.

The calculator-level class keeps one ThroughputCalculator for the whole stream "exactly as SamplePostprocessor keeps it". Whether the
coordinator really does keep it is decided here: a real driver.Driver (real SamplePostprocessor, recording metrics store, stubbed actor layer)
receives the samples as pickled UpdateSamples payloads (Driver.update_samples), post-processes them on the driver's periodic tick
(Driver.post_process_samples) and at the join point at the end of a step (Driver.joinpoint_reached by every worker). Two generated streams are
run as two consecutive steps of one challenge. What arrives in the store as "throughput" goes through the same exact-Fraction oracle as the
calculator-level class (c06.check_case), batch by batch.
"""
import pickle
import types as pytypes

from esrally import config
from esrally.driver import driver
from esrally.track import track
from esrally.utils import opts

from props import c06


class _Actor:
    def __init__(self):
        self.finished = 0
        self.complete = 0

    def create_client(self, host, cfg, worker_id):
        return ("worker", worker_id)

    def start_worker(self, worker, worker_id, cfg, trk, client_allocations, client_contexts=None):
        pass

    def on_task_finished(self, m, waiting_period):
        self.finished += 1

    def on_benchmark_complete(self, m):
        self.complete += 1

    def drive_at(self, worker, ts):
        pass

    def complete_current_task(self, worker):
        pass


class _Store:
    """Records what the post-processor stores as throughput; everything else a metrics store is asked to do is a no-op."""

    def __init__(self):
        self.throughput = []
        self.others = 0

    def put_value_cluster_level(self, name, value, unit=None, task=None, operation=None, operation_type=None, sample_type=None, absolute_time=None, relative_time=None, meta_data=None):
        if name == "throughput":
            self.throughput.append((task, absolute_time, relative_time, sample_type, value, unit))
        else:
            self.others += 1

    def __getattr__(self, name):
        return lambda *a, **k: None


class _Quiet:
    def __getattr__(self, name):
        return lambda *a, **k: None


_CFG = None


def _cfg():
    global _CFG
    if _CFG is None:
        cfg = config.Config()
        cfg.add(config.Scope.application, "client", "options", opts.ClientOptions("timeout:60"))
        cfg.add(config.Scope.application, "track", "test.mode.enabled", False)
        _CFG = cfg
    return _CFG


def gen_case(rng):
    """Two calculator-level cases = two steps. Returns (tasks, arrival, cuts, meta) of the concatenation plus the index of the batch after which the
    workers reach the join point between the steps."""
    t0, a0, c0, m0 = c06.gen_case(rng)
    t1, a1, c1, m1 = c06.gen_case(rng)
    if len(a0) + len(a1) > 400:
        t1, a1, c1, m1 = t1[:1], [s for s in a1 if s["task"] == 0][:20], [], m1
        c1 = [len(a1) // 2] if len(a1) > 2 else []
    for s in a1:
        s["task"] += len(t0)
    # the second step starts after the first one has ended (one second pause, as Driver.move_to_next_task plans it)
    end0 = max((s["abs"] for s in a0), default=0.0)
    start1 = min((t["t0"] for t in t1), default=0.0)
    shift = max(0.0, end0 + 1.0 - start1)
    if shift:
        for t in t1:
            t["t0"] += shift
        for s in a1:
            s["abs"] += shift
    tasks = t0 + t1
    arrival = a0 + a1
    cuts0 = [c for c in c0 if 0 < c < len(a0)]
    cuts = cuts0 + ([len(a0)] if a0 and a1 else []) + [len(a0) + c for c in c1 if 0 < c < len(a1)]
    step_of_task = [0] * len(t0) + [1] * len(t1)
    feats = set(m0["features"]) | set(m1["features"])
    return tasks, arrival, cuts, {"mode": m0["mode"], "cutmode": m0["cutmode"], "features": feats, "step_of_task": step_of_task, "first_step_samples": len(a0)}


def emit_through_driver(step_of_task, first_step_samples, stats):
    def emit(tobjs, sobjs, arrival, cuts):
        steps = [[t for t, s in zip(tobjs, step_of_task) if s == k] for k in (0, 1)]
        schedule = [track.Parallel(ts) if len(ts) > 1 else ts[0] for ts in steps if ts]
        actor = _Actor()
        d = driver.Driver(actor, _cfg())
        d.quiet = True
        store = _Store()
        d.metrics_store = store
        d.telemetry = _Quiet()
        d.sample_post_processor = driver.SamplePostprocessor(store, 1, {}, {})
        d.challenge = pytypes.SimpleNamespace(schedule=schedule)
        d.load_driver_hosts = [{"host": "localhost", "cores": 4}]
        d.start_benchmark()
        nworkers = len(d.workers)

        def all_reach_join_point():
            for w in range(nworkers):
                d.joinpoint_reached(w, 10.0, [])

        all_reach_join_point()  # the join point before the first step
        emitted = []
        batches = c06.batches_of(list(range(len(sobjs))), cuts)
        fed = 0
        for bi, bs in enumerate(batches):
            before = len(store.throughput)
            # an UpdateSamples message is pickled on its way from the worker to the driver: every batch brings its own copies of the Task objects
            # (and one post-processing batch is made of several such messages: other workers, several wake-ups of one worker)
            nmsg = 1 + (bi + len(bs)) % 3
            for m in range(nmsg):
                part = [sobjs[i] for i in bs[m * len(bs) // nmsg:(m + 1) * len(bs) // nmsg]]
                if part:
                    d.update_samples(pickle.loads(pickle.dumps(part)))
                    stats["messages"] = stats.get("messages", 0) + 1
            fed += len(bs)
            last_of_step = fed == first_step_samples or fed == len(sobjs)
            if last_of_step:
                all_reach_join_point()
                stats["join-batches"] += 1
            else:
                d.post_process_samples()
                stats["tick-batches"] += 1
            out = {}
            for task_name, a, r, st, v, u in store.throughput[before:]:
                ti = next(i for i, t in enumerate(tobjs) if t.name == task_name)
                out.setdefault(ti, []).append((a, r, st, v, u))
            emitted.append(out)
        stats["finished"] = d.finished() if store is not None else None
        stats["complete"] = actor.complete
        return emitted

    return emit


def one_case(ctx, rng, explicit=None):
    tasks, arrival, cuts, meta = explicit or gen_case(rng)
    stats = {"join-batches": 0, "tick-batches": 0}
    feats = set(meta["features"]) | {"class-driver"}
    problems, _ = c06.check_case(ctx, tasks, arrival, cuts, emit=emit_through_driver(meta["step_of_task"], meta["first_step_samples"], stats))
    ctx.clause("driver-keeps-calculator-across-batches")
    if stats["tick-batches"] and stats["join-batches"]:
        feats.add("driver-tick-then-join-point")
    if len(set(meta["step_of_task"])) > 1:
        feats.add("driver-two-steps")
    if stats.get("messages", 0) > stats["tick-batches"] + stats["join-batches"]:
        feats.add("driver-batch-of-several-messages")
    if arrival and stats.get("complete") != 1:
        problems.append(("driver-keeps-calculator-across-batches", f"the driver did not complete the benchmark after the last join point (on_benchmark_complete called {stats.get('complete')} times)", None))
    ctx.case(["driver", [(s["task"], s["client"], round(s["t"], 9), s["ops"], s["type"], s["thr"]) for s in arrival], cuts], len(arrival) >= 3 and len(cuts) >= 1, feats)
    case = {"tasks": tasks, "arrival": arrival, "cuts": cuts, "meta": {**{k: v for k, v in meta.items() if k != "features"}, "features": sorted(feats)}}
    for clause, msg, detail in problems[:3]:
        ctx.violation(clause, {"class": "driver", "case": case, "detail": detail}, "driver class: " + msg)
    return problems
