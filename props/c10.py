"""C10 - a loaded track is exactly what the file says; invalid tracks are rejected.

Monitor (print-then-parse): a generator produces a model of a track (challenges, schedules, tasks, parallel elements with
defaults, operations inline and by reference, indices / data streams / templates, corpora with corpus-level defaults) together
with its print: a track directory that uses Jinja track parameters (`{{ p | default(x) }}`), `{% include %}`,
`rally.collect(parts=...)`, `{% if %}` and index body files. The directory is loaded with the real
TrackFileReader.read / load_track, with the parameters parsed from a `--track-params` string, and every field of the
returned Track is compared with the model (never with Track.__eq__).

Then one documented rule is violated in the rendered track (one mutator per rule, each citing the documentation line) and
the loader must refuse it with TrackSyntaxError / InvalidSyntax / TrackConfigError.

Exhaustive part: OperationType hyphenated-name round trip, and a registered runner for every operation type docs/track.rst lists.
"""
import copy
import json
import logging
import os
import shutil
import tempfile

import esrally
from esrally import config, exceptions
from esrally.track import loader, track
from esrally.utils import opts

from props import c10_model as M

ID = "C10"
LEVEL = "exploration"
EXHAUSTIVE_WHOLE = False
RULE = (
    "seeded generator of track models printed to a track directory (track.json with Jinja parameters, includes, rally.collect parts, "
    "body files) + one single-rule mutation of each; a case is non-trivial when the track has >= 2 tasks and uses a parallel element, "
    "a track parameter, an include/collect part or a corpus; distinct = hash of the printed files, the parameters and the mutation"
)
ASSUMPTIONS = [
    "the expected value of every field is taken from docs/track.rst (defaults: clients 1, delete-matching-indices true, source-format bulk, "
    "a single challenge is the default one, task name = operation name, operation name = operation type when omitted)",
    "'include-in-reporting' added to built-in operation types is a documented default, not a deviation (DESIGN section 5)",
    "absent optional task properties are compared as 'not set' (None); Rally applies their documented defaults later, in the driver",
    "order of challenges collected with a glob (rally.collect) is not a property of the track; they are compared by name",
    "rules mutated are those the property statement names or docs/track.rst / track-schema.json state; other rejections are not demanded",
    "mutations are applied to the rendered (parameter-free) track, except unused / reserved parameters which keep the templated files",
]
FAMILY = (loader.TrackSyntaxError, exceptions.InvalidSyntax, exceptions.TrackConfigError)

RULES = sorted(M.MUTATORS)
REQUIRED_CLAUSES = [
    "valid-loads", "track-elements", "corpora", "corpus-defaults", "challenges", "schedule-order", "task-fields", "parallel-inheritance",
    "completed-by", "throughput-target", "operations", "param-substitution", "invalid-rejected", "rejection-family",
    "optype-roundtrip", "optype-runner",
]
REQUIRED_FEATURES = {
    "quick": dict(
        {"rule:" + r: 10 for r in RULES},
        **{
            "param-supplied": 50, "param-default": 50, "parallel-default-inherited": 50, "parallel-default-overridden": 20,
            "completed-by-name": 20, "completed-by-any": 20, "include-challenge": 20, "include-task": 20, "collect-challenges": 20,
            "collect-operations": 20, "nested-collect": 10, "param-in-imported-macro": 10, "two-collects-on-one-line": 5, "tar-archive-source-file": 20, "param-value-with-markup-characters": 10, "op-by-reference": 50, "op-type-string": 50, "corpus-level-defaults": 50, "index-body-file": 50,
            "multiple-challenges": 50, "top-level-schedule": 50, "via-load_track": 50, "params-as-kv": 20, "params-as-json": 20,
            "parallel-ramp-up": 10, "conditional-task-off": 5, "conditional-task-on": 5, "param-only-in-collect-part": 5,
            "param-only-in-body-file": 5, "same-task-name-in-two-challenges": 20, "single-challenge-default-false": 10,
            "exists_set_param-supplied": 5, "exists_set_param-absent": 5, "exists_set_param-default": 2, "set-variable": 20,
            "parallel-clients": 50, "target-throughput": 50, "target-interval": 50, "tags": 50, "data-streams": 20,
        },
    ),
}
REQUIRED_FEATURES["thorough"] = {k: v * 3 for k, v in REQUIRED_FEATURES["quick"].items()}
BUDGET = {
    "quick": {"cases": 24000, "seconds": 32},
    "thorough": {"cases": 400000, "seconds": 420},
}

_SCHEMA = None


def schema():
    global _SCHEMA
    if _SCHEMA is None:
        with open(os.path.join(os.path.dirname(esrally.__file__), "resources", "track-schema.json"), encoding="utf-8") as f:
            _SCHEMA = json.load(f)
    return _SCHEMA


# --------------------------------------------------------------------------- running the real loader

def write_files(root, files):
    if os.path.isdir(root):
        shutil.rmtree(root)
    for rel, text in files.items():
        p = os.path.join(root, rel)
        os.makedirs(os.path.dirname(p), exist_ok=True)
        with open(p, "w", encoding="utf-8") as f:
            f.write(text)


def real_load(root, cli, selected, via):
    """Returns ("ok", Track) or ("err", exception). cli is the text given to --track-params."""
    cfg = config.Config()
    cfg.add(config.Scope.application, "node", "rally.root", os.path.dirname(esrally.__file__))
    cfg.add(config.Scope.application, "system", "offline.mode", True)
    try:
        # exactly what rally.configure_track_params does with the command line
        cfg.add(config.Scope.applicationOverride, "track", "params", opts.to_dict(cli))
        cfg.add(config.Scope.applicationOverride, "track", "challenge.name", selected)
        if via == "load_track":
            cfg.add(config.Scope.applicationOverride, "track", "track.path", root)
            return "ok", loader.load_track(cfg)
        reader = loader.TrackFileReader(cfg)
        return "ok", reader.read(os.path.basename(root), os.path.join(root, "track.json"), root)
    except Exception as e:  # the monitor decides what the exception means
        return "err", e


# --------------------------------------------------------------------------- comparator

class Cmp:
    def __init__(self, ctx):
        self.ctx = ctx
        self.diffs = []  # (clause, path, expected, actual)

    def eq(self, clause, path, expected, actual):
        """Deep comparison; PV leaves are attributed to 'param-substitution'."""
        if isinstance(expected, M.PV):
            self.ctx.clause("param-substitution")
            if not same(expected.v, actual):
                self.diffs.append(("param-substitution", path, expected.v, actual, {"param": expected.name}))
            return
        if isinstance(expected, dict) and isinstance(actual, dict) and _has_pv(expected):
            self.ctx.clause(clause)
            if set(expected) != set(actual):
                self.diffs.append((clause, path + ".<keys>", sorted(expected), sorted(actual), None))
                return
            for k in expected:
                self.eq(clause, f"{path}[{k!r}]", expected[k], actual[k])
            return
        self.ctx.clause(clause)
        if _empty(expected):
            # nothing written in the file (the generator never writes empty containers / strings): how "nothing" is represented
            # (None, "", {}, []) is not part of the statement; 0 and False are values, not "nothing"
            ok = _empty(actual)
        else:
            ok = same(expected, actual)
        if not ok:
            self.diffs.append((clause, path, M.exp_json(expected), actual, None))


def _empty(x):
    return x is None or (isinstance(x, (str, dict, list, tuple)) and len(x) == 0)


def _has_pv(x):
    if isinstance(x, M.PV):
        return True
    if isinstance(x, dict):
        return any(_has_pv(v) for v in x.values())
    if isinstance(x, list):
        return any(_has_pv(v) for v in x)
    return False


def same(e, a):
    """Equality that keeps JSON types apart (1 != True, 1 == 1.0 only for numbers)."""
    e = M.unwrap(e)
    if isinstance(e, bool) or isinstance(a, bool):
        return isinstance(e, bool) and isinstance(a, bool) and e == a
    if isinstance(e, dict):
        return isinstance(a, dict) and set(e) == set(a) and all(same(e[k], a[k]) for k in e)
    if isinstance(e, (list, tuple)):
        return isinstance(a, (list, tuple)) and len(e) == len(a) and all(same(x, y) for x, y in zip(e, a))
    return e == a


def params_without_default(written, actual):
    """Loaded params must be the written keys; 'include-in-reporting' may be added as a boolean (documented default)."""
    a = dict(actual)
    if "include-in-reporting" not in written and isinstance(a.get("include-in-reporting"), bool):
        del a["include-in-reporting"]
    return a


def compare_op(c, path, e, op):
    c.eq("operations", path + ".name", e["name"], op.name)
    c.eq("operations", path + ".type", e["type"], op.type)
    c.eq("operations", path + ".param_source", e["param_source"], op.param_source)
    c.eq("operations", path + ".meta_data", e["meta"], op.meta_data)
    c.eq("operations", path + ".params", e["params"], params_without_default(e["params"], op.params))


def compare_task(c, path, e, t):
    if not isinstance(t, track.Task):
        c.ctx.clause("schedule-order")
        c.diffs.append(("schedule-order", path, "task " + e["name"], type(t).__name__, None))
        return
    c.eq("task-fields", path + ".name", e["name"], t.name)
    inh = set(e.get("inherited", []))
    for key, attr, short in (
        ("warmup-iterations", "warmup_iterations", "wi"), ("iterations", "iterations", "it"), ("warmup-time-period", "warmup_time_period", "wtp"),
        ("time-period", "time_period", "tp"), ("ramp-up-time-period", "ramp_up_time_period", "rup"),
    ):
        c.eq("parallel-inheritance" if key in inh else "task-fields", f"{path}.{attr}", e[short], getattr(t, attr))
    c.eq("task-fields", path + ".clients", e["clients"], t.clients)
    c.eq("task-fields", path + ".tags", e["tags"], t.tags)
    c.eq("task-fields", path + ".meta_data", e["meta"], t.meta_data)
    c.eq("task-fields", path + ".schedule", e["schedule"], t.schedule)
    got = {k: v for k, v in t.params.items() if k != "operation"}
    c.eq("task-fields", path + ".params", e["params"], got)
    c.eq("completed-by", path + ".completes_parent", e["completes_parent"], t.completes_parent)
    c.eq("completed-by", path + ".any_completes_parent", e["any_completes_parent"], t.any_completes_parent)
    c.ctx.clause("throughput-target")
    try:
        thr = t.target_throughput
        thr = None if thr is None else [thr.value, thr.unit]
    except Exception as ex:
        thr = f"{type(ex).__name__}: {ex}"
    if not (thr == e["throughput"] or (isinstance(thr, list) and e["throughput"] and abs(thr[0] - e["throughput"][0]) < 1e-12 and thr[1] == e["throughput"][1])):
        c.diffs.append(("throughput-target", path + ".target_throughput", e["throughput"], thr, None))
    compare_op(c, path + ".operation", e["op"], t.operation)


def compare_track(ctx, exp, t, name):
    """Returns list of differences (clause, path, expected, actual, extra)."""
    c = Cmp(ctx)
    c.eq("track-elements", "name", name, t.name)
    c.eq("track-elements", "description", exp["description"], t.description)
    c.eq("track-elements", "meta_data", exp["meta"], t.meta_data)
    c.eq("track-elements", "dependencies", exp["dependencies"], t.dependencies)
    c.eq("track-elements", "len(indices)", len(exp["indices"]), len(t.indices))
    for i, (e, x) in enumerate(zip(exp["indices"], t.indices)):
        c.eq("track-elements", f"indices[{i}].name", e["name"], x.name)
        c.eq("track-elements", f"indices[{i}].body", e["body"], x.body)
        c.eq("track-elements", f"indices[{i}].types", e["types"], x.types)
    c.eq("track-elements", "data_streams", exp["data_streams"], [d.name for d in t.data_streams])
    for key, attr in (("templates", "templates"), ("composable", "composable_templates")):
        c.eq("track-elements", f"len({attr})", len(exp[key]), len(getattr(t, attr)))
        for i, (e, x) in enumerate(zip(exp[key], getattr(t, attr))):
            c.eq("track-elements", f"{attr}[{i}].name", e["name"], x.name)
            c.eq("track-elements", f"{attr}[{i}].pattern", e["pattern"], x.pattern)
            c.eq("track-elements", f"{attr}[{i}].delete_matching_indices", e["delete"], x.delete_matching_indices)
            c.eq("track-elements", f"{attr}[{i}].content", e["content"], x.content)
    c.eq("track-elements", "len(component_templates)", len(exp["component"]), len(t.component_templates))
    for i, (e, x) in enumerate(zip(exp["component"], t.component_templates)):
        c.eq("track-elements", f"component_templates[{i}].name", e["name"], x.name)
        c.eq("track-elements", f"component_templates[{i}].content", e["content"], x.content)
    # corpora
    c.eq("corpora", "corpora names", [e["name"] for e in exp["corpora"]], [x.name for x in t.corpora])
    for i, (e, x) in enumerate(zip(exp["corpora"], t.corpora)):
        c.eq("corpora", f"corpora[{i}].meta_data", e["meta"], x.meta_data)
        c.eq("corpora", f"corpora[{i}].len(documents)", len(e["documents"]), len(x.documents))
        for j, (de, d) in enumerate(zip(e["documents"], x.documents)):
            p = f"corpora[{i}].documents[{j}]"
            inh = set(de["inherited"])
            derived = "derived-from-sole-index-or-data-stream" in inh

            def cl(k, is_target=False):
                return "corpus-defaults" if k in inh or (is_target and derived) else "corpora"

            c.eq(cl("source-format"), p + ".source_format", de["source_format"], d.source_format)
            c.eq(cl("base-url"), p + ".base_url", de["base_url"], d.base_url)
            c.eq(cl("includes-action-and-meta-data"), p + ".includes_action_and_meta_data", de["iam"], d.includes_action_and_meta_data)
            c.eq(cl("target-index", True), p + ".target_index", de["target_index"], d.target_index)
            c.eq(cl("target-type", True), p + ".target_type", de["target_type"], d.target_type)
            c.eq(cl("target-data-stream", True), p + ".target_data_stream", de["target_data_stream"], d.target_data_stream)
            c.eq("corpora", p + ".document_file", de["file"], d.document_file)
            c.eq("corpora", p + ".document_archive", de["archive"], d.document_archive)
            c.eq("corpora", p + ".number_of_documents", de["count"], d.number_of_documents)
            c.eq("corpora", p + ".compressed_size_in_bytes", de["compressed"], d.compressed_size_in_bytes)
            c.eq("corpora", p + ".uncompressed_size_in_bytes", de["uncompressed"], d.uncompressed_size_in_bytes)
            c.eq("corpora", p + ".meta_data", de["meta"], d.meta_data)
    # challenges
    c.eq("challenges", "len(challenges)", len(exp["challenges"]), len(t.challenges))
    if len(exp["challenges"]) != len(t.challenges):
        return c.diffs
    got = list(t.challenges)
    if exp.get("unordered_challenges"):
        by = {x.name: x for x in got}
        c.eq("challenges", "challenge names (any order)", sorted(e["name"] for e in exp["challenges"]), sorted(by))
        if c.diffs:
            return c.diffs
        got = [by[e["name"]] for e in exp["challenges"]]
    defaults = [x for x in t.challenges if x.default]
    c.eq("challenges", "number of default challenges", 1, len(defaults))
    for i, (e, ch) in enumerate(zip(exp["challenges"], got)):
        p = f"challenges[{i}]"
        if e["name"] is not None:
            c.eq("challenges", p + ".name", e["name"], ch.name)
        c.eq("challenges", p + ".description", e["description"], ch.description)
        c.eq("challenges", p + ".user_info", e["user_info"], ch.user_info)
        c.eq("challenges", p + ".default", e["default"], bool(ch.default))
        c.eq("challenges", p + ".selected", e["selected"], bool(ch.selected))
        c.eq("challenges", p + ".meta_data", e["meta"], ch.meta_data)
        sched_e = [s for s in e["schedule"] if s is not None]  # None = a conditional item that is switched off
        shape_e = [(s["kind"], [x["name"] for x in s["tasks"]] if s["kind"] == "parallel" else s["name"]) for s in sched_e]
        shape_a = [("parallel", [x.name for x in s.tasks]) if isinstance(s, track.Parallel) else ("task", getattr(s, "name", None)) for s in ch.schedule]
        c.eq("schedule-order", p + ".schedule (kinds and task names in order)", [list(x) for x in shape_e], [list(x) for x in shape_a])
        if shape_e != shape_a:
            continue
        for j, (se, s) in enumerate(zip(sched_e, ch.schedule)):
            sp = f"{p}.schedule[{j}]"
            if se["kind"] == "parallel":
                want = se["clients"] if se["clients"] is not None else sum(M.unwrap(x["clients"]) for x in se["tasks"])
                c.eq("parallel-inheritance", sp + ".clients", want, s.clients)
                for k, (te, tt) in enumerate(zip(se["tasks"], s.tasks)):
                    compare_task(c, f"{sp}.tasks[{k}]", te, tt)
            else:
                compare_task(c, sp, se, s)
    want_default = [e["name"] for e in exp["challenges"] if e["default"]][0]
    if want_default is not None:
        c.eq("challenges", "default_challenge.name", want_default, getattr(t.default_challenge, "name", None))
    return c.diffs


# --------------------------------------------------------------------------- one case

def corpus_target_default_without_section(js):
    for c in js.get("corpora", []):
        if ("target-index" in c or "target-type" in c) and "indices" not in js:
            return True
        if "target-data-stream" in c and "data-streams" not in js:
            return True
    return False


def render_state(st):
    """state (model + how to print it) -> case (the files, the command line, the expectation)."""
    feats = set()
    lspec, use_import, unordered = M.apply_layout(st["layout_seed"], st["spec"], feats, st["level"], st.get("needs_import", False))
    exp = dict(st["exp"])
    exp["unordered_challenges"] = unordered
    files, refs = M.print_track(lspec, st["sets"], use_import, st["bodies"])
    user = st["user"]
    if not user:
        cli = ""
    elif st["cli_mode"] == "kv" and _kv_ok(user):
        cli = ",".join(f"{k}:{_kv(v)}" for k, v in user.items())
    else:
        cli = json.dumps(user)
    case = {
        "files": files, "cli": cli, "selected": st["selected"], "expect": exp, "refs": refs, "user": user, "via": st["via"],
        "diag": {
            "corpus_target_default_without_section": corpus_target_default_without_section(M.plain(st["spec"])),
            # supplied parameters that are referenced only in files which Jinja itself pulls in ({% include %}, or the parts of
            # the collect *macro*): Rally's scan of the assembled source does not see those references
            "supplied_unscanned": {n: refs[n] for n in user if n in refs and set(refs[n]) <= {"jinja-include", "macro-part"}},
        },
    }
    return case, feats


def gen_state(rng, tier, doc_types, want):
    g = M.Gen(rng, "small" if tier == "quick" or rng.random() < 0.7 else "large", want)
    spec, exp, bodies, selected = g.track(doc_types)
    st = {
        "spec": spec, "exp": exp, "bodies": bodies, "sets": g.sets, "selected": selected,
        "user": {n: d["eff"] for n, d in g.params.items() if d["supplied"]},
        "layout_seed": rng.getrandbits(32), "level": rng.choice([0, 1, 1, 1]), "cli_mode": rng.choice(["kv", "json"]),
        "via": "load_track" if rng.random() < 0.2 else "TrackFileReader.read", "needs_import": g.needs_import,
    }
    return st, g


def _all_task_names(ech):
    for s in ech["schedule"]:
        if s is None:
            continue
        if s["kind"] == "parallel":
            for x in s["tasks"]:
                yield x["name"]
        else:
            yield s["name"]


def brief(files, limit=4000):
    """What goes into a witness: the files (the exact input); long ones are cut (and then cannot be replayed)."""
    total = sum(len(v) for v in files.values())
    if total > limit:
        files = {k: (v if len(v) <= 700 else v[:700] + f"... [{len(v)} chars]") for k, v in files.items()}
    return files


def check_valid(ctx, case, root, count=True):
    """Loads a valid case and compares. Returns (status, problems) with problems = [(clause, msg, detail)]."""
    write_files(root, case["files"])
    st, res = real_load(root, case["cli"], case["selected"], case["via"])
    if count:
        ctx.clause("valid-loads")
    if st == "err":
        return "rejected", [("valid-loads", f"valid track rejected with {type(res).__name__}: {str(res)[:300]}", {"exception": type(res).__name__, "message": str(res)[:400]})]
    diffs = compare_track(ctx, case["expect"], res, os.path.basename(root))
    probs = []
    for clause, path, e, a, extra in diffs:
        a = vjson(a)
        probs.append((clause, f"{path}: file says {json.dumps(M.exp_json(e), default=repr)[:200]} but loaded track has {json.dumps(a, default=repr)[:200]}", {"path": path, "expected": M.exp_json(e), "actual": a, "extra": extra}))
    return "loaded", probs


def vjson(a):
    try:
        json.dumps(a)
        return a
    except TypeError:
        return repr(a)[:300]


def check_invalid(ctx, files, cli, selected, via, root, desc):
    write_files(root, files)
    st, res = real_load(root, cli, selected, via)
    ctx.clause("invalid-rejected")
    if st == "ok":
        return [("invalid-rejected", f"track violating rule '{desc['rule']}' ({json.dumps(desc, default=repr)[:200]}) was loaded instead of being rejected", None)]
    ctx.clause("rejection-family")
    # docs/track.rst l.165: an unsupported "version" makes Rally "raise an error": there any Rally error is what the docs promise
    family = FAMILY + ((exceptions.RallyError,) if desc.get("path") == ["version"] else ())
    if not isinstance(res, family):
        return [("rejection-family", f"rule '{desc['rule']}' ({json.dumps(desc, default=repr)[:160]}) rejected with {type(res).__name__} ({str(res)[:160]}), not a track syntax / configuration error", {"exception": type(res).__name__, "message": str(res)[:300]})]
    ctx.distinct("rejections", (desc["rule"], type(res).__name__))
    return []


class NullCtx:
    def clause(self, *a, **k):
        pass

    def distinct(self, *a, **k):
        pass


NULL = NullCtx()
_SEEN = {}


def signature(clause, msg, detail, witness_extra):
    """What must stay the same while a witness is made smaller: clause, classifier key, field / exception type."""
    w = dict(witness_extra, detail=detail)
    key = classify({"clause": clause, "witness": w, "msg": msg})
    d = detail or {}
    return (clause, key, d.get("path", "").rsplit(".", 1)[-1].split("[")[0], d.get("exception"))


# ---- making a failing valid case smaller: remove parts of model and expectation in lockstep

def _subst(node, name, memo=None):
    """Turns parameter `name` into its literal value, in a spec tree or an expectation tree. Dicts that are shared (the
    expectation of an operation referenced by several tasks) stay shared."""
    memo = {} if memo is None else memo
    if isinstance(node, M.P):
        return node.eff if node.name == name else node
    if isinstance(node, M.PV):
        return node.v if node.name == name else node
    if isinstance(node, M.Cond):
        if node.flag.name == name:
            return _subst(node.node, name, memo) if node.flag.eff else None
        return M.Cond(node.flag, _subst(node.node, name, memo))
    if isinstance(node, dict):
        if id(node) in memo:
            return memo[id(node)]
        out = memo[id(node)] = {}
        for k, v in node.items():
            if isinstance(v, M.ESP):
                if v.p.name != name:
                    out[k] = v
                elif v.present():
                    out[k] = v.value()
            else:
                out[k] = _subst(v, name, memo)
        return out
    if isinstance(node, list):
        return [_subst(v, name, memo) for v in node]
    return node


def _names_in(node, acc):
    if isinstance(node, M.P):
        acc.add(node.name)
    elif isinstance(node, M.ESP):
        acc.add(node.p.name)
    elif isinstance(node, M.Cond):
        acc.add(node.flag.name)
        _names_in(node.node, acc)
    elif isinstance(node, dict):
        for v in node.values():
            _names_in(v, acc)
    elif isinstance(node, list):
        for v in node:
            _names_in(v, acc)
    return acc


def _sched_pairs(st):
    """[(spec schedule list, expectation schedule list)] of every challenge."""
    spec, exp = st["spec"], st["exp"]
    if "challenges" in spec:
        return [(c["schedule"], e["schedule"]) for c, e in zip(spec["challenges"], exp["challenges"])]
    if "challenge" in spec:
        return [(spec["challenge"]["schedule"], exp["challenges"][0]["schedule"])]
    return [(spec["schedule"], exp["challenges"][0]["schedule"])]


def reductions_valid(st):
    """Yields smaller states (deep copies). Every reduction keeps the model valid and the expectation right by construction."""
    def cp():
        return copy.deepcopy(st)

    if st["level"] != 0:
        n = cp()
        n["level"] = 0
        yield n
    if st["via"] == "load_track":
        n = cp()
        n["via"] = "TrackFileReader.read"
        yield n
    # parameters -> literals
    for name in sorted(_names_in([st["spec"], st["bodies"]], set())):
        n = cp()
        n["spec"] = _prune(_subst(n["spec"], name))
        n["bodies"] = _subst(n["bodies"], name)
        n["exp"] = _subst(n["exp"], name)
        n["user"].pop(name, None)
        n["sets"] = [x for x in n["sets"] if x[0] != name]
        yield n
    # drop whole optional sections
    for key, ekey, files in (("templates", "templates", ["tpl.json"]), ("composable-templates", "composable", ["composable.json"]), ("component-templates", "component", ["component.json"])):
        if key in st["spec"] and not (key == "component-templates" and "composable-templates" in st["spec"]):
            n = cp()
            del n["spec"][key]
            n["exp"][ekey] = []
            for f in files:
                n["bodies"].pop(f, None)
            yield n
    for key, dflt in (("description", ""), ("meta", {}), ("dependencies", [])):
        if key in st["spec"]:
            n = cp()
            del n["spec"][key]
            n["exp"][key] = copy.deepcopy(dflt)
            yield n
    for i in range(len(st["spec"].get("corpora", []))):
        n = cp()
        del n["spec"]["corpora"][i]
        del n["exp"]["corpora"][i]
        if not n["spec"]["corpora"]:
            del n["spec"]["corpora"]
        yield n
        for j in range(len(st["spec"]["corpora"][i]["documents"])):
            if len(st["spec"]["corpora"][i]["documents"]) > 1:
                n = cp()
                del n["spec"]["corpora"][i]["documents"][j]
                del n["exp"]["corpora"][i]["documents"][j]
                yield n
    chs = st["spec"].get("challenges", [])
    if len(chs) >= 3:
        for i, e in enumerate(st["exp"]["challenges"]):
            if not e["default"] and not e["selected"]:
                n = cp()
                del n["spec"]["challenges"][i]
                del n["exp"]["challenges"][i]
                yield n
    for ci, (ss, es) in enumerate(_sched_pairs(st)):
        for j in range(len(ss)):
            last_is_cond_guard = j == len(ss) - 1 and len(ss) >= 2 and isinstance(ss[-2], M.Cond)
            if len([x for x in es if x is not None]) - (1 if es[j] is not None else 0) >= 1 and not last_is_cond_guard:
                n = cp()
                ns, ne = _sched_pairs(n)[ci]
                del ns[j]
                del ne[j]
                yield n
            it = ss[j].node if isinstance(ss[j], M.Cond) else ss[j]
            if isinstance(it, dict) and "parallel" in it and es[j] is not None and len(it["parallel"]["tasks"]) > 1:
                for k, te in enumerate(es[j]["tasks"]):
                    if te["completes_parent"]:
                        continue
                    n = cp()
                    ns, ne = _sched_pairs(n)[ci]
                    nit = ns[j].node if isinstance(ns[j], M.Cond) else ns[j]
                    del nit["parallel"]["tasks"][k]
                    del ne[j]["tasks"][k]
                    yield n
    # two challenges -> the default one alone (a single challenge is default and selected by definition)
    if len(chs) == 2:
        for i, e in enumerate(st["exp"]["challenges"]):
            if not e["default"]:
                n = cp()
                del n["spec"]["challenges"][i]
                del n["exp"]["challenges"][i]
                n["exp"]["challenges"][0]["selected"] = True
                n["selected"] = None
                yield n
    # indices matter only to corpora
    if "corpora" not in st["spec"]:
        for key, ekey in (("indices", "indices"), ("data-streams", "data_streams")):
            if key in st["spec"]:
                n = cp()
                for ix in n["spec"][key]:
                    n["bodies"].pop(ix.get("body"), None)
                del n["spec"][key]
                n["exp"][ekey] = []
                yield n
    # optional task properties and operation parameters
    RESET = {"meta": ("meta", {}), "tags": ("tags", []), "schedule": ("schedule", None), "target-throughput": ("throughput", None),
             "target-interval": ("throughput", None), "clients": ("clients", 1), "my-sched-param": None, "ignore-response-error-level": None,
             "run-on-serverless": None}
    for ci, (ss, es) in enumerate(_sched_pairs(st)):
        for j in range(len(ss)):
            if es[j] is None or isinstance(ss[j], M.Cond):
                continue
            leaves = [(k, t, es[j]["tasks"][k]) for k, t in enumerate(ss[j]["parallel"]["tasks"])] if "parallel" in ss[j] else [(None, ss[j], es[j])]
            for k, t, te in leaves:
                def target(n):
                    ns, ne = _sched_pairs(n)[ci]
                    return (ns[j]["parallel"]["tasks"][k], ne[j]["tasks"][k]) if k is not None else (ns[j], ne[j])
                for key, reset in RESET.items():
                    if key in t and not (key == "schedule" and "my-sched-param" in t):
                        n = cp()
                        nt, nte = target(n)
                        del nt[key]
                        nte["params"].pop(key, None)
                        if reset:
                            nte[reset[0]] = copy.deepcopy(reset[1])
                        yield n
                if isinstance(t["operation"], dict):
                    for key in list(t["operation"]):
                        if key not in ("name", "operation-type"):
                            n = cp()
                            nt, nte = target(n)
                            del nt["operation"][key]
                            nte["op"]["params"].pop(key, None)
                            if key == "meta":
                                nte["op"]["meta"] = {}
                            if key == "param-source":
                                nte["op"]["param_source"] = None
                            yield n
    for i, o in enumerate(st["spec"].get("operations", [])):
        for key in list(o):
            if key not in ("name", "operation-type"):
                n = cp()
                del n["spec"]["operations"][i][key]
                eo = n["exp"]["operations"][M.plain(o)["name"]]
                eo["params"].pop(key, None)
                if key == "meta":
                    eo["meta"] = {}
                if key == "param-source":
                    eo["param_source"] = None
                yield n
    # operations nobody refers to
    if "operations" in st["spec"]:
        used = set()
        for ss, _ in _sched_pairs(st):
            for it in M.plain(ss):
                for t in (it["parallel"]["tasks"] if "parallel" in it else [it]):
                    if isinstance(t["operation"], str):
                        used.add(t["operation"])
        # Cond-off tasks may refer to operations as well; they are not rendered, so they do not count
        for i, o in enumerate(st["spec"]["operations"]):
            if M.plain(o)["name"] not in used:
                n = cp()
                del n["spec"]["operations"][i]
                if not n["spec"]["operations"]:
                    del n["spec"]["operations"]
                yield n


def _prune(node):
    """Removes list items that _subst turned into None (a conditional item that was off)."""
    if isinstance(node, dict):
        return {k: _prune(v) for k, v in node.items()}
    if isinstance(node, list):
        return [_prune(v) for v in node if v is not None]
    if isinstance(node, M.Cond):
        return M.Cond(node.flag, _prune(node.node))
    return node


def shrink_valid(st, sig, root, budget=140):
    """Greedy: accept a reduction when the same clause / classifier key / field still fails."""
    runs = 0
    changed = True
    while changed and runs < budget:
        changed = False
        for cand in reductions_valid(st):
            if runs >= budget:
                break
            try:
                _fix_placeholders(cand)
                case, _ = render_state(cand)
                runs += 1
                status, probs = check_valid(NULL, case, root, count=False)
            except Exception:
                continue
            if any(signature(c, m, d, {"diag": case["diag"]}) == sig for c, m, d in probs):
                st, changed = cand, True
                break
    return st


def _fix_placeholders(st):
    """After a conditional-off parameter was turned into a literal the item is gone from the spec; drop its None placeholder."""
    for ss, es in _sched_pairs(st):
        if len(ss) != len(es):
            # only None placeholders can be in excess
            keep = []
            si = 0
            for e in es:
                if e is None and (si >= len(ss) or not (isinstance(ss[si], M.Cond) and not ss[si].flag.eff)):
                    continue
                keep.append(e)
                si += 1
            es[:] = keep
        assert len(ss) == len(es)


# ---- making a failing mutated case smaller: reduce the valid base, re-apply the same mutator

def reductions_json(js):
    def cp():
        return copy.deepcopy(js)

    for key in ("templates", "composable-templates", "component-templates", "description", "meta", "dependencies", "corpora", "version"):
        if key in js and not (key == "component-templates" and "composable-templates" in js):
            n = cp()
            del n[key]
            yield n
    for i, c in enumerate(js.get("corpora", [])):
        if len(js["corpora"]) > 1:
            n = cp()
            del n["corpora"][i]
            yield n
        for j in range(len(c["documents"])):
            if len(c["documents"]) > 1:
                n = cp()
                del n["corpora"][i]["documents"][j]
                yield n
    chs = js.get("challenges", [])
    for i, c in enumerate(chs):
        if len(chs) > 1 and not c.get("default"):
            n = cp()
            del n["challenges"][i]
            yield n

    def scheds(x):
        return [c["schedule"] for c in x["challenges"]] if "challenges" in x else ([x["challenge"]["schedule"]] if "challenge" in x else [x["schedule"]])

    for ci, sch in enumerate(scheds(js)):
        for j, it in enumerate(sch):
            if len(sch) > 1:
                n = cp()
                del scheds(n)[ci][j]
                yield n
            if "parallel" in it:
                for k, t in enumerate(it["parallel"]["tasks"]):
                    if len(it["parallel"]["tasks"]) > 1 and it["parallel"].get("completed-by") != M._tname(js, t):
                        n = cp()
                        del scheds(n)[ci][j]["parallel"]["tasks"][k]
                        yield n
            for t_ix, t in enumerate(it["parallel"]["tasks"] if "parallel" in it else [it]):
                for key in ("tags", "meta", "schedule", "my-sched-param", "target-throughput", "target-interval", "ignore-response-error-level", "run-on-serverless", "clients"):
                    if key in t:
                        n = cp()
                        nit = scheds(n)[ci][j]
                        nt = nit["parallel"]["tasks"][t_ix] if "parallel" in nit else nit
                        del nt[key]
                        yield n
                if isinstance(t.get("operation"), dict):
                    for key in list(t["operation"]):
                        if key not in ("name", "operation-type"):
                            n = cp()
                            nit = scheds(n)[ci][j]
                            nt = nit["parallel"]["tasks"][t_ix] if "parallel" in nit else nit
                            del nt["operation"][key]
                            yield n
    used = {t["operation"] for sch in scheds(js) for it in sch for t in (it["parallel"]["tasks"] if "parallel" in it else [it]) if isinstance(t.get("operation"), str)}
    for i, o in enumerate(js.get("operations", [])):
        if o["name"] not in used:
            n = cp()
            del n["operations"][i]
            if not n["operations"]:
                del n["operations"]
            yield n
        for key in list(o):
            if key not in ("name", "operation-type"):
                n = cp()
                del n["operations"][i][key]
                yield n
    if "corpora" not in js:
        for key in ("indices", "data-streams"):
            if key in js:
                n = cp()
                del n[key]
                yield n


def twin_files(js, bodies):
    files = {"track.json": json.dumps(js, indent=1, ensure_ascii=False) + "\n"}
    for k, v in bodies.items():
        if json.dumps(k) in files["track.json"]:  # body / template files the (possibly reduced) track still names
            files[k] = json.dumps(v, ensure_ascii=False) + "\n"
    return files


def apply_rule(rule, rng, js, user):
    fn = M.MUTATORS[rule]
    js = copy.deepcopy(js)
    if getattr(fn, "needs_schema", False):
        return fn(rng, js, dict(user), schema=schema())
    return fn(rng, js, dict(user))


def shrink_invalid(js, bodies, rule, mut_seed, selected, via, sig, root, budget=90):
    import random

    def attempt(base):
        write_files(root, twin_files(base, bodies))
        st, _ = real_load(root, "", selected, via)
        if st != "ok":
            return None  # the base must itself be a track the loader accepts
        out = apply_rule(rule, random.Random(mut_seed), base, {})
        if out is None or out[2]["rule"] != rule:
            return None
        mjs, mup, desc = out
        files = twin_files(mjs, bodies)
        cli = json.dumps(mup) if mup else ""
        probs = check_invalid(NULL, files, cli, selected, via, root, desc)
        for c, m, d in probs:
            if signature(c, m, d, {"mutation": desc}) == sig:
                return files, cli, desc, (c, m, d)
        return None

    best = attempt(js)
    if best is None:
        return None
    runs, changed = 0, True
    while changed and runs < budget:
        changed = False
        for cand in reductions_json(js):
            if runs >= budget:
                break
            runs += 1
            try:
                got = attempt(cand)
            except Exception:
                got = None
            if got is not None:
                js, best, changed = cand, got, True
                break
    return best


def one_case(ctx, rng, i, root, doc_types):
    want = RULES[(i + ctx.shard) % len(RULES)]  # round robin, so that every rule gets its share in every shard
    st, g = gen_state(rng, ctx.tier, doc_types, want)
    case, lfeats = render_state(st)
    feats = set(g.features) | lfeats
    feats.add("params-as-json" if case["cli"].startswith("{") else ("params-as-kv" if case["cli"] else "no-params"))
    for n, where in case["refs"].items():
        if where in (["collect-part"], ["body-file"], ["jinja-include"], ["macro-part"], ["imported-macro-file"]):
            feats.add("param-only-in-" + where[0])
    if case["via"] == "load_track":
        feats.add("via-load_track")
    names = [set(_all_task_names(e)) for e in case["expect"]["challenges"]]
    if len(names) > 1 and any(names[a] & names[b] for a in range(len(names)) for b in range(a)):
        feats.add("same-task-name-in-two-challenges")
    ntasks = sum(len(x) for x in names)
    nontrivial = ntasks >= 2 and bool(feats & {"parallel-defaults", "param-supplied", "param-default", "include-challenge", "include-task", "collect-challenges", "collect-operations", "corpus-level-defaults", "completed-by-name", "completed-by-any"})
    status, probs = check_valid(ctx, case, root)
    reported = set()
    for clause, msg, detail in probs:
        sig = signature(clause, msg, detail, {"diag": case["diag"]})
        if sig in reported:  # one report per (clause, mechanism, field); more of the same in this case adds nothing
            continue
        reported.add(sig)
        _SEEN[sig[:2]] = _SEEN.get(sig[:2], 0) + 1
        # one small witness per mechanism and shard is enough; do not spend the budget on shrinking more of the same
        small = shrink_valid(st, sig, root) if _SEEN[sig[:2]] <= 1 else st
        scase, _ = render_state(small)
        s2, p2 = check_valid(NULL, scase, root, count=False)
        hit = [x for x in p2 if signature(x[0], x[1], x[2], {"diag": scase["diag"]}) == sig]
        if hit:
            clause, msg, detail = hit[0]
        else:
            scase = case
        total = sum(len(v) for v in scase["files"].values())
        w = {
            "files": brief(scase["files"]), "track_params": scase["cli"], "selected_challenge": scase["selected"], "via": scase["via"],
            "detail": detail, "diag": scase["diag"], "param_refs": scase["refs"], "expect": M.exp_json(scase["expect"]) if total <= 4000 else None,
        }
        ctx.violation(clause, w, msg)
    # ---- the mutated twin
    mut_desc = None
    if status == "loaded":
        plain_js = M.plain(st["spec"])
        plain_bodies = {k: M.plain(v) for k, v in st["bodies"].items()}
        mut_seed = rng.getrandbits(32)
        import random

        out, rule = None, want
        for r2 in RULES[RULES.index(want):] + RULES[: RULES.index(want)]:  # not applicable to this track: next rule
            out = apply_rule(r2, random.Random(mut_seed), plain_js, case["user"])
            if out is not None:
                rule = r2
                break
        if out is not None:
            mjs, mup, mut_desc = out
            param_rule = rule in ("unused-track-parameter", "reserved-track-parameter")
            if param_rule:
                mfiles = case["files"]  # the templated files, with the parameters the valid twin was given plus the offending one
                mcli = json.dumps(mup) if (st["cli_mode"] == "json" or not _kv_ok(mup)) else ",".join(f"{k}:{_kv(v)}" for k, v in mup.items())
                if case["diag"]["supplied_unscanned"]:
                    mfiles = None  # would be rejected anyway, for another reason
            else:
                mfiles, mcli = twin_files(mjs, plain_bodies), ""
            if mfiles is not None:
                feats.add("rule:" + rule)
                for k in ("where", "via", "to", "what", "param"):
                    if k in mut_desc:
                        ctx.distinct("mutation-variants", (rule, k, mut_desc[k], mut_desc.get("in_parallel")))
                if rule.startswith("schema-"):
                    ctx.distinct("schema-sites", (rule, [p for p in mut_desc["path"] if not isinstance(p, int)]))
                for clause, msg, detail in check_invalid(ctx, mfiles, mcli, case["selected"], case["via"], root, mut_desc):
                    sig = signature(clause, msg, detail, {"mutation": mut_desc})
                    _SEEN[sig[:2]] = _SEEN.get(sig[:2], 0) + 1
                    w = {"mutation": mut_desc, "files": brief(mfiles), "track_params": mcli, "selected_challenge": case["selected"], "via": case["via"], "detail": detail}
                    small = None
                    try:
                        if _SEEN[sig[:2]] > 1:
                            pass
                        elif param_rule:
                            extra = {k: v for k, v in mup.items() if k not in case["user"]}
                            pf = twin_files(plain_js, plain_bodies)
                            pp = check_invalid(NULL, pf, json.dumps(extra), case["selected"], case["via"], root, mut_desc)
                            if any(signature(c, m, d, {"mutation": mut_desc}) == sig for c, m, d in pp):
                                w.update(files=brief(pf), track_params=json.dumps(extra))
                        else:
                            small = shrink_invalid(plain_js, plain_bodies, rule, mut_seed, case["selected"], case["via"], sig, root)
                    except Exception as e:
                        ctx.note(f"shrinking failed: {type(e).__name__}: {e}")
                    if small is not None:
                        sfiles, scli, sdesc, (clause, msg, detail) = small
                        w = {"mutation": sdesc, "files": brief(sfiles), "track_params": scli, "selected_challenge": case["selected"], "via": case["via"], "detail": detail}
                    ctx.violation(clause, w, msg)
    # ---- probes: situations for which neither the statement nor the docs promise a rejection; recorded, never judged
    if status == "loaded" and i % 8 == 0:
        import random

        pname = sorted(M.PROBES)[(i // 8 + ctx.shard) % len(M.PROBES)]
        pjs = M.PROBES[pname](random.Random(rng.getrandbits(32)), M.plain(st["spec"]))
        if pjs is not None:
            write_files(root, twin_files(pjs, {k: M.plain(v) for k, v in st["bodies"].items()}))
            pst, pres = real_load(root, "", case["selected"], case["via"])
            outcome = "loaded" if pst == "ok" else ("rejected" if isinstance(pres, FAMILY) else "raised-" + type(pres).__name__)
            ctx.feature(f"probe:{pname}={outcome}")
    ctx.case((case["files"], case["cli"], case["selected"], mut_desc), nontrivial, feats)
    if sum(len(v) for v in case["files"].values()) < 1500 and len(case["files"]) > 1 and (case["cli"] or "include-task" in feats):
        ctx.sample({"files": case["files"], "track_params": case["cli"], "mutation_then_applied": mut_desc}, tag="+".join(sorted(feats & {"include-challenge", "include-task", "collect-challenges", "collect-operations", "param-supplied", "parallel-defaults"})) or "plain")
    return status, probs


def _kv_ok(up):
    return all(isinstance(v, (bool, int)) or (isinstance(v, str) and v.isalnum() and v.isascii() and not v[0].isdigit() and v.lower() not in ("true", "false", "none")) for v in up.values())


def _kv(v):
    return ("true" if v else "false") if isinstance(v, bool) else str(v)


# --------------------------------------------------------------------------- exhaustive part: operation type registry

def registry_checks(ctx, doc_types, source):
    from esrally.driver import runner

    members = list(track.OperationType)
    mine = [m for i, m in enumerate(members) if i % ctx.nshards == ctx.shard]
    for m in mine:
        ctx.clause("optype-roundtrip")
        try:
            back = track.OperationType.from_hyphenated_string(m.to_hyphenated_string())
        except Exception as e:
            back = f"{type(e).__name__}: {e}"
        if back is not m:
            ctx.violation("optype-roundtrip", {"member": m.name, "hyphenated": m.to_hyphenated_string(), "back": repr(back)}, f"OperationType.{m.name} -> {m.to_hyphenated_string()!r} -> {back!r}")
    ctx.exhaustive["optype-roundtrip"] = True
    runner.register_default_runners()
    mine = [t for i, t in enumerate(doc_types) if i % ctx.nshards == ctx.shard]
    for t in mine:
        ctx.clause("optype-runner")
        problems = []
        try:
            track.OperationType.from_hyphenated_string(t)
        except Exception as e:
            problems.append(f"not a built-in operation type: {type(e).__name__}: {e}")
        try:
            r = runner.runner_for(t)
            if r is None:
                problems.append("runner_for returned None")
        except Exception as e:
            problems.append(f"no runner: {type(e).__name__}: {e}")
        for pmsg in problems:
            ctx.violation("optype-runner", {"operation_type": t, "listed_in": source}, f"operation type {t!r} is documented in {source} but {pmsg}")
    ctx.exhaustive["optype-runner"] = True
    ctx.distinct("documented-operation-types", len(doc_types))


# --------------------------------------------------------------------------- shard / classify / replay

def run_shard(ctx):
    logging.disable(logging.CRITICAL)  # the loader logs every rejected track; nothing of it is evidence
    doc_types, source = M.doc_operation_types()
    if ctx.shard == 0:
        ctx.note(f"{len(doc_types)} documented operation types taken from {source}; schema sites are drawn from the shipped track-schema.json")
    registry_checks(ctx, doc_types, source)
    tmp = ctx.scratch / "tmp"
    tmp.mkdir(exist_ok=True)
    tempfile.tempdir = str(tmp)  # TrackFileReader.read leaves one rendered-track file per call
    root = str(ctx.scratch / "tracks" / "t")
    i = 0
    devnull = open(os.devnull, "w")
    import contextlib

    with contextlib.redirect_stdout(devnull):  # console.println of the unused / reserved parameter message
        while ctx.more():
            one_case(ctx, ctx.case_rng(i), i, root + str(i % 7), doc_types)
            i += 1
            if i % 200 == 0:
                for f in os.listdir(tmp):
                    try:
                        os.unlink(os.path.join(tmp, f))
                    except OSError:
                        pass


def classify(v):
    w, clause, msg = v["witness"], v["clause"], v["msg"]
    detail = w.get("detail") or {}
    diag = w.get("diag") or {}
    # (1)/(2) a supplied parameter that is referenced only inside a file which Jinja pulls in at render time is not seen by
    #     register_all_params_in_track (it scans the assembled source only), so Rally reports it as "unused":
    #     (1) files named by {% include "..." %}, (2) parts of rally.collect when the call is not spelled exactly as Rally's
    #     textual pre-assembly expects (e.g. no blanks inside the braces), which leaves the work to the Jinja macro
    if clause == "valid-loads" and detail.get("exception") == "TrackConfigError" and "Unused track parameters" in detail.get("message", ""):
        named = [x for x in detail["message"].split("[", 1)[-1].split("]")[0].replace("'", "").replace(" ", "").split(",") if x]
        unscanned = diag.get("supplied_unscanned") or {}
        if named and all(n in M.JINJA_GLOBAL_NAMES for n in named):
            # (5) the parameter is used in the track, but its name is one of Jinja's built-in globals (range, dict, namespace, cycler,
            #     joiner, lipsum): meta.find_undeclared_variables does not list names the environment already knows
            return "param-named-like-jinja-global-reported-unused"
        if named and all(n in unscanned for n in named):
            if any("jinja-include" in unscanned[n] for n in named):
                return "param-used-only-in-jinja-include-reported-unused"
            return "param-used-only-in-collect-macro-part-reported-unused"
    # (3) corpus-level target-index / target-type / target-data-stream defaults are read only when the track has an
    #     indices (resp. data-streams) section
    if diag.get("corpus_target_default_without_section"):
        if clause == "valid-loads" and detail.get("exception") == "TrackSyntaxError" and "is required for" in detail.get("message", ""):
            return "corpus-level-target-default-ignored-without-indices-section"
        if clause == "corpus-defaults" and detail.get("path", "").rsplit(".", 1)[-1] in ("target_index", "target_type", "target_data_stream") and detail.get("actual") is None:
            return "corpus-level-target-default-ignored-without-indices-section"
    # (4) "version" is converted with int() before the schema is consulted; a JSON null / array / object is a TypeError
    mut = w.get("mutation") or {}
    if clause == "rejection-family" and mut.get("rule") == "schema-type" and mut.get("path") == ["version"] and mut.get("to") in ("null", "array", "object") and detail.get("exception") == "TypeError":
        return "version-of-non-scalar-json-type-raises-typeerror"
    return None


def replay(ctx, rec):
    logging.disable(logging.CRITICAL)
    w = rec["witness"]
    root = str(ctx.scratch / "tracks" / "replay")
    files = w["files"]
    if any("... [" in v and v.endswith("chars]") for v in files.values()):
        print("replay: the witness files were abbreviated; re-run the seed/shard instead")
        return
    if "mutation" in w:
        for clause, msg, detail in check_invalid(ctx, files, w["track_params"], w.get("selected_challenge"), w.get("via", "TrackFileReader.read"), root, w["mutation"]):
            ctx.violation(clause, dict(w, detail=detail), msg)
        return
    if w.get("expect") is None:
        print("replay: witness has no expectation recorded")
        return
    case = {"files": files, "cli": w["track_params"], "selected": w.get("selected_challenge"), "via": w.get("via", "TrackFileReader.read"), "expect": M.exp_unjson(w["expect"])}
    status, probs = check_valid(ctx, case, root)
    for clause, msg, detail in probs:
        ctx.violation(clause, dict(w, detail=detail), msg)


MANIFEST = {
    "text": "Exploration: 10^3..2*10^4 (quick, the real loader costs ~15 ms per track, so the number follows the machine load) / 10^4..3*10^5 (thorough) "
    "generated track models are printed to track directories (Jinja parameters with and without supplied values, {% set %}, {% include %}, "
    "rally.collect parts, rally.exists_set_param, conditional tasks, index body / template files, parameters passed as a --track-params string) and "
    "loaded with the real TrackFileReader.read / load_track; every field of the loaded Track is compared with the model. Each model is then mutated by "
    "one of 23 single-rule mutators (rules named by the statement or stated in docs/track.rst, schema sites drawn from track-schema.json) and must be "
    "refused with TrackSyntaxError / InvalidSyntax / TrackConfigError. Operation type name round trip and runner registration for the 57 documented "
    "operation types are enumerated exhaustively. Holds on the tracks produced, not beyond.",
    "note": "Trusts the model printer (c10_model.py), Jinja2 and jsonschema as shipped. Situations for which neither the statement nor the docs promise a "
    "rejection (target-throughput together with target-interval, iterations together with time-period, ramp-up only on a nested task, target-index with "
    "data streams, an inline operation named like one in 'operations') are probed and their outcome is recorded as probe:* features, never judged. "
    "For the 'version' field any Rally error counts as rejection (docs/track.rst l.165). Removing only the reserved-parameter check is not observable: "
    "the same parameter is then refused as unused, with the same exception class.",
    "technique": "runtime monitor: print-then-parse reference model over generated track directories + single-rule mutation with exception-family oracle + exhaustive registry enumeration",
    "design_ref": "DESIGN.md section 4 C10",
}
