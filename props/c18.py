"""C18 - request timings span all sub-requests and never leak between clients.

Two workload classes, counted separately:
 (a) product-shaped: rally's real AsyncExecutor + Composite / RequestTiming / Query(scroll) runners over the simulated node on a
     virtual clock, 1-16 clients concurrently in one event loop, streams nested up to depth 4, max-connections 1..inf;
 (b) generic trees driven straight on the real RequestContextHolder / RequestContextManager: random trees of nested contexts
     whose nodes run as separate asyncio tasks (or inline), arbitrary wire start/end times and arbitrary extra awaits between a
     node's last wire request and its context exit, several independent trees ("clients") interleaved in the same loop.
Oracle: every wire request has a unique id and a virtual (start, end); the expected span of a context is min start / max end over
its subtree, computed by the checker from the tree.
"""
import asyncio
import json

from esrally.client import context as rally_context
from esrally.track import track
from esrally.driver import driver

from engines import execharness, simes, vclock
from props import c04_gen

ID = "C18"
LEVEL = "exploration"
RULE = (
    "class (a): generated composite request structures (nested streams, sleep/raw-request/search items, max-connections) and scroll searches, "
    "1-16 concurrent clients; class (b): generated context trees (depth<=5, children as tasks or inline, lingering exits), 1-6 trees interleaved; "
    "non-trivial = at least two wire requests under one context; distinct = hash of the structure incl. all times"
)
ASSUMPTIONS = [
    "virtual time; wire requests of class (b) are on_request_start(); sleep; on_request_end() on the real RequestContextHolder",
    "a context is only required to span wire requests that ended before the context was read/exited (children are joined before the parent exits)",
    "contexts without any wire request in their subtree are not judged",
    "'all HTTP requests issued on its behalf' includes requests that fail (refused, timed out, error status) and sub-requests whose context is left "
    "through an exception; a request cancelled in flight because a sibling stream failed ends after the logical request was read and is optional",
]
REQUIRED_CLAUSES = ["a:logical-span", "a:dependent-timing", "a:no-leak", "a:no-request-after-sampled", "b:span-start", "b:span-end", "b:own-span", "b:no-leak"]
REQUIRED_FEATURES = {"a:nested-streams": 10, "a:concurrent-clients": 10, "a:limited-connections": 5, "a:scroll": 5, "a:failed-wire-request": 10, "a:last-wire-request-raised": 5,
                     "b:sibling-exits-out-of-start-order": 10, "b:lingering-child": 10, "b:multi-tree": 10, "b:failed-child-with-requests": 10}
BUDGET = {"quick": {"cases": 7000, "seconds": 40}, "thorough": {"cases": 250000, "seconds": 600}}
EPS = 1e-9


def close(a, b):
    return a is not None and b is not None and abs(a - b) <= 1e-9 * max(1.0, abs(a), abs(b)) + 1e-9


# =============================================================================================================== class (b)
def gen_tree(rng, depth, counter, maxdepth):
    """node = {"id", "steps": [...]} ; steps: ["wire", pre, dur] | ["task", node] | ["inline", node] | ["join"] | ["wait", t]"""
    node = {"id": counter[0], "steps": []}
    counter[0] += 1
    nsteps = rng.randint(1, 4)
    for _ in range(nsteps):
        r = rng.random()
        if r < 0.45 or depth >= maxdepth:
            node["steps"].append(["wire", rng.choice([0, 0, 0.5, 1, 3]), rng.choice([0.5, 1, 2, 4, 10])])
        elif r < 0.8:
            node["steps"].append(["task", gen_tree(rng, depth + 1, counter, maxdepth)])
        elif r < 0.92:
            node["steps"].append(["inline", gen_tree(rng, depth + 1, counter, maxdepth)])
        else:
            node["steps"].append(["join"])
    if rng.random() < 0.4:
        node["steps"].append(["wait", rng.choice([0.5, 2, 7])])  # lingers after its last request before leaving the context
    if depth > 0 and rng.random() < 0.2:
        node["raises"] = True  # leaves its context through an exception (a failed sub-request); the parent carries on
    return node


class NodeFailed(Exception):
    pass


async def run_node(node, holder, clock, obs, tree_id):
    with holder.new_request_context() as ctx:
        pending = []
        for step in node["steps"]:
            kind = step[0]
            if kind == "wire":
                if step[1]:
                    await asyncio.sleep(step[1])
                holder.on_request_start()
                s = clock.now
                await asyncio.sleep(step[2])
                holder.on_request_end()
                obs["wire"].append({"tree": tree_id, "node": node["id"], "start": s, "end": clock.now})
            elif kind == "task":
                pending.append(asyncio.create_task(run_node(step[1], holder, clock, obs, tree_id)))
            elif kind == "inline":
                try:
                    await run_node(step[1], holder, clock, obs, tree_id)
                except NodeFailed:
                    pass
            elif kind == "join":
                if pending:
                    await asyncio.gather(*pending, return_exceptions=True)
                    pending = []
            elif kind == "wait":
                await asyncio.sleep(step[1])
        if pending:
            await asyncio.gather(*pending, return_exceptions=True)
        obs["ctx"][(tree_id, node["id"])] = {"start": ctx.request_start, "end": ctx.request_end, "exit": clock.now}
        if node.get("raises"):
            raise NodeFailed()


def subtree_ids(node):
    ids = [node["id"]]
    for st in node["steps"]:
        if st[0] in ("task", "inline"):
            ids += subtree_ids(st[1])
    return ids


def all_nodes(node):
    yield node
    for st in node["steps"]:
        if st[0] in ("task", "inline"):
            yield from all_nodes(st[1])


def run_trees(trees):
    clock = vclock.VClock()
    shim = vclock.TimeShim(clock)
    saved = rally_context.time
    rally_context.time = shim
    obs = {"wire": [], "ctx": {}}
    holder = rally_context.RequestContextHolder()
    loop = vclock.VirtualLoop(clock, max_vt=1e6, max_iterations=200000)
    asyncio.set_event_loop(loop)
    try:
        async def main():
            # one task per tree = one "client"; they share the process-wide ContextVar exactly like rally's clients do
            await asyncio.gather(*[asyncio.create_task(run_node(t["root"], holder, clock, obs, i)) for i, t in enumerate(trees)])

        loop.run_until_complete(main())
    finally:
        loop.close()
        asyncio.set_event_loop(None)
        rally_context.time = saved
    return obs


def check_trees(ctx, trees, obs, problems, feats):
    by_node = {}
    for w in obs["wire"]:
        by_node.setdefault((w["tree"], w["node"]), []).append(w)
    for ti, t in enumerate(trees):
        for node in all_nodes(t["root"]):
            ids = subtree_ids(node)
            wires = [w for i in ids for w in by_node.get((ti, i), [])]
            got = obs["ctx"].get((ti, node["id"]))
            if not wires or got is None:
                continue
            exp_s, exp_e = min(w["start"] for w in wires), max(w["end"] for w in wires)
            where = f"tree {ti} context {node['id']} (subtree {ids})"
            is_leaf_only = len(ids) == 1
            c_start, c_end = ("b:own-span", "b:own-span") if is_leaf_only else ("b:span-start", "b:span-end")
            ctx.clause(c_start)
            if not close(got["start"], exp_s):
                other = [w for w in obs["wire"] if w["tree"] != ti and got["start"] is not None and close(w["start"], got["start"])]
                clause = "b:no-leak" if other and not any(close(w["start"], got["start"]) for w in wires) else c_start
                problems.append((clause, f"{where}: request_start {got['start']!r}, earliest wire start in its subtree is {exp_s!r}", {"kind": "start", "leaf": is_leaf_only}))
            if not is_leaf_only:
                ctx.clause(c_end)
            if not close(got["end"], exp_e):
                problems.append((c_end, f"{where}: request_end {got['end']!r}, latest wire end in its subtree is {exp_e!r}", {"kind": "end", "leaf": is_leaf_only}))
            ctx.clause("b:no-leak")
            foreign = [w for w in obs["wire"] if w["tree"] != ti]
            if got["start"] is not None and not any(close(w["start"], got["start"]) for w in wires) and any(close(w["start"], got["start"]) for w in foreign):
                problems.append(("b:no-leak", f"{where}: request_start {got['start']!r} is a timestamp of another client's wire request", {"kind": "leak"}))
            # features
            kids = [st[1] for st in node["steps"] if st[0] == "task"]
            if len(kids) >= 2:
                spans = []
                for k in kids:
                    kw = [w for i in subtree_ids(k) for w in by_node.get((ti, i), [])]
                    ko = obs["ctx"].get((ti, k["id"]))
                    if kw and ko:
                        spans.append((min(w["start"] for w in kw), ko["exit"]))
                if any(a[0] < b[0] and a[1] > b[1] for a in spans for b in spans):
                    feats.add("b:sibling-exits-out-of-start-order")
            if node["steps"] and node["steps"][-1][0] == "wait" and node is not t["root"]:
                feats.add("b:lingering-child")
            if not is_leaf_only and any(n.get("raises") and by_node.get((ti, n["id"])) for n in all_nodes(node) if n is not node):
                feats.add("b:failed-child-with-requests")
    if len(trees) > 1:
        feats.add("b:multi-tree")


def case_b(ctx, rng, explicit=None):
    if explicit is None:
        ntrees = rng.choice([1, 1, 2, 3, 6])
        trees = []
        for _ in range(ntrees):
            counter = [0]
            trees.append({"root": gen_tree(rng, 0, counter, rng.choice([1, 2, 3, 5]))})
        # make timestamps of different trees distinguishable: each tree starts with its own small offset
        for i, t in enumerate(trees):
            t["root"]["steps"].insert(0, ["wait", 0.001 * (i + 1) + 0.0001 * rng.randint(0, 9)])
    else:
        trees = explicit
    feats = set()
    problems = []
    try:
        obs = run_trees(trees)
    except vclock.BudgetExceeded:
        ctx.case(trees, False, ())
        return problems
    check_trees(ctx, trees, obs, problems, feats)
    nontrivial = any(len([w for w in obs["wire"] if w["tree"] == i]) >= 2 for i in range(len(trees)))
    ctx.case(["b", trees], nontrivial, feats | {"class-b"})
    if len(trees) == 1 and len(obs["wire"]) <= 4:
        ctx.sample({"class": "b", "tree": trees[0], "wire": obs["wire"], "contexts": {f"{k[0]}/{k[1]}": v for k, v in obs["ctx"].items()}}, tag="b")
    for clause, msg, detail in problems[:2]:
        w = {"class": "b", "trees": shrink_b(trees, clause) if len(json.dumps(trees)) < 6000 else trees, "detail": detail}
        ctx.violation(clause, w, msg)
    return problems


def shrink_b(trees, clause):
    def fails(ts):
        class N:
            def clause(self, *a):
                pass
        probs = []
        try:
            check_trees(N(), ts, run_trees(ts), probs, set())
        except BaseException:
            return False
        return any(p[0] == clause for p in probs)

    ts = json.loads(json.dumps(trees))
    changed = True
    while changed:
        changed = False
        if len(ts) > 1:
            for i in range(len(ts)):
                cand = ts[:i] + ts[i + 1:]
                if fails(cand):
                    ts, changed = cand, True
                    break
            if changed:
                continue
        for t in ts:
            for node in all_nodes(t["root"]):
                for i in range(len(node["steps"])):
                    saved = node["steps"]
                    node["steps"] = saved[:i] + saved[i + 1:]
                    if fails(ts):
                        changed = True
                        break
                    node["steps"] = saved
                if changed:
                    break
            if changed:
                break
    return ts


# =============================================================================================================== class (a)
def gen_stream(rng, depth, names, maxdepth, sleeps=True):
    items = []
    for _ in range(rng.randint(1, 3)):
        r = rng.random()
        if r < 0.35 and depth < maxdepth:
            items.append({"stream": gen_stream(rng, depth + 1, names, maxdepth, sleeps)})
        else:
            name = f"op{len(names)}"
            kind = rng.choice(["raw-request", "raw-request", "search", "sleep"] if sleeps else ["raw-request", "raw-request", "search"])
            names.append((name, kind))
            if kind == "raw-request":
                items.append({"name": name, "operation-type": "raw-request", "path": f"/_verif/sub/{name}", "method": "GET"})
            elif kind == "search":
                items.append({"name": name, "operation-type": "search", "index": name, "body": {"query": {"match_all": {}}}})
            else:
                items.append({"name": name, "operation-type": "sleep", "duration": rng.choice([0.5, 1, 3])})
    return items


def gen_case_a(rng):
    clients = rng.choice([1, 1, 2, 4, 8, 16])
    kind = rng.choice(["composite", "composite", "composite", "scroll"])
    case = {"clients": clients, "kind": kind, "iterations": rng.choice([1, 2, 3]), "svc_seed": rng.randint(0, 1 << 30), "pc_offset": rng.choice([0.0, 777.25])}
    case["target_hosts"] = rng.choice([1, 1, 2, 3])
    # failing wire requests (connection refused, request timeout, HTTP error status); the operation is sampled all the same
    # (on-error=continue). A failed composite returns no sub-request timings, so sleeps (whose span is only known from them) are left out
    case["fail_rate"] = rng.choice([0, 0, 0, 0.15, 0.4])
    if kind == "composite":
        names = []
        case["requests"] = gen_stream(rng, 0, names, rng.choice([0, 1, 2, 3]), sleeps=not case["fail_rate"])
        case["names"] = names
        case["max_connections"] = rng.choice([None, None, 1, 2, 3])
    else:
        case["pages"] = rng.choice([1, 2, 4])
    return case


def script_a(case):
    import random

    refused = set()

    def script(rec):
        r = random.Random(f"{case['svc_seed']}:{rec['client']}:{rec['logical']}:{rec['path']}:{rec['method']}:{rec['id']}")
        d = r.choice([0.1, 0.5, 1, 2, 5, 9])
        out = simes.Outcome(before_headers=d * r.choice([0, 0.5, 1]), before_body=0)
        out.before_body = d - out.before_headers
        if case.get("fail_rate") and r.random() < case["fail_rate"]:
            how = r.choice(["refused", "refused-at-once", "timeout", 404, 500, 400])
            if how.startswith("refused") if isinstance(how, str) else False:
                # the transport retries a refused connection (a fourth refusal in a row would be fatal for the whole task): refuse once per request
                key = (rec["client"], rec["logical"], rec["path"], rec["method"])
                if key in refused:
                    return out
                refused.add(key)
            if isinstance(how, int):
                out.status = how
                out.body = b'{"error":{"type":"verif","reason":"simulated"},"status":%d}' % how
            elif how == "refused-at-once":
                out.fail, out.before_headers = "refused", 0
            else:
                out.fail = how
                out.before_headers = d
            return out
        p = rec["path"]
        if p.endswith("/_search") and rec["query"].get("scroll"):
            out.body = b'{"_scroll_id":"abc","took":3,"timed_out":false,"hits":{"total":{"value":100,"relation":"eq"},"hits":[{"_id":"1"},{"_id":"2"}]}}'
        elif p == "/_search/scroll" and rec["method"] != "DELETE":
            out.body = b'{"_scroll_id":"abc","took":2,"timed_out":false,"hits":{"hits":[]}}'
        return out

    return script


def run_case_a(case, scratch):
    h = execharness.Harness(scratch, script_a(case), pc_offset=case["pc_offset"])
    try:
        c04_gen.ensure_registered(execharness.make_cfg(h.static_file))
        if case["kind"] == "composite":
            params = {"requests": case["requests"]}
            if case["max_connections"]:
                params["max-connections"] = case["max_connections"]
            op = track.Operation("comp", "composite", params=params)
        else:
            op = track.Operation("scroll", "scroll-search", params={"index": "idx", "pages": case["pages"], "results-per-page": 2, "body": {"query": {"match_all": {}}}})
        task = track.Task("t", op, warmup_iterations=0, iterations=case["iterations"], clients=case["clients"])
        trk = track.Track("verif", challenges=[track.Challenge("c", default=True, schedule=[task])], indices=[track.Index("idx")])
        allocs = [(i, driver.TaskAllocation(task, i, i, case["clients"])) for i in range(case["clients"])]
        extra = None
        if case.get("target_hosts", 1) > 1:
            # several target hosts: the transport's node pool hands the requests of a client to its nodes in turn; every node must be traced
            from esrally.utils import opts as rally_opts

            extra = {("client", "hosts"): rally_opts.TargetHosts(",".join(f"127.0.0.{n + 1}:9200" for n in range(case["target_hosts"])))}
        sampler, exc = h.run(trk, allocs, on_error="continue", cfg_extra=extra)
    finally:
        h.close()
    return h, exc


def case_a(ctx, rng, explicit=None):
    case = explicit or gen_case_a(rng)
    feats = {"class-a"}
    problems = []
    h, exc = run_case_a(case, ctx.scratch)
    if isinstance(exc, vclock.BudgetExceeded):
        ctx.case(case, False, ())
        return problems
    if exc is not None:
        problems.append(("a:logical-span", f"executor raised {type(exc).__name__}: {exc}", None))
    log = {r["id"]: r for r in h.sim.log}
    off = case["pc_offset"]
    samples = {}
    for s in h.rec.samples:
        samples.setdefault(s["client"], []).append(s)
    nwire = 0
    for e in h.rec.logical:
        if "result" not in e:
            continue
        if e["ordinal"] >= len(samples.get(e["client"], [])):
            problems.append(("a:logical-span", f"client {e['client']} request #{e['ordinal']} was executed ({len(e['wire'])} wire requests) but no sample was recorded for it", None))
            continue
        s = samples[e["client"]][e["ordinal"]]
        wires = [log[w] for w in e["wire"]]
        nwire = max(nwire, len(wires))
        sleeps = [(n, k) for n, k in case.get("names", []) if k == "sleep"]
        where = f"client {e['client']} request #{e['ordinal']}"
        deps = s["dependent"] or []
        flat = []

        def flatten(x):
            for d in x:
                if isinstance(d, dict) and "dependent_timing" in d:
                    flat.append(d["dependent_timing"])
        flatten(deps)
        # expected span of the logical request: all wire requests + sleeps (which call on_request_start/end themselves)
        # Which wire requests must the recorded span cover? All that ended before the logical request was read (T = the moment execute_single
        # returned) - failed ones included. When the request fails, Composite leaves sibling streams running or cancels them after the fact:
        # requests still in flight at T (cancelled or not) cannot be covered and are optional; so are requests of sibling streams that end in
        # the very instant T (their order relative to the read is not determined by the statement) - except the failing request itself.
        T = e["vt_finish"]
        failed = e["result"]["success"] is False
        done = [w for w in wires if w["fail"] != "cancelled-by-client" and w["vt_end"] is not None and not w.get("after_logical_request_finished")]
        if failed:
            strict = [w for w in done if w["vt_end"] < T - 1e-9]
            at_t = [w for w in done if abs(w["vt_end"] - T) <= 1e-9]
            culprits = [w for w in at_t if w["fail"] or (w["status"] or 0) >= 400]
        else:
            strict, at_t, culprits = done, [], []
        optional = [w for w in wires if w not in strict and w not in culprits]
        if any(w["fail"] or (w["status"] or 0) >= 400 for w in done):
            feats.add("a:failed-wire-request")
            if any(w["fail"] in ("refused", "timeout") for w in culprits):
                feats.add("a:last-wire-request-raised")
        # a request that is sent (strictly) after its logical request has been sampled can be in no recorded span at all
        ctx.clause("a:no-request-after-sampled")
        late = [w for w in log.values() if w["id"] in e["wire"] and w["vt_start"] > T + 1e-9]
        if late:
            feats.add("a:request-after-sampled")
            problems.append(("a:no-request-after-sampled", f"{where} was sampled at {T!r} with service_time {s['service_time']!r}, but {len(late)} HTTP request(s) were sent on its behalf after that "
                             f"(first: {late[0]['path']} at {late[0]['vt_start']!r}..{late[0]['vt_end']!r}); request failed: {failed}", {"failed": failed, "late": len(late)}))
        sleep_s = [t["request_start"] - off for t in flat if t["operation-type"] == "sleep"]
        sleep_e = [t["request_end"] - off for t in flat if t["operation-type"] == "sleep"]
        starts = [w["vt_start"] for w in strict + culprits] + sleep_s
        ends = [w["vt_end"] for w in strict + culprits] + sleep_e
        wires = strict + culprits
        if starts and (not failed or culprits):
            ctx.clause("a:logical-span")
            # with several culprits in the same instant one of them is enough
            base_starts = [min([w["vt_start"] for w in strict] + sleep_s + [c["vt_start"]]) for c in culprits] or [min(starts)]
            ok_starts = set(base_starts) | {w["vt_start"] for w in optional if w["vt_start"] < max(base_starts)}
            ok_ends = {max(ends)}
            if s["service_time"] is None or s["request_start"] is None:
                problems.append(("a:logical-span", f"{where}: sample has request_start {s['request_start']!r} / service_time {s['service_time']!r} but its sub-requests span {min(starts)!r}..{max(ends)!r}", None))
            else:
                if not any(close(s["service_time"], e_ - s_) for e_ in ok_ends for s_ in ok_starts):
                    problems.append(("a:logical-span", f"{where}: service_time {s['service_time']!r} but its sub-requests span {min(starts)!r}..{max(ends)!r}" + (f" (request failed at {T!r}; {len(optional)} wire requests in flight or finishing in that instant are not counted)" if failed else ""), None))
                if not any(close(s["request_start"], off + s_) for s_ in ok_starts):
                    problems.append(("a:logical-span", f"{where}: request_start {s['request_start']!r} but the earliest sub-request started at {off + min(starts)!r}", None))
        ctx.clause("a:no-leak")
        foreign = [w for w in h.sim.log if w["client"] != e["client"]]
        if wires and not any(close(s["request_start"], off + x) for x in starts) and any(close(s["request_start"], off + w["vt_start"]) for w in foreign):
            problems.append(("a:no-leak", f"{where}: request_start {s['request_start']!r} is the start of another client's wire request", None))
        for t in flat:
            name = t["operation"]
            if t["operation-type"] == "sleep":
                dur = next(i["duration"] for i in iter_items(case["requests"]) if i.get("name") == name)
                ctx.clause("a:dependent-timing")
                if not close(t["service_time"], dur):
                    problems.append(("a:dependent-timing", f"{where}: sleep sub-request {name} reports {t['service_time']!r}, slept {dur}", None))
                continue
            mine = [w for w in wires if (w["path"] == f"/_verif/sub/{name}" or w["path"] == f"/{name}/_search")]
            if not mine:
                problems.append(("a:dependent-timing", f"{where}: sub-request {name} reported a timing but issued no wire request", None))
                continue
            ctx.clause("a:dependent-timing")
            ws, we = min(w["vt_start"] for w in mine), max(w["vt_end"] for w in mine)
            if not (close(t["service_time"], we - ws) and close(t["request_start"], off + ws) and close(t["request_end"], off + we)):
                problems.append(("a:dependent-timing", f"{where}: sub-request {name} reports start/end {t['request_start']!r}/{t['request_end']!r} but its own wire request ran {off + ws!r}..{off + we!r}", None))
    if case["kind"] == "composite":
        if any("stream" in i for i in case["requests"]):
            feats.add("a:nested-streams")
        if case["max_connections"]:
            feats.add("a:limited-connections")
    else:
        feats.add("a:scroll")
    if case["clients"] > 1:
        feats.add("a:concurrent-clients")
    ctx.case(["a", case], nwire >= 2, feats)
    if case["clients"] == 1 and len(h.sim.log) <= 5:
        ctx.sample({"class": "a", "case": case, "wire": [{k: r[k] for k in ("vt_start", "vt_end", "path")} for r in h.sim.log],
                    "sample": [{k: s[k] for k in ("request_start", "service_time")} for s in h.rec.samples]}, tag="a-" + case["kind"])
    for clause, msg, detail in problems[:2]:
        ctx.violation(clause, {"class": "a", "case": case}, msg)
    return problems


def iter_items(stream):
    for i in stream:
        if "stream" in i:
            yield from iter_items(i["stream"])
        else:
            yield i


def run_shard(ctx):
    i = 0
    while ctx.more():
        rng = ctx.case_rng(i)
        if i % 4 == 0:
            case_a(ctx, rng)
        else:
            case_b(ctx, rng)
        i += 1


def classify(v):
    return None


def replay(ctx, rec):
    w = rec["witness"]
    if w["class"] == "a":
        case_a(ctx, None, explicit=w["case"])
    else:
        case_b(ctx, None, explicit=w["trees"])


MANIFEST = {
    "text": "Exploration: (a) rally's real Composite/RequestTiming/scroll runners and executor over a simulated node on a virtual clock, concurrent clients in "
    "one loop; (b) generated trees of nested request contexts on the real RequestContextHolder with nodes as separate asyncio tasks, arbitrary wire "
    "times and lingering exits, several trees interleaved; in both classes a share of the requests fail (request timeout, refused connection + transport retry, error status under "
    "on-error=continue; context nodes left through an exception). Every context's recorded start/end is compared with min start / max end over the uniquely "
    "identified wire requests of its subtree; foreign timestamps are reported as leaks.",
    "note": "Trusts the virtual-time loop; class (b) drives the holder API directly with on_request_start/on_request_end as the wire events.",
    "technique": "runtime monitor: unique-id wire history + tree-derived expected spans, checked on recorded contexts (virtual time, seeded task interleavings)",
    "engines": ["vclock", "simes"],
}
