"""C15 - the track/team branch used is the documented best match for the ES version.

Two workload classes, one oracle:

1. differential: the real ``esrally.utils.versions.best_match`` against ``reference()`` below, which is
   written from docs/track.rst ("match logic in the following order") and the property statement. An
   exhaustively enumerated small universe (partitioned over the shards) plus seeded random cases.
2. real git repositories built in scratch (``git init`` / bare "remote" + ``git fast-import``; every branch
   and tag has its own commit with a ``marker`` file) driven through the real
   ``RallyRepository(...).update(distribution_version=...)``. The oracle looks at the repository with its
   own git calls: which branch / v-tag is checked out afterwards, or that a Rally error was raised.

Where the documentation is silent the reference returns *several* allowed answers (or none at all for
versions that are not MAJOR.MINOR.PATCH[-SUFFIX]) instead of demanding what the code happens to do.
"""
import itertools
import os
import re
import shutil
import subprocess

from esrally import exceptions
from esrally.utils import repo as rally_repo
from esrally.utils import versions

ID = "C15"
LEVEL = "exploration"
RULE = (
    "(a) every (branch set of <= 3 [quick] / <= 5 [thorough] names out of a 20-name universe over majors 7,8 / minors 0,1,2, version out of 67) "
    "enumerated exhaustively; (b) seeded random (0-8 branch names from MAJOR[.MINOR[.PATCH[-SUFFIX]]] with minor/patch 0 weighted up, master, main, "
    "unrelated and suffix-without-patch names; version correlated with the set, or None/''/serverless/junk); (c) real git repositories "
    "(local-only, fresh clone, existing clone + fetch, offline clone) x targeted outcome. A case is non-trivial when it has >= 2 branches and a "
    "MAJOR.MINOR.PATCH[-SUFFIX] version; distinct = hash of (branch list, version) resp. (scenario, remote, local, tags, start branch, version)"
)
ASSUMPTIONS = [
    "the reference (30 lines, from docs/track.rst): exact M.m.p-suffix > exact M.m.p > exact M.m > greatest M.x branch with x <= m > M > master iff "
    "the version's major is greater than every versioned branch's major, or the version is unknown (None, '', serverless) > nothing",
    "docs are silent, so several answers are allowed: master vs nothing when only older patch-level branches of the same major exist; "
    "master vs nothing when master is required but not among the branches; names with a suffix but no patch ('7.1-foo', '8-x') may or may not count as versioned "
    "for the master rule (they never have to be selected); nothing is demanded for versions that are not MAJOR.MINOR.PATCH[-SUFFIX]",
    "v-tag fallback: any tag v<M.m.p-suffix|M.m.p|M.m|M> is accepted (precedence among tags is undocumented); it is demanded for local-only repositories "
    "and allowed for repositories with a remote",
    "'reports an error' means an esrally.exceptions.RallyError; leading zeros ('7.01') are not generated",
    "git 2.39 and `git fast-import` are trusted to build the repositories; the oracle reads refs with its own `git for-each-ref` / `symbolic-ref` calls",
]
REQUIRED_CLAUSES = [
    "returns-normally", "matches-reference", "result-available", "no-other-major", "no-later-minor", "patch-suffix-exact-only",
    "master-only-when-newer", "order-invariance", "unrelated-invariance",
    "git-branch-checked-out", "git-tag-fallback", "git-error-when-nothing-qualifies", "git-error-is-reported", "git-worktree-matches-head", "git-knows-the-current-remote-branches",
]
_RULES = ["exact-suffix", "exact-patch", "exact-minor", "prior-minor", "prior-minor-0", "major", "master-newer", "master-unknown", "none", "gray-master-or-none"]
REQUIRED_FEATURES = {
    "quick": dict(
        {f"rule:{r}": 50 for r in _RULES},
        **{
            "doc-example": 8, "junk-version": 20, "unrelated-branch": 100, "suffix-without-patch-branch": 20, "minor0-branch": 100, "master-absent": 100,
            "git:local-only": 8, "git:fresh-clone": 8, "git:clone-fetch": 8, "git:clone-offline": 8,
            "git-target:prior-minor": 4, "git-target:prior-minor-0": 4, "git-target:exact": 4, "git-target:major": 4, "git-target:master": 4,
            "git-target:tag": 4, "git-target:error": 4, "git-target:local-fallback": 2, "git:switched-branch": 8, "git:already-on-branch": 1, "git:namespaced-decoy-branch": 16, "git:dirty-clone-needs-switch": 4,
        },
    ),
}
REQUIRED_FEATURES["thorough"] = {k: (v if k == "doc-example" else v * 4) for k, v in REQUIRED_FEATURES["quick"].items()}
BUDGET = {
    "quick": {"cases": 1600000, "seconds": 35, "git_cases": 24, "universe_max": 3},
    "thorough": {"cases": 40000000, "seconds": 600, "git_cases": 250, "universe_max": 5},
}

# ---------------------------------------------------------------------------------------------------------
# reference, written from docs/track.rst and the property statement
_VERSION = re.compile(r"^(\d+)\.(\d+)\.(\d+)(?:-(.+))?$")  # an Elasticsearch distribution version
_BRANCH = re.compile(r"^(\d+)(?:\.(\d+)(?:\.(\d+)(?:-(.+))?)?)?$")  # MAJOR[.MINOR[.PATCH[-SUFFIX]]]
_AMBIGUOUS = re.compile(r"^(\d+)(?:\.\d+)?-.+$")  # suffix but no patch: versioned by docs/track.rst's wording, unrelated by the property's grammar
UNKNOWN_VERSIONS = (None, "", "serverless")


def parse_version(version):
    m = _VERSION.match(version) if isinstance(version, str) else None
    return (int(m[1]), int(m[2]), int(m[3]), m[4]) if m else None


def parse_branch(name):
    m = _BRANCH.match(name)
    return (int(m[1]), None if m[2] is None else int(m[2]), None if m[3] is None else int(m[3]), m[4]) if m else None


def not_older(b, ver):
    """True when versioned branch b is for the version's major or newer and is not an older patch-level branch."""
    M, mi, p, _ = ver
    if b[0] != M:
        return b[0] > M
    if b[1] is None or b[2] is None:
        return True  # the major branch / a minor branch of this major: qualifies or is later
    return (b[1], b[2]) > (mi, p) or ((b[1], b[2]) == (mi, p) and b[3] is None)


def reference(branches, version, zero_is_a_minor=True):
    """-> (set of allowed answers, rule). None in the set = 'no branch'. (None, 'junk') when the docs say nothing about this version.
    zero_is_a_minor=False is NOT the documented behaviour; classify() uses it to recognise one known mechanism."""
    names = set(branches)
    if version in UNKNOWN_VERSIONS:
        return ({"master"} if "master" in names else {"master", None}), "master-unknown"
    ver = parse_version(version)
    if ver is None:
        return None, "junk"
    M, mi, p, sfx = ver
    for cand, rule in ((f"{M}.{mi}.{p}-{sfx}" if sfx else None, "exact-suffix"), (f"{M}.{mi}.{p}", "exact-patch"), (f"{M}.{mi}", "exact-minor")):
        if cand in names:
            return {cand}, rule
    versioned = [b for b in map(parse_branch, names) if b]
    prior = [b[1] for b in versioned if b[0] == M and b[1] is not None and b[2] is None and b[1] <= mi and (b[1] > 0 or zero_is_a_minor)]
    if prior:
        return {f"{M}.{max(prior)}"}, ("prior-minor-0" if max(prior) == 0 else "prior-minor")
    if str(M) in names:
        return {str(M)}, "major"
    # no versioned branch qualifies: master iff the version is newer than every versioned branch
    if any(not_older(b, ver) for b in versioned):
        return {None}, "none"
    gray = any(b[0] == M for b in versioned) or any(int(m[1]) >= M for m in map(_AMBIGUOUS.match, names) if m)
    if gray:
        return {"master", None}, "gray-master-or-none"
    return ({"master"} if "master" in names else {"master", None}), "master-newer"


# ---------------------------------------------------------------------------------------------------------
# monitor for best_match
class _Null:
    def clause(self, *a, **k):
        pass


def call_best_match(branches, version):
    try:
        return versions.best_match(list(branches), version), None
    except Exception as e:  # pylint: disable=broad-except
        return None, f"{type(e).__name__}: {e}"


def check_match(ctx, branches, version):
    """Runs the real best_match once (plus metamorphic variants) and returns [(clause, msg, detail)]."""
    problems = []
    allowed, rule = reference(branches, version)
    got, exc = call_best_match(branches, version)
    if allowed is None:
        return problems, got, exc, rule  # docs are silent for this version: observed, nothing demanded
    ctx.clause("returns-normally")
    if exc is not None:
        problems.append(("returns-normally", f"best_match({branches}, {version!r}) raised {exc}; the documented answer is {fmt(allowed)}", {"exception": exc}))
        return problems, got, exc, rule
    names = set(branches)
    ctx.clause("matches-reference")
    if got not in allowed:
        problems.append(("matches-reference", f"best_match({branches}, {version!r}) = {got!r}; documented precedence gives {fmt(allowed)} (rule: {rule})", None))
    ctx.clause("result-available")
    if got is not None and got != "master" and got not in names:
        problems.append(("result-available", f"best_match({branches}, {version!r}) = {got!r} which is not one of the branches", None))
    ver = parse_version(version)
    gb = parse_branch(got) if isinstance(got, str) else None
    if ver and gb:
        M, mi, p, sfx = ver
        ctx.clause("no-other-major")
        if gb[0] != M:
            problems.append(("no-other-major", f"version {version} got branch {got!r} of another major", None))
        ctx.clause("no-later-minor")
        if gb[1] is not None and gb[1] > mi:
            problems.append(("no-later-minor", f"version {version} got branch {got!r} of a later minor", None))
        if gb[2] is not None:
            ctx.clause("patch-suffix-exact-only")
            if got not in (f"{M}.{mi}.{p}", f"{M}.{mi}.{p}-{sfx}" if sfx else None):
                problems.append(("patch-suffix-exact-only", f"version {version} got patch-level branch {got!r} which is not an exact match", None))
    if ver and got == "master":
        ctx.clause("master-only-when-newer")
        blockers = sorted(n for n in names if parse_branch(n) and not_older(parse_branch(n), ver))
        if blockers:
            problems.append(("master-only-when-newer", f"version {version} got master although versioned branch(es) {blockers} are not older than it", None))
    if len(branches) >= 2:
        ctx.clause("order-invariance")
        got2, exc2 = call_best_match(list(reversed(branches)), version)
        if (got2, exc2) != (got, exc):
            problems.append(("order-invariance", f"best_match depends on the order of the branches: {got!r} vs {got2 or exc2!r} for the reversed list", None))
    ctx.clause("unrelated-invariance")
    got3, exc3 = call_best_match(list(branches) + ["zz-unrelated"], version)
    if (got3, exc3) != (got, exc):
        problems.append(("unrelated-invariance", f"adding an unrelated branch changes the answer: {got!r} vs {got3 or exc3!r}", None))
    return problems, got, exc, rule


def fmt(allowed):
    return " or ".join(sorted(("no branch" if a is None else repr(a)) for a in allowed))


def witness_of(branches, version, clause):
    """The witness dict for `clause` failing on this input, or None when it does not fail."""
    problems, got, exc, rule = check_match(_Null(), branches, version)
    if not any(p[0] == clause for p in problems):
        return None
    allowed = reference(branches, version)[0]
    return {"kind": "match", "branches": list(branches), "version": version, "got": got, "exception": exc, "allowed": sorted(allowed, key=repr), "rule": rule}


def shrink_branches(branches, version, clause, key):
    """Greedy removal of branches while the same clause fails, the documented answer stays the same and the mechanism key stays the same
    (so shrinking cannot turn a new defect into a known one)."""
    branches = list(branches)
    documented = reference(branches, version)[0]
    changed = True
    while changed:
        changed = False
        for i in range(len(branches)):
            cand = branches[:i] + branches[i + 1:]
            w = witness_of(cand, version, clause)
            if w is not None and reference(cand, version)[0] == documented and classify({"clause": clause, "witness": w, "msg": ""}) == key:
                branches, changed = cand, True
                break
    return branches


def branch_features(branches):
    feats = set()
    names = set(branches)
    if "master" not in names:
        feats.add("master-absent")
    for n in names:
        b = parse_branch(n)
        if b is None and n != "master":
            feats.add("suffix-without-patch-branch" if _AMBIGUOUS.match(n) else "unrelated-branch")
        elif b and b[1] == 0 and b[2] is None:
            feats.add("minor0-branch")
    return feats


_SHRUNK = {}


def match_case(ctx, branches, version, sample=True):
    problems, got, exc, rule = check_match(ctx, branches, version)
    feats = branch_features(branches)
    feats.add("junk-version" if rule == "junk" else f"rule:{rule}")
    ctx.case((branches, version), len(branches) >= 2 and parse_version(version) is not None, feats)
    ctx.distinct("rule x result-kind", (rule, "exc" if exc else ("none" if got is None else ("master" if got == "master" else "versioned"))))
    if sample and len(branches) <= 5:
        ctx.sample({"branches": branches, "version": version, "best_match": got if exc is None else exc, "rule": rule}, tag=rule)
    for clause, msg, detail in problems[:3]:
        allowed0 = reference(branches, version)[0]
        w0 = {"kind": "match", "branches": list(branches), "version": version, "got": got, "exception": exc, "allowed": sorted(allowed0, key=repr), "rule": rule}
        key = classify({"clause": clause, "witness": w0, "msg": msg})
        _SHRUNK[(clause, key)] = _SHRUNK.get((clause, key), 0) + 1
        if _SHRUNK[(clause, key)] > 3:  # the runner keeps three witnesses per mechanism; later ones are only counted
            ctx.violation(clause, w0, msg)
            continue
        small = shrink_branches(branches, version, clause, key)
        w = witness_of(small, version, clause) or w0
        if w["branches"] != list(branches):
            msg += f" [shrunk to branches={w['branches']}: {'got ' + repr(w['got']) if w['exception'] is None else 'raised ' + w['exception']}, documented {fmt(set(w['allowed']))}]"
        ctx.violation(clause, w, msg)
    return problems


# ---------------------------------------------------------------------------------------------------------
# workload 1a: exhaustive small universe
def universe_names():
    names = []
    for M in (7, 8):
        names.append(f"{M}")
        names += [f"{M}.{m}" for m in (0, 1, 2)]
        names += [f"{M}.{m}.{p}" for m in (0, 1) for p in (0, 1)]
        names.append(f"{M}.0.0-rc1")
    return names + ["master", "main"]


def universe_versions():
    vs = [f"{M}.{m}.{p}{s}" for M in (6, 7, 8, 9) for m in (0, 1, 2, 3) for p in (0, 1) for s in ("", "-rc1")]
    return vs + [None, "", "serverless"]


def run_universe(ctx):
    names, vs = universe_names(), universe_versions()
    kmax = int(ctx.budget.get("universe_max", 3))
    idx = 0
    for k in range(kmax + 1):
        for combo in itertools.combinations(names, k):
            idx += 1
            if idx % ctx.nshards != ctx.shard:
                continue
            if ctx.time_left() < 2:
                ctx.exhaustive["small-universe"] = False
                ctx.note(f"shard {ctx.shard}: small universe not finished within the time budget (stopped at set {idx})")
                return
            branches = list(combo)
            for v in vs:
                match_case(ctx, branches, v, sample=False)
    ctx.exhaustive["small-universe"] = True
    if ctx.shard == 0:
        ctx.note(f"small universe: all subsets of <= {kmax} of {len(names)} names {names} x {len(vs)} versions, partitioned over {ctx.nshards} shards")


# ---------------------------------------------------------------------------------------------------------
# workload 1a': the literal examples of docs/track.rst (they also validate the reference itself) and the two inputs of DESIGN.md section 5 item 3
DOC_EXAMPLES = [
    (["master", "7", "7.2", "7.11"], "7.10.2", "7.2"),
    (["master", "7", "7.2", "7.11"], "7.12.1", "7.11"),
    (["master", "5", "6", "7"], "7.11.0", "7"),
    (["master", "7.0.0-beta1", "7.3", "6"], "7.0.0-beta1", "7.0.0-beta1"),
    (["master", "7.0.0-beta1", "7.3", "6"], "7.3.0", "7.3"),
    (["master", "7.0.0-beta1", "7.3", "6"], "7.10.2", "7.3"),
    (["master", "7.0.0-beta1", "7.3", "6"], "6.4.0", "6"),
    (["master", "7.0.0-beta1", "7.3", "6"], "6.8.13", "6"),
]
SEED_INPUTS = [(["8.0", "7", "master"], "8.3.1"), (["7.0", "7.2", "6"], "7.1.0"), (["7", "7-foo", "master"], "7.3.0")]


def run_examples(ctx):
    for branches, version, documented in DOC_EXAMPLES:
        if reference(branches, version)[0] != {documented}:
            ctx.mark_inconclusive(f"the reference disagrees with docs/track.rst: {branches}, {version} -> {reference(branches, version)[0]}, documented {documented!r}")
        match_case(ctx, branches, version, sample=False)
        ctx.feature("doc-example")
    for branches, version in SEED_INPUTS:
        match_case(ctx, branches, version, sample=False)


# ---------------------------------------------------------------------------------------------------------
# workload 1b: random branch sets / versions
SUFFIXES = ["SNAPSHOT", "beta1", "rc1", "alpha2", "a-b"]
UNRELATED = ["main", "trunk", "feature/x", "7.x", "v7.1", "release-8", "8.1.2.3", "x-7.0", "7.1.x", "develop", "1.2.3.4-foo", "8.", "7_1"]
JUNK_VERSIONS = ["7", "7.1", "abc", "7.1.x", "latest", " 7.1.0", "v7.1.0", "7.1.0-", "master", "8.x"]


def pick_minor(rng):
    return 0 if rng.random() < 0.3 else rng.randint(0, 12)


def pick_patch(rng):
    return 0 if rng.random() < 0.45 else rng.randint(0, 4)


def gen_branches(rng, maxn=8):
    majors = rng.sample(range(0, 10), rng.choice([1, 1, 2, 2, 3])) if rng.random() < 0.1 else rng.sample(range(1, 10), rng.choice([1, 1, 2, 2, 3]))
    n = rng.choice([0, 1, 2, 2, 3, 3, 4, 4, 5, 6, 7, 8])
    n = min(n, maxn)
    out = []
    for _ in range(n):
        M = rng.choice(majors)
        r = rng.random()
        if r < 0.10:
            b = "master"
        elif r < 0.17:
            b = rng.choice(UNRELATED)
        elif r < 0.182:
            b = rng.choice([f"{M}-backport", f"{M}.{pick_minor(rng)}-SNAPSHOT", f"{M + 1}-x"])
        elif r < 0.42:
            b = f"{M}"
        elif r < 0.80:
            b = f"{M}.{pick_minor(rng)}"
        elif r < 0.92:
            b = f"{M}.{pick_minor(rng)}.{pick_patch(rng)}"
        else:
            b = f"{M}.{pick_minor(rng)}.{pick_patch(rng)}-{rng.choice(SUFFIXES)}"
        if b not in out:
            out.append(b)
    if "master" not in out and rng.random() < 0.6:
        out.insert(rng.randint(0, len(out)), "master")
    return out, majors


def gen_version(rng, branches, majors):
    r = rng.random()
    if r < 0.05:
        return rng.choice(UNKNOWN_VERSIONS)
    if r < 0.08:
        return rng.choice(JUNK_VERSIONS)
    parsed = [b for b in map(parse_branch, branches) if b]
    r = rng.random()
    if r < 0.72 and parsed:
        M = rng.choice(parsed)[0]
    elif r < 0.8:
        M = max([b[0] for b in parsed] + majors) + rng.choice([1, 1, 2])
    else:
        M = rng.randint(0, 10)
    same = [b for b in parsed if b[0] == M and b[1] is not None]
    if same and rng.random() < 0.75:
        b = rng.choice(same)
        mi = max(0, b[1] + rng.choice([-1, 0, 0, 1, 1, 2, 5]))
        p = b[2] if b[2] is not None and rng.random() < 0.6 else pick_patch(rng)
        sfx = b[3] if b[3] is not None and rng.random() < 0.6 else (rng.choice(SUFFIXES) if rng.random() < 0.2 else None)
    else:
        mi, p = rng.choice([0, 0, 1, 2, 3, 7, 10, 13]) if rng.random() < 0.5 else pick_minor(rng), pick_patch(rng)
        sfx = rng.choice(SUFFIXES) if rng.random() < 0.2 else None
    return f"{M}.{mi}.{p}" + (f"-{sfx}" if sfx else "")


def random_case(ctx, rng):
    branches, majors = gen_branches(rng)
    version = gen_version(rng, branches, majors)
    match_case(ctx, branches, version)


# ---------------------------------------------------------------------------------------------------------
# workload 2: real git repositories
SCENARIOS = ["local-only", "fresh-clone", "clone-fetch", "clone-offline"]
TARGETS = ["prior-minor", "prior-minor-0", "exact", "major", "master", "tag", "error", "local-fallback", "any"]
_GIT_ENV_READY = False


def git_env(scratch):
    global _GIT_ENV_READY
    if _GIT_ENV_READY:
        return
    cfg = os.path.join(str(scratch), "gitconfig")
    with open(cfg, "w") as f:
        f.write("[user]\n\tname = verif\n\temail = verif@example.org\n[advice]\n\tdetachedHead = false\n[init]\n\tdefaultBranch = trunk\n[gc]\n\tauto = 0\n")
    os.environ.update(
        {
            "GIT_CONFIG_GLOBAL": cfg, "GIT_CONFIG_NOSYSTEM": "1", "GIT_TERMINAL_PROMPT": "0", "LC_ALL": "C",
            "GIT_AUTHOR_NAME": "verif", "GIT_AUTHOR_EMAIL": "verif@example.org", "GIT_AUTHOR_DATE": "1700000000 +0000",
            "GIT_COMMITTER_NAME": "verif", "GIT_COMMITTER_EMAIL": "verif@example.org", "GIT_COMMITTER_DATE": "1700000000 +0000",
        }
    )
    _GIT_ENV_READY = True


def git(cwd, *args, data=None, check=True):
    p = subprocess.run(["git", "-C", str(cwd), *args], input=data, capture_output=True, check=False)
    if check and p.returncode != 0:
        raise RuntimeError(f"harness git {' '.join(args)} failed in {cwd}: {p.stderr.decode(errors='replace')[-300:]}")
    return p.returncode, p.stdout.decode()


def import_refs(repo_dir, heads=(), tags=()):
    """One root commit per ref, each with a file `marker` that names the ref."""
    out = []
    for kind, name in [("heads", h) for h in heads] + [("tags", t) for t in tags]:
        body = f"{kind}:{name}\n"
        out.append(
            f"commit refs/{kind}/{name}\ncommitter verif <verif@example.org> 1700000000 +0000\ndata 2\nc\n\nM 100644 inline marker\ndata {len(body.encode())}\n{body}\n"
        )
    if out:
        git(repo_dir, "fast-import", "--quiet", "--force", data="".join(out).encode())


def read_refs(repo_dir):
    _, out = git(repo_dir, "for-each-ref", "--format=%(refname) %(objectname)")
    local, remote, tags = [], [], {}
    for line in out.splitlines():
        ref, sha = line.rsplit(" ", 1)
        if ref.startswith("refs/heads/"):
            local.append(ref[len("refs/heads/"):])
        elif ref.startswith("refs/remotes/origin/") and ref != "refs/remotes/origin/HEAD":
            remote.append(ref[len("refs/remotes/origin/"):])
        elif ref.startswith("refs/tags/"):
            tags[ref[len("refs/tags/"):]] = sha
    return local, remote, tags


def read_head(repo_dir):
    rc, out = git(repo_dir, "symbolic-ref", "-q", "--short", "HEAD", check=False)
    branch = out.strip() if rc == 0 else None
    rc, out = git(repo_dir, "rev-parse", "-q", "--verify", "HEAD", check=False)
    sha = out.strip() if rc == 0 else None
    try:
        with open(os.path.join(str(repo_dir), "marker")) as f:
            marker = f.read().strip()
    except OSError:
        marker = None
    return branch, sha, marker


def tag_candidates(version):
    ver = parse_version(version)
    if not ver:
        return []
    M, mi, p, sfx = ver
    return ([f"v{M}.{mi}.{p}-{sfx}"] if sfx else []) + [f"v{M}.{mi}.{p}", f"v{M}.{mi}", f"v{M}"]


def git_reference(remote, local, tags, version, has_remote, zero_is_a_minor=True):
    """Allowed final states: ('branch', name) | ('tag', name) | ('error',). `remote` = remote-tracking branches known to the clone."""
    allowed, decided_by = set(), None
    stages = ([("remote", remote)] if has_remote else []) + [("local", local)]
    for stage, names in stages:
        ans, rule = reference(names, version, zero_is_a_minor)
        if ans is None:  # docs silent for this version
            return None, "junk"
        fall_through = False
        for a in ans:
            if a is None:
                fall_through = True
            elif a in names:
                allowed.add(("branch", a))
                decided_by = decided_by or f"{stage}:{rule}"
            else:  # master demanded but this stage has no master: undocumented - error, a master found elsewhere, or the next stage
                allowed.add(("error",))
                if a in remote or a in local:
                    allowed.add(("branch", a))
                fall_through = True
        if not fall_through:
            return allowed, decided_by
    matching = [t for t in tag_candidates(version) if t in tags]
    for t in matching:
        allowed.add(("tag", t))
    if not matching or has_remote:
        allowed.add(("error",))
    return allowed, decided_by or ("tag" if matching else "error")


def gen_git_case(rng, scenario, target):
    """-> case dict. Rejection sampling over the same generators as the differential workload until the targeted outcome is what the reference expects."""
    has_remote = scenario != "local-only"
    for _ in range(4000):
        first, majors = gen_branches(rng, maxn=5)
        if target in ("prior-minor-0",) and rng.random() < 0.8:
            M = rng.choice(majors)
            first = [b for b in first if b != f"{M}.0"] + [f"{M}.0"]
        first = [b for b in first if not b.endswith(".") and (not _AMBIGUOUS.match(b) or rng.random() < 0.3)]
        extra = [b for b in gen_branches(rng, maxn=3)[0] if b not in first and not b.endswith(".")] if rng.random() < 0.6 else []
        if has_remote and target == "local-fallback":
            remote, local_only = extra, first
            remote = [b for b in remote if b != "master"] or ["trunk"]
        elif has_remote:
            remote, local_only = first, ([] if scenario == "fresh-clone" else extra[:2])
        else:
            remote, local_only = [], first
        if has_remote and not remote:
            remote = ["trunk"]
        if not has_remote and not local_only:
            local_only = ["trunk"]
        version = gen_version(rng, first, majors)
        if target == "master" and rng.random() < 0.3:
            version = rng.choice(UNKNOWN_VERSIONS)
        if parse_version(version) is None and version not in UNKNOWN_VERSIONS:
            continue
        # unrelated branches in a namespace whose LAST path segment is a branch name that would outrank the right answer
        # ("backport/8.3", "users/alice/9"): the whole name is the branch, so they must never influence the choice
        ver = parse_version(version)
        decoys = []
        if ver and rng.random() < 0.5:
            M, mi, p, _ = ver
            names = set(remote) | set(local_only)
            for last in rng.sample([f"{M}.{mi}.{p}", f"{M}.{mi}", f"{M}", f"{M + 1}"], rng.randint(1, 2)):
                if last not in names:
                    decoys.append(f"{rng.choice(['backport', 'users/alice', 'feature'])}/{last}")
            decoys = [d for d in dict.fromkeys(decoys) if d not in names]
            if has_remote and (target != "local-fallback" or rng.random() < 0.5):
                remote = remote + decoys
            else:
                local_only = local_only + decoys
        start = rng.choice(remote if has_remote else local_only)
        later_remote, dropped_remote = [], []
        if scenario in ("clone-fetch", "clone-offline") and len(remote) > 1:
            # branches that appear on / disappear from the remote after the clone was made
            k = rng.randint(0, len(remote) - 1)
            rest = [b for b in remote if b != start]
            rng.shuffle(rest)
            later_remote = rest[:k] if rng.random() < 0.7 else []
            if rng.random() < 0.3:
                cand = [b for b in remote if b != start and b not in later_remote]
                dropped_remote = cand[:1]
        tags = []
        cands = tag_candidates(version)
        if target == "tag" and cands:
            tags = rng.sample(cands, rng.randint(1, min(2, len(cands))))
        elif target not in ("error",) and cands and rng.random() < 0.3:
            tags = [rng.choice(cands)]
        for _ in range(rng.randint(0, 3)):
            t = rng.choice([f"v{rng.randint(1, 9)}", f"v{rng.randint(1, 9)}.{pick_minor(rng)}", f"v{rng.randint(1, 9)}.{pick_minor(rng)}.{pick_patch(rng)}", "snapshot-1", "7.1-old"])
            if t not in tags and (target != "error" or t not in cands):
                tags.append(t)
        case = {
            "kind": "git", "scenario": scenario, "remote": remote, "later_remote": later_remote, "dropped_remote": dropped_remote,
            "local_only": local_only, "tags": tags, "start": start, "version": version, "decoys": decoys, "dirty": rng.random() < 0.15,
        }
        exp_local, exp_remote = model_refs(case)
        allowed, why = git_reference(exp_remote, exp_local, model_tags(case), version, has_remote)
        if allowed is None:
            continue
        kinds = {a[0] for a in allowed}
        rule = why.split(":")[-1]
        ok = {
            "prior-minor": kinds == {"branch"} and rule == "prior-minor",
            "prior-minor-0": kinds == {"branch"} and rule == "prior-minor-0",
            "exact": kinds == {"branch"} and rule.startswith("exact"),
            "major": kinds == {"branch"} and rule == "major",
            "master": kinds == {"branch"} and rule.startswith("master"),
            "tag": "tag" in kinds and "branch" not in kinds,
            "error": kinds == {"error"},
            "local-fallback": kinds == {"branch"} and why.startswith("local:"),
            "any": True,
        }[target]
        if ok:
            case["target"] = target
            return case
    return None


def model_refs(case):
    """What the clone should know when update() runs: (local branches, remote-tracking branches)."""
    sc = case["scenario"]
    if sc == "local-only":
        return list(case["local_only"]), []
    at_clone = [b for b in case["remote"] if b not in case["later_remote"]]
    now = [b for b in case["remote"] if b not in case["dropped_remote"]]
    if sc == "fresh-clone":
        return [case["start"]], list(case["remote"])
    local = [case["start"]] + [b for b in case["local_only"] if b != case["start"]]
    return local, (at_clone if sc == "clone-offline" else now)


def model_tags(case):
    """Tags the clone knows when update() runs (an offline clone has not seen the tags pushed after it was made)."""
    return case["tags"][:1] if case["scenario"] == "clone-offline" else list(case["tags"])


def build_git_case(root, case):
    """Builds the repositories; returns the RallyRepository ready for update()."""
    sc = case["scenario"]
    os.makedirs(root)
    repo_dir = os.path.join(root, "repos", "default")
    if sc == "local-only":
        os.makedirs(repo_dir)
        git(root, "init", "-q", "-b", case["start"], repo_dir)
        import_refs(repo_dir, case["local_only"], case["tags"])
        git(repo_dir, "reset", "-q", "--hard")
        return rally_repo.RallyRepository(None, os.path.join(root, "repos"), "default", "tracks", offline=False)
    bare = os.path.join(root, "remote.git")
    git(root, "init", "-q", "--bare", "-b", case["start"], bare)
    if sc == "fresh-clone":
        import_refs(bare, case["remote"], case["tags"])
        return rally_repo.RallyRepository(bare, os.path.join(root, "repos"), "default", "tracks", offline=False)  # the real git.clone
    import_refs(bare, [b for b in case["remote"] if b not in case["later_remote"]], case["tags"][:1])
    rally_repo.RallyRepository(bare, os.path.join(root, "repos"), "default", "tracks", offline=False)  # earlier Rally invocation: clone
    import_refs(repo_dir, [b for b in case["local_only"] if b != case["start"]])
    import_refs(bare, case["later_remote"], case["tags"][1:])
    for b in case["dropped_remote"]:
        git(bare, "update-ref", "-d", f"refs/heads/{b}")
    return rally_repo.RallyRepository(bare, os.path.join(root, "repos"), "default", "tracks", offline=(sc == "clone-offline"))  # the real git.fetch


def git_case(ctx, case, root):
    """Builds the case, runs the real update(), evaluates the git clauses. Returns [(clause, msg)]."""
    problems = []
    has_remote = case["scenario"] != "local-only"
    version = case["version"]
    r = build_git_case(root, case)
    repo_dir = r.repo_dir
    local, remote, tags = read_refs(repo_dir)
    exp_local, exp_remote = model_refs(case)
    stale = sorted(set(remote) - set(exp_remote))
    if case["scenario"] == "clone-fetch" and sorted(local) == sorted(exp_local) and stale and set(stale) <= set(case["dropped_remote"]) and not (set(exp_remote) - set(remote)):
        # rally itself refreshed the clone (RallyRepository fetches when it is created): a branch that was deleted in the remote repository is
        # no branch of the repository any more - it must be gone from what rally chooses from
        ctx.clause("git-knows-the-current-remote-branches")
        problems.append(("git-knows-the-current-remote-branches", f"clone-fetch repository: after rally's own fetch the clone still lists the remote branch(es) {stale} that were deleted in the "
                                                                   f"remote repository (remote now: {sorted(exp_remote)})"))
        remote = [b for b in remote if b not in stale]
    elif case["scenario"] == "clone-fetch" and case["dropped_remote"]:
        ctx.clause("git-knows-the-current-remote-branches")
    if sorted(local) != sorted(exp_local) or sorted(remote) != sorted(exp_remote):
        raise RuntimeError(f"harness: refs in the clone {sorted(local)} / {sorted(remote)} differ from the model {sorted(exp_local)} / {sorted(exp_remote)} for {case}")
    tags_known = tags
    if sorted(tags_known) != sorted(model_tags(case)):
        raise RuntimeError(f"harness: tags in the clone {sorted(tags_known)} differ from the model {sorted(model_tags(case))} for {case}")
    before_branch, _, _ = read_head(repo_dir)
    allowed, why = git_reference(remote, local, list(tags_known), version, has_remote)
    if case.get("dirty"):
        # an uncommitted local edit to a file that differs between all refs: git refuses to switch away from the current branch, so whenever
        # the right answer is another branch or a tag the only acceptable outcome is a reported error - never carrying on where the clone is
        with open(os.path.join(str(repo_dir), "marker"), "w") as f:
            f.write("local edit\n")
        allowed = {a if (a[0] == "branch" and a[1] == before_branch) or a[0] == "error" else ("error",) for a in allowed}
    error = None
    try:
        r.update(distribution_version=version)
    except Exception as e:  # pylint: disable=broad-except
        error = e
    branch, sha, marker = read_head(repo_dir)
    if error is not None:
        outcome = ("error",)
    elif branch is not None:
        outcome = ("branch", branch)
    else:
        at = sorted(t for t, s in tags_known.items() if s == sha)
        hit = [t for t in at if ("tag", t) in allowed]
        outcome = ("tag", hit[0] if hit else (at[0] if at else f"detached@{sha}"))
    observed = {
        "outcome": list(outcome), "exception": None if error is None else f"{type(error).__name__}: {str(error)[:160]}",
        "local": sorted(local), "remote_tracking": sorted(remote), "tags": sorted(tags_known), "was_on": before_branch, "decided_by": why,
        "allowed": sorted([list(a) for a in allowed]),
    }
    kinds = {a[0] for a in allowed}
    clause = (
        "git-branch-checked-out" if kinds == {"branch"} else
        "git-tag-fallback" if "tag" in kinds and "branch" not in kinds else
        "git-error-when-nothing-qualifies" if kinds == {"error"} else "git-undocumented-mix"
    )
    ctx.clause(clause)
    if outcome not in allowed:
        want = " or ".join(f"{a[0]} {a[1]}" if len(a) > 1 else "a reported error" for a in sorted(allowed))
        have = f"raised {observed['exception']}" if error is not None else f"{outcome[0]} {outcome[1]} is checked out"
        problems.append((clause, f"{case['scenario']} repository, version {version!r}, local {sorted(local)}, remote {sorted(remote)}, tags {sorted(tags_known)}: expected {want}; {have}"))
    if error is not None:
        ctx.clause("git-error-is-reported")
        if not isinstance(error, exceptions.RallyError):
            problems.append(("git-error-is-reported", f"update({version!r}) died with {observed['exception']} instead of reporting a Rally error (local {sorted(local)}, remote {sorted(remote)})"))
    elif not case.get("dirty"):
        ctx.clause("git-worktree-matches-head")
        want_marker = f"heads:{branch}" if branch is not None else (f"tags:{outcome[1]}" if outcome[0] == "tag" else None)
        if want_marker is not None and marker != want_marker:
            problems.append(("git-worktree-matches-head", f"HEAD is {outcome} but the working tree holds the files of {marker!r}"))
    feats = {f"git:{case['scenario']}", f"git-target:{case.get('target', 'any')}"}
    if case.get("decoys"):
        feats.add("git:namespaced-decoy-branch")
    if case.get("dirty"):
        feats.add("git:dirty-clone-needs-switch" if ("error",) in allowed and kinds != {"error"} or allowed == {("error",)} and why != "error" else "git:dirty-clone-stays")
    if outcome[0] == "branch":
        feats.add("git:switched-branch" if outcome[1] != before_branch else "git:already-on-branch")
    return problems, observed, feats


def run_git_case(ctx, case, idx):
    root = os.path.join(str(ctx.scratch), f"git-{idx}")
    try:
        problems, observed, feats = git_case(ctx, case, root)
    except Exception as e:  # pylint: disable=broad-except
        # only building the repositories / reading refs can raise here (update() itself is guarded): not a verdict
        ctx.mark_inconclusive(f"git case {idx} of shard {ctx.shard} could not be built: {type(e).__name__}: {str(e)[:300]}")
        return []
    finally:
        shutil.rmtree(root, ignore_errors=True)
    canon = [case.get(k) for k in ("scenario", "remote", "later_remote", "dropped_remote", "local_only", "tags", "start", "version")]
    ctx.case(canon, True, feats)
    ctx.distinct("git scenario x decided-by x outcome", (case["scenario"], observed["decided_by"], observed["outcome"][0]))
    if ctx.shard % 2 == 0:  # odd shards keep their sample slots for best_match cases
        small = {k: observed[k] for k in ("local", "remote_tracking", "tags", "was_on", "outcome")}
        ctx.sample(dict(small, git=case["scenario"], version=case["version"]), tag=f"git:{case['scenario']}:{observed['outcome'][0]}")
    for clause, msg in problems[:3]:
        ctx.violation(clause, {"kind": "git", "case": case, "observed": observed}, msg)
    return problems


# ---------------------------------------------------------------------------------------------------------
def run_shard(ctx):
    git_env(ctx.scratch)
    # git workload first (bounded number of cases, fixed scenario x target rotation so that every combination is reached)
    ngit = int(ctx.budget.get("git_cases", 12))
    combos = [(s, t) for t in TARGETS for s in SCENARIOS if not (t == "local-fallback" and s in ("local-only", "fresh-clone"))]
    git_deadline = 0.45 * float(ctx.budget.get("seconds", 30))
    for j in range(ngit):
        if ctx.time_left() < float(ctx.budget.get("seconds", 30)) - git_deadline:
            ctx.note(f"shard {ctx.shard}: git workload stopped after {j} of {ngit} repositories (time)")
            break
        scenario, target = combos[(ctx.shard * ngit + j) % len(combos)]
        case = gen_git_case(ctx.case_rng(f"git-{j}"), scenario, target)
        if case is None:
            ctx.note(f"no git case generated for {scenario}/{target}")
            continue
        run_git_case(ctx, case, j)
    if ctx.shard == 0:
        run_examples(ctx)
    run_universe(ctx)
    i = 0
    while ctx.more():
        random_case(ctx, ctx.case_rng(i))
        i += 1


_INT_NONE = "TypeError: int() argument must be"  # int(None): components() of a name whose minor/patch group is absent although a suffix matched


def classify(v):
    """Mechanism keys for known findings (predicates over the witness)."""
    w = v["witness"]
    if w.get("kind") == "match":
        branches, version = w["branches"], w["version"]
        if (w.get("exception") or "").startswith(_INT_NONE) and any(_AMBIGUOUS.match(b) for b in branches):
            return "suffix-without-patch-branch-typeerror"
        ver = parse_version(version)
        if v["clause"] == "matches-reference" and ver and w.get("exception") is None:
            zero = f"{ver[0]}.0"
            allowed, rule = reference(branches, version)
            if rule == "prior-minor-0" and allowed == {zero} and w["got"] != zero:
                # the answer is exactly what the documented order gives when a MAJOR.0 branch cannot be the "nearest prior minor"
                without, _ = reference(branches, version, zero_is_a_minor=False)
                if w["got"] in without:
                    return "minor-zero-branch-ignored-as-prior-minor"
        return None
    if w.get("kind") == "git":
        obs, case = w["observed"], w["case"]
        every = obs["local"] + obs["remote_tracking"]
        if (obs.get("exception") or "").startswith(_INT_NONE) and any(_AMBIGUOUS.match(b) for b in every):
            return "suffix-without-patch-branch-typeerror"
        ver = parse_version(case["version"])
        if ver and v["clause"] == "git-branch-checked-out":
            zero = f"{ver[0]}.0"
            has_remote = case["scenario"] != "local-only"
            allowed, why = git_reference(obs["remote_tracking"], obs["local"], obs["tags"], case["version"], has_remote)
            if allowed == {("branch", zero)} and why.endswith("prior-minor-0") and tuple(obs["outcome"]) != ("branch", zero):
                without, _ = git_reference(obs["remote_tracking"], obs["local"], obs["tags"], case["version"], has_remote, zero_is_a_minor=False)
                if tuple(obs["outcome"]) in without:
                    return "minor-zero-branch-ignored-as-prior-minor"
    return None


def replay(ctx, rec):
    w = rec["witness"]
    if w.get("kind") == "git":
        git_env(ctx.scratch)
        run_git_case(ctx, w["case"], "replay")
    else:
        match_case(ctx, w["branches"], w["version"])


MANIFEST = {
    "text": "Exploration with an exhaustive part: the real versions.best_match is compared with a 30-line reference of the documented precedence on every "
    "(branch set of <= 3 names [thorough: <= 5] from a 20-name universe over majors 7/8, minors 0-2, patch and suffix branches, master, main) x 67 versions "
    "(~9*10^4 cases in quick, ~1.5*10^6 in thorough, exhaustive) and on ~10^6 (quick) / ~3*10^7 (thorough) random sets incl. minor/patch 0, unrelated names, unknown and junk versions; in addition "
    "~380 (quick) / ~4000 (thorough) real git repositories (local-only, fresh clone, existing clone + fetch with branches added/removed remotely, offline clone; "
    "v-tags; unrelated namespaced branches such as backport/8.3 whose last path segment would outrank the right answer) are driven through the real RallyRepository.update and the checked-out branch / tag / raised error is compared with the same reference. "
    "Holds on the cases produced, not beyond.",
    "note": "Trusts the reference written from docs/track.rst and the statement, git 2.39 + fast-import for building repositories. Where the documentation is silent "
    "(master vs nothing with only older patch-level branches; master demanded but absent; suffix-without-patch names; non-version strings; precedence among v-tags) "
    "several outcomes are accepted.",
    "technique": "runtime monitor: reference-model (differential) oracle + never-clauses of the statement + metamorphic (order, unrelated branch) relations over exhaustive and "
    "random inputs; end-to-end observation of real git repositories after RallyRepository.update",
    "design_ref": "DESIGN.md section 4 C15",
}
