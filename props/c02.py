"""C02 - every task gets exactly its clients; clients are partitioned over workers.

Monitor: generated challenge schedules (real Task / Parallel / Operation objects, optionally produced by the real
track reader, optionally passed through the real TaskFilterTrackProcessor) are handed to the real Allocator; the
allocation matrix, the join points and the per-step task sets are checked against invariants and a reference
allocation (element -> multiset of (task, client index in task)). A real Driver object (collaborators stubbed) then
runs start_benchmark() and is walked through every join point, so its step / progress bookkeeping is observed too.
Host layouts are handed to the real calculate_worker_assignments and the result is checked for being an exact,
contiguous, balanced partition with at most one worker per core.
"""
import collections
import types as pytypes

from esrally import config
from esrally.driver import driver
from esrally.utils import opts

from props import c02_gen as gen

ID = "C02"
LEVEL = "exploration"
RULE = (
    "seeded generator; even cases are schedules (1-12 elements, sequential tasks with 1-64 clients, parallel elements with 1-5 sub-tasks, "
    "client cap none or 1..sum+3, completed-by none/name/any, 80% passed through the real task filter with 1-4 include/exclude filters), "
    "odd cases are host layouts (1-8 hosts, 1-64 cores each, 1-2048 clients). A schedule is non-trivial with >= 2 elements and a parallel "
    "element or None padding; a layout with >= 2 hosts or more clients than cores on a host. distinct = hash of the case data"
)
ASSUMPTIONS = [
    "tasks are identified by object identity (task names are unique per challenge, as the track reader enforces)",
    "Driver collaborators (actor system, metrics store, telemetry, progress printer) are stubs; Driver.start_benchmark, joinpoint_reached, "
    "update_progress_message and finished are the real code and are called in the order DriverActor calls them",
    "'at most one worker per core' counts workers that received at least one client (Driver.start_benchmark creates no worker for an empty list); "
    "'loads differ by at most one' is evaluated over the worker lists the function returns for one host",
]
REQUIRED_CLAUSES = [
    "rectangular", "join-aligned", "exact-cover", "steps-progress", "driver-progress", "driver-clients-exactly-once", "worker-view-exactly-once", "allocation-total-clients",
    "partition", "contiguous", "one-worker-per-core", "balanced",
]
REQUIRED_FEATURES = {
    "overcommit": 20, "cap-below-sum": 20, "cap-above-sum": 20, "completed-by-name": 20, "completed-by-any": 20, "none-padding": 20,
    "filtered": 50, "parallel-emptied-by-filter": 10, "parallel-emptied-by-exclude": 10, "parallel-partially-filtered": 10, "clients-64": 5, "twelve-elements": 5,
    "built-by-loader": 10, "layout-more-cores-than-clients": 10, "layout-uneven": 20, "layout-eight-hosts": 5, "layout-clients-fewer-than-hosts": 3,
}
BUDGET = {
    "quick": {"cases": 40000, "seconds": 35},
    "thorough": {"cases": 2000000, "seconds": 420},
}

KEY_EMPTY_PARALLEL = "exclude-filter-leaves-empty-parallel"


# ----------------------------------------------------------------------------------------------------------------
# allocator monitor
# ----------------------------------------------------------------------------------------------------------------
def is_parallel(e):
    return bool(getattr(e, "nested", False))


def leaves(e):
    return list(e)  # the iteration protocol of schedule elements: a Task yields itself, a Parallel its sub-tasks


def render_matrix(matrix, limit=8):
    rows = []
    for row in matrix[:limit]:
        cells = []
        for c in row[:24]:
            if isinstance(c, driver.JoinPoint):
                cells.append(f"J{c.id}")
            elif isinstance(c, driver.TaskAllocation):
                cells.append(f"{c.task.name}#{c.client_index_in_task}")
            else:
                cells.append("-" if c is None else repr(c)[:20])
        rows.append(" ".join(cells))
    if len(matrix) > limit:
        rows.append(f"... {len(matrix) - limit} more clients")
    return rows


def check_allocator(ctx, schedule):
    """Invariants of the statement over the real Allocator. Returns (problems, info)."""
    problems = []
    info = {"elements": len(schedule)}
    alloc = driver.Allocator(schedule)
    ctx.clause("rectangular")
    try:
        matrix = alloc.allocations
        n = alloc.clients
    except Exception as e:  # "for any schedule": the allocator has to produce a matrix
        problems.append(("rectangular", f"Allocator.allocations raised {type(e).__name__}: {e}", None))
        return problems, info
    info["clients"] = n
    lengths = sorted({len(r) for r in matrix})
    if len(matrix) != n or n < 1 or len(lengths) != 1:
        problems.append(("rectangular", f"allocation matrix has {len(matrix)} rows for {n} clients with row lengths {lengths[:6]}", render_matrix(matrix)))

    # join points: same columns and same ids on every client; first and last entry of every row
    ctx.clause("join-aligned")
    jcols = None
    aligned = True
    for ci, row in enumerate(matrix):
        cols = [(i, c.id) for i, c in enumerate(row) if isinstance(c, driver.JoinPoint)]
        if jcols is None:
            jcols = cols
            ids = [c[1] for c in cols]
            if ids != list(range(len(ids))):
                aligned = False
                problems.append(("join-aligned", f"join point ids on client 0 are {ids[:12]}, expected consecutive ids from 0", None))
        elif cols != jcols:
            aligned = False
            problems.append(("join-aligned", f"client {ci} has its join points at (column, id) {cols[:8]} but client 0 at {jcols[:8]}", render_matrix(matrix)))
            break
        if not row or not isinstance(row[0], driver.JoinPoint) or not isinstance(row[-1], driver.JoinPoint):
            aligned = False
            problems.append(("join-aligned", f"client {ci}: the row does not start and end with a join point", render_matrix(matrix)))
            break
        bad = [c for c in row if c is not None and not isinstance(c, (driver.JoinPoint, driver.TaskAllocation))]
        if bad:
            aligned = False
            problems.append(("join-aligned", f"client {ci}: unexpected matrix entry {bad[0]!r:.80}", None))
            break

    # exact cover per element: between join point k and k+1 every (task, client index) of element k exactly once, nothing else
    observed = collections.defaultdict(collections.Counter)
    names = {}
    has_none = False
    rows_per_segment = collections.Counter()
    for row in matrix:
        k = -1
        for c in row:
            if isinstance(c, driver.JoinPoint):
                k += 1
            elif isinstance(c, driver.TaskAllocation):
                observed[k][(id(c.task), c.client_index_in_task)] += 1
                names[id(c.task)] = getattr(c.task, "name", "?")
            elif c is None:
                has_none = True
    info["none_padding"] = has_none
    for k, element in enumerate(schedule):
        ctx.clause("exact-cover")
        ref = collections.Counter()
        for t in leaves(element):
            names[id(t)] = t.name
            for i in range(t.clients):
                ref[(id(t), i)] += 1
        if observed.get(k, collections.Counter()) != ref:
            missing = [(names[t], i) for (t, i) in (ref - observed.get(k, collections.Counter()))][:6]
            extra = [(names[t], i) for (t, i) in (observed.get(k, collections.Counter()) - ref)][:6]
            elsewhere = [(names[t], i, kk) for kk, cnt in observed.items() if kk != k for (t, i) in cnt if (t, i) in ref][:6]
            problems.append(
                (
                    "exact-cover",
                    f"element {k}: (task, client index) pairs between join points {k} and {k + 1} differ from what the element requests: "
                    f"missing {missing}, surplus/duplicate {extra}" + (f", found between other join points (task, index, segment) {elsewhere}" if elsewhere else ""),
                    render_matrix(matrix),
                )
            )
            break
    stray = [kk for kk in observed if kk < 0 or kk >= len(schedule)]
    if stray:
        ctx.clause("exact-cover")
        problems.append(("exact-cover", f"task allocations outside of any schedule element (segments {stray[:5]})", render_matrix(matrix)))

    # steps and progress entries
    ctx.clause("steps-progress")
    try:
        steps = len(alloc.join_points) - 1
        tpj = alloc.tasks_per_joinpoint
    except Exception as e:
        problems.append(("steps-progress", f"join_points / tasks_per_joinpoint raised {type(e).__name__}: {e}", None))
        return problems, info
    info["steps"] = steps
    info["progress_entries"] = len(tpj)
    if steps != len(tpj):
        problems.append(("steps-progress", f"{steps} steps (join points - 1) but {len(tpj)} entries in tasks_per_joinpoint for a schedule of {len(schedule)} elements", None))
    elif steps != len(schedule):
        problems.append(("steps-progress", f"{steps} steps for a schedule of {len(schedule)} elements", None))
    else:
        for k, element in enumerate(schedule):
            got = sorted(id(t) for t in tpj[k])
            want = sorted(id(t) for t in leaves(element))
            if got != want:
                problems.append(
                    (
                        "steps-progress",
                        f"tasks_per_joinpoint[{k}] = {sorted(getattr(t, 'name', '?') for t in tpj[k])} but element {k} consists of {sorted(t.name for t in leaves(element))}",
                        None,
                    )
                )
                break
    info["aligned"] = aligned
    return problems, info


# ----------------------------------------------------------------------------------------------------------------
# the real Driver, walked through every join point
# ----------------------------------------------------------------------------------------------------------------
class _Actor:
    def __init__(self):
        self.started = []
        self.completed = 0

    def create_client(self, host, cfg, worker_id):
        return ("worker", worker_id, host)

    def start_worker(self, worker, worker_id, cfg, trk, client_allocations, client_contexts=None):
        self.started.append((worker_id, worker[2], client_allocations))

    def on_task_finished(self, m, waiting_period):
        pass

    def drive_at(self, worker, ts):
        pass

    def complete_current_task(self, worker):
        pass

    def on_benchmark_complete(self, m):
        self.completed += 1


class _Progress:
    def __init__(self, drv):
        self.drv = drv
        self.lines = []

    def print(self, message, progress):
        self.lines.append((self.drv.current_step, message))

    def finish(self):
        pass


class _Quiet:
    opened = False

    def __getattr__(self, name):
        return lambda *a, **k: None


_DRIVER_CFG = None


def _driver_cfg():
    global _DRIVER_CFG
    if _DRIVER_CFG is None:
        cfg = config.Config()
        cfg.add(config.Scope.application, "client", "options", opts.ClientOptions("timeout:60"))
        cfg.add(config.Scope.application, "track", "test.mode.enabled", True)
        _DRIVER_CFG = cfg
    return _DRIVER_CFG


def check_driver_walk(ctx, schedule, hosts, expected_totals=None):
    """start_benchmark() + one joinpoint_reached() per worker and join point on a real Driver; what it reports per step.
    expected_totals: per element, the number of clients the model says the element has (explicit cap, else the clients of the tasks that are left)."""
    problems = []
    info = {}
    actor = _Actor()
    d = driver.Driver(actor, _driver_cfg())
    d.progress_reporter = _Progress(d)
    d.metrics_store = _Quiet()
    d.telemetry = _Quiet()
    d.sample_post_processor = lambda samples: None
    d.challenge = pytypes.SimpleNamespace(schedule=schedule)
    d.load_driver_hosts = [dict(h) for h in hosts]
    ctx.clause("driver-progress")
    # the worker assignment the driver asks for is observed in place and held against the same contract as the stand-alone layouts
    original, calls = driver.calculate_worker_assignments, []

    def observed_assignments(host_configs, client_count):
        result = original(host_configs, client_count)
        calls.append(([dict(h) for h in host_configs], client_count, result))
        return result

    driver.calculate_worker_assignments = observed_assignments
    try:
        d.start_benchmark()
    except Exception as e:
        problems.append(("driver-progress", f"Driver.start_benchmark raised {type(e).__name__}: {e}", None))
        return problems, info
    finally:
        driver.calculate_worker_assignments = original
    for host_configs, client_count, result in calls:
        problems.extend(check_assignments(ctx, host_configs, client_count, result))
    info["assignment_calls"] = len(calls)
    # every client handed to exactly one worker, together with its own row of the matrix
    ctx.clause("driver-clients-exactly-once")
    seen = collections.Counter()
    wrong_row = []
    for worker_id, host, ca in actor.started:
        for a in ca.allocations:
            seen[a["client_id"]] += 1
            if not (0 <= a["client_id"] < len(d.allocations)) or a["tasks"] is not d.allocations[a["client_id"]]:
                wrong_row.append(a["client_id"])
    nclients = len(d.allocations)
    if seen != collections.Counter(range(nclients)) or wrong_row:
        lost = sorted(set(range(nclients)) - set(seen))[:8]
        dup = sorted(c for c, k in seen.items() if k > 1)[:8]
        problems.append(("driver-clients-exactly-once", f"{nclients} clients: not started on any worker {lost}, started more than once {dup}, started with another client's row {wrong_row[:8]}", None))
    workers = [(worker_id, [a["client_id"] for a in ca.allocations], ca) for worker_id, host, ca in actor.started]
    info["workers"] = len(workers)
    # what the workers will actually drive: the ClientAllocations object of every worker is read the way Worker.drive() reads it
    # (tasks(index) column by column); over all workers that must be every (task, client index) of every element exactly once, as
    # client of the row it sits in, and the join points must come out as join points
    ctx.clause("worker-view-exactly-once")
    width = len(d.allocations[0]) if d.allocations else 0
    driven = collections.Counter()
    view_problem = None
    for worker_id, cids, ca in workers:
        for idx in range(width):
            try:
                col = ca.tasks(idx)
                is_jp = ca.is_joinpoint(idx)
            except Exception as e:
                view_problem = f"worker {worker_id}: ClientAllocations.tasks({idx}) raised {type(e).__name__}: {e}"
                break
            want_jp = isinstance(d.allocations[cids[0]][idx], driver.JoinPoint)
            if not col:
                continue  # nothing but padding for this worker in this column: Worker.drive() skips it without asking
            if is_jp != want_jp:
                view_problem = f"worker {worker_id}: column {idx} is {'a' if want_jp else 'no'} join point in the matrix but is_joinpoint() says {is_jp}"
                break
            for c in col:
                if isinstance(c.task, driver.TaskAllocation):
                    if c.task is not d.allocations[c.client_id][idx]:
                        view_problem = f"worker {worker_id}: column {idx} hands client {c.client_id} an allocation that is not at ({c.client_id}, {idx}) of the matrix"
                    driven[(id(c.task.task), c.task.client_index_in_task)] += 1
        if view_problem:
            break
    if not view_problem:
        ref = collections.Counter()
        names = {}
        for element in schedule:
            for t in leaves(element):
                names[id(t)] = t.name
                for i in range(t.clients):
                    ref[(id(t), i)] += 1
        if driven != ref:
            missing = sorted((names.get(t, "?"), i) for (t, i) in (ref - driven))[:6]
            extra = sorted((names.get(t, "?"), i) for (t, i) in (driven - ref))[:6]
            view_problem = f"{len(workers)} workers would drive {sum(driven.values())} of {sum(ref.values())} (task, client index) pairs: never driven {missing}, driven more than once / unknown {extra}"
    if view_problem:
        problems.append(("worker-view-exactly-once", view_problem, None))
    # what every executor is told about the size of its element (ramp-up and pacing divide by it)
    for k, element in enumerate(schedule):
        if expected_totals is None:
            break
        want_total = expected_totals[k]
        if want_total is None:
            continue
        ctx.clause("allocation-total-clients")
        bad = [(c.task.name, c.client_index_in_task, c.total_clients) for row in d.allocations for c in row
               if isinstance(c, driver.TaskAllocation) and any(c.task is t for t in leaves(element)) and c.total_clients != want_total]
        if bad:
            problems.append(("allocation-total-clients", f"element {k} has {want_total} clients but its allocations carry total_clients {sorted({b[2] for b in bad})} (e.g. task {bad[0][0]} index {bad[0][1]})", None))
            break
    # walk
    reported = {}
    j = 0
    try:
        while actor.completed == 0 and j <= len(schedule) + 2:
            for worker_id, cids, ca in workers:
                row = d.allocations[cids[0]]
                jps = [c for c in row if isinstance(c, driver.JoinPoint)]
                if j >= len(jps):
                    raise _WalkStop(f"worker {worker_id} has no join point #{j} but the driver has not finished (current_step {d.current_step} of {d.number_of_steps})")
                d.joinpoint_reached(worker_id, 0.0, [driver.ClientAllocation(c, jps[j]) for c in cids])
            if not d.finished():
                d.update_progress_message()  # the periodic wake-up of DriverActor while a step is running
            j += 1
    except _WalkStop as e:
        problems.append(("driver-progress", str(e), None))
    except Exception as e:
        problems.append(
            (
                "driver-progress",
                f"progress reporting raised {type(e).__name__}: {e} at step {d.current_step + 1} of {d.number_of_steps} ({len(d.tasks_per_join_point)} progress entries)",
                {"exception": type(e).__name__},
            )
        )
    info["walk_steps"] = d.current_step
    if not problems:
        if actor.completed != 1 or d.current_step != len(schedule):
            problems.append(("driver-progress", f"after all join points: benchmark-complete sent {actor.completed}x, driver is at step {d.current_step} of a schedule with {len(schedule)} elements", None))
        else:
            for step, message in d.progress_reporter.lines:
                reported.setdefault(step, set()).add(message)
            for k, element in enumerate(schedule):
                want = sorted(t.name for t in leaves(element))  # generated names contain no comma
                got = {tuple(sorted(m[len("Running "):].split(","))) if m.startswith("Running ") else (m,) for m in reported.get(k, set())}
                if got != {tuple(want)}:
                    problems.append(("driver-progress", f"step {k}: progress line(s) {sorted(reported.get(k, set()))[:3]} but the element's tasks are {sorted(t.name for t in leaves(element))}", None))
                    break
    return problems, info


class _WalkStop(Exception):
    pass


# ----------------------------------------------------------------------------------------------------------------
# worker assignment monitor
# ----------------------------------------------------------------------------------------------------------------
def check_assignments(ctx, hosts, clients, result=None):
    problems = []
    ctx.clause("partition")
    if result is None:
        try:
            result = driver.calculate_worker_assignments([dict(h) for h in hosts], clients)
        except Exception as e:
            return [("partition", f"calculate_worker_assignments raised {type(e).__name__}: {e} for {clients} clients on cores {[h['cores'] for h in hosts]}", None)]
    cores = {}
    for h in hosts:
        cores[h["host"]] = cores.get(h["host"], 0) + h["cores"]
    flat = [c for a in result for w in a["workers"] for c in w]
    cnt = collections.Counter(flat)
    unknown = [a["host"] for a in result if a["host"] not in cores]
    if cnt != collections.Counter(range(clients)) or unknown:
        lost = sorted(set(range(clients)) - set(cnt))[:8]
        dup = sorted(c for c, k in cnt.items() if k > 1)[:8]
        alien = sorted(c for c in cnt if not (isinstance(c, int) and 0 <= c < clients))[:8]
        problems.append(("partition", f"{clients} clients on cores {[h['cores'] for h in hosts]}: lost {lost}, duplicated {dup}, not a client id {alien}, unknown hosts {unknown[:3]}", None))
    ctx.clause("contiguous")
    for a in result:
        on_host = []
        for w in a["workers"]:
            if w and list(w) != list(range(w[0], w[0] + len(w))):
                problems.append(("contiguous", f"worker on {a['host']} got clients {list(w)[:10]} which is not a contiguous range", None))
                break
            on_host.extend(w)
        else:
            if on_host and sorted(on_host) != list(range(min(on_host), min(on_host) + len(on_host))):
                problems.append(("contiguous", f"host {a['host']} got clients {sorted(on_host)[:10]}... which is not a contiguous range", None))
    ctx.clause("one-worker-per-core")
    busy = collections.Counter()
    for a in result:
        busy[a["host"]] += sum(1 for w in a["workers"] if len(w) > 0)
    for h, k in busy.items():
        if h in cores and k > cores[h]:
            problems.append(("one-worker-per-core", f"host {h} has {cores[h]} cores but {k} workers with clients", None))
    ctx.clause("balanced")
    for a in result:
        sizes = [len(w) for w in a["workers"]]
        if sizes and max(sizes) - min(sizes) > 1:
            problems.append(("balanced", f"worker loads on host {a['host']} differ by more than one client: {sorted(set(sizes))[:8]}", None))
    return problems


# ----------------------------------------------------------------------------------------------------------------
# cases
# ----------------------------------------------------------------------------------------------------------------
def schedule_features(case, before, after):
    """before / after: list (per challenge) of list (per element) of leaf-name lists, before and after filtering."""
    feats = set()
    for ch in case["challenges"]:
        if len(ch["schedule"]) == 12:
            feats.add("twelve-elements")
        for e in ch["schedule"]:
            if "p" in e:
                p = e["p"]
                total = sum(t["clients"] for t in p["tasks"])
                if p["cap"] is not None and p["cap"] < total:
                    feats.add("cap-below-sum")
                if p["cap"] is not None and p["cap"] > total:
                    feats.add("cap-above-sum")
                if p["cb"] == "any":
                    feats.add("completed-by-any")
                elif p["cb"] is not None:
                    feats.add("completed-by-name")
    if case["filter"].get("mode"):
        feats.add("filtered")
        feats.add("filter-" + case["filter"]["mode"])
    if case.get("via_loader"):
        feats.add("built-by-loader")
    for ci, ch in enumerate(case["challenges"]):
        remaining = {n for el in after[ci] for n in el}
        for e, names in zip(ch["schedule"], before[ci]):
            if "p" in e and names:
                kept = [n for n in names if n in remaining]
                if not kept:
                    feats.add("parallel-emptied-by-filter")
                    if case["filter"]["mode"] == "exclude":
                        feats.add("parallel-emptied-by-exclude")
                elif len(kept) < len(names):
                    feats.add("parallel-partially-filtered")
        if not remaining and any(before[ci]):
            feats.add("all-tasks-filtered")
    return feats


def eval_schedule_case(ctx, case):
    """Builds, filters (real code) and checks one case. Returns (problems, feats, facts)."""
    trk = gen.build(case)
    before = [[[t.name for t in leaves(e)] for e in ch.schedule] for ch in trk.challenges]
    if case["filter"].get("mode"):
        gen.apply_filter(trk, case["filter"])
    after = [[[t.name for t in leaves(e)] for e in ch.schedule] for ch in trk.challenges]
    feats = schedule_features(case, before, after)
    problems = []
    facts = {"filter_mode": case["filter"].get("mode"), "filtered_schedules": after}
    for ci, ch in enumerate(trk.challenges):
        schedule = ch.schedule
        p1, info = check_allocator(ctx, schedule)
        # the size of every element according to the model: the explicit cap, else the clients of the tasks the filter left
        by_name = {}
        for e in case["challenges"][ci]["schedule"]:
            for t in (e["p"]["tasks"] if "p" in e else [e["t"]]):
                by_name[t["name"]] = e
        totals = []
        for e in schedule:
            ls = leaves(e)
            spec = by_name.get(ls[0].name) if ls else None
            if spec is None:
                totals.append(None)
            elif "p" in spec:
                totals.append(spec["p"]["cap"] if spec["p"]["cap"] is not None else sum(t.clients for t in ls))
            else:
                totals.append(spec["t"]["clients"])
        p2, winfo = check_driver_walk(ctx, schedule, case["hosts"], totals)
        empty = sum(1 for e in schedule if is_parallel(e) and len(leaves(e)) == 0)
        if empty and (p1 or p2):
            # is the failure explained by the empty parallel elements alone? (for the mechanism classifier)
            without = [e for e in schedule if not (is_parallel(e) and len(leaves(e)) == 0)]
            q1, _ = check_allocator(_Null(), without)
            q2, _ = check_driver_walk(_Null(), without, case["hosts"])
            facts["holds_without_empty_parallel"] = not q1 and not q2
        facts.update({"challenge": ci, "empty_parallel_elements": empty, "steps": info.get("steps"), "progress_entries": info.get("progress_entries")})
        n = info.get("clients", 0)
        if hasattr(ctx, "distinct"):
            ctx.distinct("allocation-shapes", (n, info.get("steps"), info.get("progress_entries"), info.get("none_padding"), winfo.get("workers")))
        if n >= 64:
            feats.add("clients-64")
        if info.get("none_padding"):
            feats.add("none-padding")
        for e in schedule:
            if is_parallel(e) and sum(t.clients for t in leaves(e)) > n:
                feats.add("overcommit")
        problems.extend(p1 + p2)
        if problems:
            break
    return problems, feats, facts


class _Null:
    def clause(self, *a, **k):
        pass


def one_schedule_case(ctx, case, shrink=True):
    problems, feats, facts = eval_schedule_case(ctx, case)
    sched = case["challenges"][0]["schedule"]
    nontrivial = len(sched) >= 2 and (any("p" in e for e in sched) or "none-padding" in feats)
    ctx.case(("schedule", case), nontrivial, feats)
    if len(sched) <= 3 and sum(1 for _ in gen.leaf_specs(sched)) <= 4 and all(t["clients"] <= 4 for t in gen.leaf_specs(sched)):
        ctx.sample({"case": slim(case), "filtered": facts["filtered_schedules"]}, tag="+".join(sorted(feats - {"filtered", "built-by-loader"})) or "plain")
    reported = set()
    for clause, msg, detail in problems:
        if clause in reported:
            continue
        reported.add(clause)
        w = {"kind": "schedule", "case": case, "facts": facts, "detail": detail}
        key = classify({"clause": clause, "witness": w, "msg": msg})
        _SHRUNK[(clause, key)] = _SHRUNK.get((clause, key), 0) + 1
        if shrink and _SHRUNK[(clause, key)] <= 3:  # the runner keeps three witnesses per key; later ones are only counted

            def still(c, clause=clause, key=key):
                ps, _, fs = eval_schedule_case(_Null(), c)
                return any(p[0] == clause and classify({"clause": clause, "witness": {"kind": "schedule", "case": c, "facts": fs}, "msg": p[1]}) == key for p in ps)

            small = gen.shrink_case(case, still)
            ps, _, fs = eval_schedule_case(_Null(), small)
            hit = [p for p in ps if p[0] == clause]
            if hit:
                w = {"kind": "schedule", "case": small, "facts": fs, "detail": hit[0][2]}
                msg = hit[0][1]
        ctx.violation(clause, w, msg)
    return problems


_SHRUNK = {}


def slim(case):
    c = {k: v for k, v in case.items() if k != "ops"}
    return c


def one_layout_case(ctx, layout):
    hosts, clients = layout["hosts"], layout["clients"]
    problems = check_assignments(ctx, hosts, clients)
    feats = set()
    if any(h["cores"] > -(-clients // len(hosts)) for h in hosts):
        feats.add("layout-more-cores-than-clients")
    if clients % len(hosts) or any((-(-clients // len(hosts))) % h["cores"] for h in hosts):
        feats.add("layout-uneven")
    if len(hosts) == 8:
        feats.add("layout-eight-hosts")
    if len(hosts) == 1:
        feats.add("layout-single-host")
    if clients < len(hosts):
        feats.add("layout-clients-fewer-than-hosts")
    nontrivial = len(hosts) >= 2 or clients > hosts[0]["cores"]
    ctx.case(("layout", layout), nontrivial, feats)
    if clients <= 6 and len(hosts) <= 2:
        ctx.sample({"layout": layout}, tag="layout:" + "+".join(sorted(feats)))
    reported = set()
    for clause, msg, detail in problems:
        if clause in reported:
            continue
        reported.add(clause)
        small = shrink_layout(layout, clause)
        ps = [p for p in check_assignments(_Null(), small["hosts"], small["clients"]) if p[0] == clause]
        ctx.violation(clause, {"kind": "layout", "layout": small}, ps[0][1] if ps else msg)
    return problems


def shrink_layout(layout, clause):
    def fails(l):
        return any(p[0] == clause for p in check_assignments(_Null(), l["hosts"], l["clients"]))

    cur = {"hosts": [dict(h) for h in layout["hosts"]], "clients": layout["clients"]}
    changed = True
    tries = 0
    while changed and tries < 300:
        changed = False
        cands = []
        for i in range(len(cur["hosts"])):
            if len(cur["hosts"]) > 1:
                cands.append({"hosts": cur["hosts"][:i] + cur["hosts"][i + 1:], "clients": cur["clients"]})
        for nc in (1, cur["clients"] // 2, cur["clients"] - 1):
            if 1 <= nc < cur["clients"]:
                cands.append({"hosts": cur["hosts"], "clients": nc})
        for i, h in enumerate(cur["hosts"]):
            for k in (1, h["cores"] // 2, h["cores"] - 1):
                if 1 <= k < h["cores"]:
                    hs = [dict(x) for x in cur["hosts"]]
                    hs[i]["cores"] = k
                    cands.append({"hosts": hs, "clients": cur["clients"]})
        for c in cands:
            tries += 1
            if fails(c):
                cur, changed = c, True
                break
    return cur


def run_shard(ctx):
    if ctx.shard == 0:
        for case in gen.directed_cases():
            one_schedule_case(ctx, case, shrink=False)  # kept as written: the first recorded witness is the documented shape
    i = 0
    while ctx.more():
        rng = ctx.case_rng(i)
        if i % 2 == 0:
            one_schedule_case(ctx, gen.gen_case(rng, max_challenges=1))
        else:
            one_layout_case(ctx, gen.gen_layout(rng))
        i += 1


def classify(v):
    """Mechanism: an --exclude-tasks filter matched every sub-task of a parallel element; the processor removed the sub-tasks but left
    the emptied element in the schedule, and the step / progress mismatch disappears as soon as the empty elements are dropped."""
    w = v.get("witness") or {}
    facts = w.get("facts") or {}
    if not isinstance(facts.get("steps"), int) or not isinstance(facts.get("progress_entries"), int):
        return None
    if (
        v.get("clause") in ("steps-progress", "driver-progress")
        and facts.get("filter_mode") == "exclude"
        and (facts.get("empty_parallel_elements") or 0) >= 1
        and facts.get("holds_without_empty_parallel") is True
        and facts.get("steps") is not None
        and facts.get("steps") - facts.get("progress_entries", 0) == facts.get("empty_parallel_elements")
    ):
        return KEY_EMPTY_PARALLEL
    return None


def replay(ctx, rec):
    w = rec["witness"]
    if w.get("kind") == "layout":
        one_layout_case(ctx, w["layout"])
    else:
        one_schedule_case(ctx, w["case"], shrink=False)


MANIFEST = {
    "text": "Exploration: 2*10^4 (quick) / several 10^5 (thorough, time-bounded) generated schedules (sequential and parallel elements, client caps 1..sum+3, over-commit, "
    "completed-by name/any, up to 12 elements and 64 clients, 80% passed through the real task filter so that elements emptied or thinned by filters occur) "
    "are given to the real Allocator: rectangular matrix, aligned join points, every (task, client index) exactly once between the join points of its element "
    "(reference allocation), steps == progress entries == schedule elements with the right task sets; a real Driver is started on the schedule and walked through "
    "every join point (progress line per step, every client started exactly once); the ClientAllocations object of every worker is read column by column the way Worker.drive() reads it "
    "(every (task, client index) driven exactly once over all workers) and every TaskAllocation.total_clients is compared with the model's element size after filtering. As many host layouts (1-8 hosts, 1-64 cores, 1-2048 clients) go through the real "
    "calculate_worker_assignments: exact partition, contiguous ranges, workers <= cores, loads within one client. Holds on the executions produced, not beyond.",
    "note": "Trusts the 10-line reference allocation and the stubs standing in for the actor system, metrics store and telemetry around the real Driver.",
    "technique": "runtime monitor: invariants + reference-model oracle over the real Allocator / Driver bookkeeping / calculate_worker_assignments on generated schedules and host layouts",
    "design_ref": "DESIGN.md section 4 C02",
}
