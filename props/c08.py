"""C08 - race results are correct statistics of the normal samples and survive storage.

Monitor: a real InMemoryMetricsStore (opened through metrics.metrics_store() on a scratch root) is filled with a generated
multiset of metric records, optionally shipped the way racecontrol ships them (to_externalizable -> bulk_add), and the real
GlobalStatsCalculator (metrics.calculate_results) runs over a real Track / Challenge. Every reported number is compared
with reference statistics computed from the generated multiset with `fractions` / `statistics`. The race is then written
with the real FileRaceStore.store_race and read back through find_by_race_id and list(); what the comparison reporter
would read (GlobalStats(race.results)) must be structurally equal to what was calculated. A second case family stores
generated result structures (every optional section present or absent, non-ASCII names) and reads them back.
"""
import copy
import shutil
import statistics
import traceback
import sys
from fractions import Fraction

from esrally import config, metrics, track

from props import c08_gen as gen

ID = "C08"
LEVEL = "exploration"
RULE = (
    "seeded generator of metric-record multisets (several tasks / operation types, warm-up and normal samples mixed, success flags, "
    "dependent timings, node-level records, counts 0..20000, values incl. 0 / equal / huge / tiny) and of result structures; a case is "
    "non-trivial when it has >= 1 task with >= 2 normal samples or >= 1 optional section; distinct = hash of the record list / structure"
)
ASSUMPTIONS = [
    "reference percentile: value at rank p/100*(n-1) of the sorted normal values, linearly interpolated (exact Fractions); "
    "tolerance 1e-9 relative to the larger neighbour, so float rounding of lower+(higher-lower)*fr is not an alarm",
    "a sample of a task is a record with that task name AND the task's operation type; dependent timings of composite operations "
    "carry another operation type and are not samples of the task",
    "error rate is read off the service_time records (docs/summary_report.rst), normal sample type only (docs/metrics.rst); with no such record 0.0 or None is accepted",
    "structural equality after storage uses Python ==, i.e. 3 == 3.0 and OrderedDict == dict",
]
REQUIRED_CLAUSES = [
    "results-computed", "task-listed", "percentile-reference", "percentile-monotone", "percentile-bounds", "p100-max", "p50-median", "mean", "throughput-stats",
    "warmup-excluded", "no-normal-no-stats", "percentile-set-by-count", "report-lookup-percentile", "error-rate", "global-sum", "global-median", "per-shard-stats",
    "section-passthrough", "store-roundtrip-dict", "store-roundtrip-flat", "store-roundtrip-list", "store-roundtrip-reader-view", "es-store-agrees",
]
_BRACKETS = ["n=1", "n<10", "n<100", "n<1000", "n<10000", "n>=10000"]
REQUIRED_FEATURES = {
    "quick": dict({"bracket:" + b: 3 for b in _BRACKETS}, **{
        "throughput-all-zero": 5, "throughput-median-zero": 5, "latency-all-zero": 5, "warmup-and-normal": 50, "only-warmup": 5, "dependent-timing": 20,
        "node-level-records": 20, "failed-requests": 50, "non-ascii-task": 50, "transfer-externalizable": 50, "transfer-after-every-step": 30, "section:ml": 10, "section:transform": 10,
        "section:disk-usage": 10, "section:per-shard": 10, "section:ingest-pipeline": 10, "structure-case": 100, "error-rate-warmup-differs": 10,
    }),
    "thorough": dict({"bracket:" + b: 30 for b in _BRACKETS}, **{
        "throughput-all-zero": 50, "throughput-median-zero": 50, "latency-all-zero": 50, "warmup-and-normal": 500, "only-warmup": 50, "dependent-timing": 200,
        "node-level-records": 200, "failed-requests": 500, "non-ascii-task": 500, "transfer-externalizable": 500, "transfer-after-every-step": 300, "section:ml": 100, "section:transform": 100,
        "section:disk-usage": 100, "section:per-shard": 100, "section:ingest-pipeline": 100, "structure-case": 1000, "error-rate-warmup-differs": 100,
    }),
}
BUDGET = {
    "quick": {"cases": 12000, "seconds": 36},
    "thorough": {"cases": 300000, "seconds": 660},
}

ST = metrics.SampleType
REL = Fraction(1, 10**9)


class _Null:
    def clause(self, *a, **k):
        pass

    def feature(self, *a, **k):
        pass


# --------------------------------------------------------------------------- running the real code
def make_cfg(root, race_id, spec=None):
    cfg = config.Config()

    def add(section, key, value):
        cfg.add(config.Scope.application, section, key, value)

    add("system", "env.name", "verif")
    add("system", "list.max_results", 1000)
    add("system", "time.start", gen.RACE_TIMESTAMP)
    add("system", "race.id", race_id)
    add("node", "root.dir", str(root))
    add("track", "params", {})
    add("mechanic", "car.names", spec["car"] if spec else ["defaults"])
    add("mechanic", "car.params", {})
    add("mechanic", "plugin.params", {})
    add("race", "pipeline", "benchmark-only")
    add("race", "user.tags", spec["user_tags"] if spec else {})
    add("reporting", "datastore.type", "in-memory")
    return cfg


def make_race(cfg, trk, ch):
    """What metrics.create_race() builds, without probing git for Rally's own revision on every case."""
    return metrics.Race(
        "2.10.0", "verif00", cfg.opts("system", "env.name"), cfg.opts("system", "race.id"), cfg.opts("system", "time.start"), cfg.opts("race", "pipeline"),
        cfg.opts("race", "user.tags"), trk, cfg.opts("track", "params"), ch, cfg.opts("mechanic", "car.names"), cfg.opts("mechanic", "car.params"),
        cfg.opts("mechanic", "plugin.params"),
    )


def build_track(spec):
    tasks = []
    for t in spec["tasks"]:
        params = {} if t["report"] else {"include-in-reporting": False}
        op = track.Operation(t["op"], t["op_type"], meta_data=t["op_meta"], params=params)
        tasks.append(track.Task(t["name"], op, meta_data=t["meta"]))
    schedule, group = [], []
    for t, obj in zip(spec["tasks"], tasks):
        if t["parallel"]:
            group.append(obj)
        else:
            if group:
                schedule.append(track.Parallel(group))
                group = []
            schedule.append(obj)
    if group:
        schedule.append(track.Parallel(group))
    ch = track.Challenge(spec["challenge"]["name"], meta_data=spec["challenge"]["meta"], schedule=schedule, auto_generated=spec["challenge"]["auto"], default=True)
    trk = track.Track(spec["track"]["name"], meta_data=spec["track"]["meta"], challenges=[ch])
    return trk, ch


def fill_store(store, spec, lo=0, hi=None):
    tasks = spec["tasks"]
    for i, r in enumerate(spec["records"]):
        if i < lo or (hi is not None and i >= hi):
            continue
        k = r["k"]
        at, rt = 1_600_000_000 + i, i * 0.01
        if k == "req":
            t = tasks[r["task"]]
            store.put_value_cluster_level(
                r["name"], r["v"], "ms", task=t["name"], operation=t["op"], operation_type=t["op_type"], sample_type=ST(r["st"]),
                absolute_time=at, relative_time=rt, meta_data={"success": r["ok"], "client_id": i % 4},
            )
        elif k == "thr":
            t = tasks[r["task"]]
            store.put_value_cluster_level(
                "throughput", r["v"], t["thr_unit"], task=t["name"], operation=t["op"], operation_type=t["op_type"], sample_type=ST(r["st"]),
                absolute_time=at, relative_time=rt,
            )
        elif k == "dep":
            t = tasks[r["task"]]
            store.put_value_cluster_level(
                "service_time", r["v"], "ms", task=t["name"], operation=r["op"], operation_type=r["op_type"], sample_type=ST(r["st"]),
                absolute_time=at, relative_time=rt, meta_data={"success": r["ok"], "client_id": 0},
            )
        elif k == "foreign":
            store.put_value_cluster_level(
                r["name"], r["v"], "ms", task=r["task_name"], operation=r["task_name"], operation_type=r["op_type"], sample_type=ST(r["st"]),
                absolute_time=at, relative_time=rt, meta_data={"success": r["ok"]},
            )
        elif k == "node":
            store.put_value_node_level(r["node"], r["name"], r["v"], r["unit"], absolute_time=at, relative_time=rt)
        elif k == "cluster":
            store.put_value_cluster_level(r["name"], r["v"], r["unit"], absolute_time=at, relative_time=rt)
        elif k == "shard-time":
            store.put_doc({"name": r["name"], "value": r["v"], "unit": "ms", "per-shard": list(r["per_shard"])}, level=metrics.MetaInfoScope.cluster,
                          absolute_time=at, relative_time=rt)
        elif k == "ml":
            doc = {"name": "ml_processing_time"}
            doc.update({x: r[x] for x in ("job", "min", "mean", "median", "max", "unit")})
            store.put_doc(doc, level=metrics.MetaInfoScope.cluster, absolute_time=at, relative_time=rt)
        elif k == "transform":
            store.put_value_cluster_level(r["name"], r["v"], r["unit"], meta_data={"transform_id": r["id"]}, absolute_time=at, relative_time=rt)
        elif k == "disk":
            store.put_value_cluster_level(r["name"], r["v"], "byte", meta_data={"index": r["index"], "field": r["field"]}, absolute_time=at, relative_time=rt)
        else:
            raise ValueError(k)


def run_real(spec, root, race_id):
    """Returns (race with results, cfg)."""
    cfg = make_cfg(root, race_id, spec)
    trk, ch = build_track(spec)
    store = metrics.metrics_store(cfg, read_only=False, track=trk.name, challenge=ch.name)
    chunks = int(spec["transfer"])
    if chunks <= 1:
        fill_store(store, spec)
    if chunks == 1:
        # racecontrol.BenchmarkCoordinator.on_benchmark_complete: the driver's store arrives as a memento
        memento = store.to_externalizable(clear=True)
        store.close()
        store = metrics.metrics_store(cfg, read_only=False, track=trk.name, challenge=ch.name)
        store.bulk_add(memento)
        store.flush()
    elif chunks > 1:
        # a race with several steps: after every step the driver ships what ITS store has collected since the last time
        # (Driver.move_to_next_task: to_externalizable(clear=True)) and race control adds it to its own store (on_task_finished: bulk_add)
        coordinator = metrics.metrics_store(cfg, read_only=False, track=trk.name, challenge=ch.name)
        n = len(spec["records"])
        bounds = [n * k // chunks for k in range(chunks + 1)]
        for lo, hi in zip(bounds, bounds[1:]):
            fill_store(store, spec, lo, hi)
            coordinator.bulk_add(store.to_externalizable(clear=True))
        store.close()
        coordinator.flush()
        store = coordinator
    race = make_race(cfg, trk, ch)
    results = metrics.calculate_results(store, race)
    store.close()
    race.add_results(results)
    return race, cfg


# --------------------------------------------------------------------------- reference
def fr(v):
    return Fraction(v)


def close_to(reported, ref, scale):
    """|reported - ref| <= 1e-9 * scale (exact when scale is 0)."""
    if not gen.is_finite_number(reported):
        return False
    return abs(Fraction(reported) - ref) <= REL * scale


def ref_percentile(sv, p):
    n = len(sv)
    rank = p / 100 * (n - 1)
    lo = rank.numerator // rank.denominator
    f = rank - lo
    if f == 0:
        return fr(sv[lo]), abs(fr(sv[lo]))
    lower, higher = fr(sv[lo]), fr(sv[lo + 1])
    return lower + (higher - lower) * f, max(abs(lower), abs(higher))


def ref_mean(vals):
    return sum((fr(v) for v in vals), Fraction(0)) / len(vals)


def bracket(n):
    if n == 1:
        return "n=1"
    for lim, name in ((10, "n<10"), (100, "n<100"), (1000, "n<1000"), (10000, "n<10000")):
        if n < lim:
            return name
    return "n>=10000"


def samples_of(spec, ti, name, st=None):
    if name == "throughput":
        return [r["v"] for r in spec["records"] if r["k"] == "thr" and r["task"] == ti and (st is None or r["st"] == st)]
    return [r["v"] for r in spec["records"] if r["k"] == "req" and r["task"] == ti and r["name"] == name and (st is None or r["st"] == st)]


def pkeys(block):
    out = []
    for k in block:
        if k in ("mean", "unit"):
            continue
        try:
            out.append((Fraction(k.replace("_", ".")), k))
        except ValueError:
            out.append((None, k))
    return out


def stats_problems(ctx, spec, ti, name, block, seen_sets):
    """Clauses for one latency-type block of one task. Returns [(clause, msg, focus)]."""
    probs = []
    tname = spec["tasks"][ti]["name"]
    normal = samples_of(spec, ti, name, 1)
    allv = samples_of(spec, ti, name)
    n = len(normal)

    def bad(clause, msg, **focus):
        focus.update({"task": ti, "metric": name, "n_normal": n, "n_all": len(allv)})
        probs.append((clause, f"task [{tname}] {name}: {msg}", focus))

    if n == 0:
        ctx.clause("no-normal-no-stats")
        nums = {k: v for k, v in (block or {}).items() if k != "unit" and v is not None}
        if nums:
            bad("no-normal-no-stats", f"no normal sample exists ({len(allv)} warm-up) but numbers are reported: {nums}", reported=nums)
        return probs
    sv = sorted(normal)
    sa = sorted(allv)
    warm_matters = len(allv) > n
    keys = pkeys(block or {})
    ctx.clause("percentile-set-by-count")
    ctx.feature("bracket:" + bracket(n))
    kset = tuple(sorted(k for _, k in keys))
    prev = seen_sets.setdefault(n, (kset, f"{tname}/{name}"))
    if prev[0] != kset:
        bad("percentile-set-by-count", f"{n} normal samples report percentiles {list(kset)} but {prev[1]} with the same count reported {list(prev[0])}",
            reported=list(kset), other=list(prev[0]))
    if any(p is None or p < 0 or p > 100 for p, _ in keys):
        bad("percentile-set-by-count", f"unreadable percentile key in {list(kset)}", reported=list(kset))
        return probs
    # The summary and comparison reports label their lines "<p>th percentile ..." and fetch the value with the real
    # metrics.encode_float_key(p) for every p rally knows: what the user reads for p must be the p-th percentile, every stored
    # key must be read by exactly one label, and no two labels may read the same key.
    ctx.clause("report-lookup-percentile")
    looked_up = {}
    for p_label in metrics.percentiles_for_sample_size(sys.maxsize):
        k_label = metrics.encode_float_key(p_label)
        v_label = (block or {}).get(k_label)
        if v_label is None:
            continue
        if k_label in looked_up:
            bad("report-lookup-percentile", f"the report lines for p{looked_up[k_label]} and p{p_label} both read the stored key {k_label!r}", key=k_label)
            continue
        looked_up[k_label] = p_label
        ref_l, scale_l = ref_percentile(sv, Fraction(str(p_label)))
        if not close_to(v_label, ref_l, scale_l):
            bad("report-lookup-percentile", f"the report line 'p{p_label}' reads {v_label!r} (key {k_label!r}) but the {p_label}th percentile of the {n} normal samples is {float(ref_l)!r}",
                reported=v_label, expected=float(ref_l), key=k_label)
    orphan = [k for _, k in keys if k not in looked_up]
    if orphan:
        bad("report-lookup-percentile", f"stored percentile keys {orphan} are read by no report line", reported=orphan)
    lo, hi = fr(sv[0]), fr(sv[-1])
    scale_all = max(abs(lo), abs(hi))
    last = None
    for p, k in sorted(keys):
        v = block[k]
        ref, scale = ref_percentile(sv, p)
        ctx.clause("percentile-reference")
        if not close_to(v, ref, scale):
            ref_all, scale2 = ref_percentile(sa, p)
            if warm_matters and close_to(v, ref_all, scale2):
                ctx.clause("warmup-excluded")
                bad("warmup-excluded", f"p{float(p)} = {v!r} is the percentile over warm-up AND normal samples; over the {n} normal samples it is {float(ref)!r}",
                    reported=v, expected=float(ref), key=k)
            else:
                bad("percentile-reference", f"p{float(p)} = {v!r} but linear interpolation over the {n} normal samples gives {float(ref)!r}",
                    reported=v, expected=float(ref), key=k)
            continue
        ctx.clause("percentile-bounds")
        if not (lo - REL * scale_all <= Fraction(v) <= hi + REL * scale_all):
            bad("percentile-bounds", f"p{float(p)} = {v!r} outside [min, max] = [{sv[0]!r}, {sv[-1]!r}]", reported=v, key=k)
        if last is not None:
            ctx.clause("percentile-monotone")
            if Fraction(v) < Fraction(last[1]) - REL * scale_all:
                bad("percentile-monotone", f"p{float(p)} = {v!r} < p{float(last[0])} = {last[1]!r}", reported=v, key=k)
        last = (p, v)
        if p == 100:
            ctx.clause("p100-max")
            if v != sv[-1]:
                bad("p100-max", f"p100 = {v!r} but the maximum normal value is {sv[-1]!r}", reported=v, expected=sv[-1], key=k)
        if p == 50:
            ctx.clause("p50-median")
            med = fr(statistics.median(sv)) if not any(isinstance(x, float) and abs(x) > 1e300 for x in sv) else ref
            if not close_to(v, med, scale_all):
                bad("p50-median", f"p50 = {v!r} but statistics.median of the normal values is {float(med)!r}", reported=v, expected=float(med), key=k)
    ctx.clause("mean")
    m = (block or {}).get("mean")
    rm = ref_mean(sv)
    if not close_to(m, rm, scale_all):
        if warm_matters and close_to(m, ref_mean(sa), max(abs(fr(sa[0])), abs(fr(sa[-1])))):
            ctx.clause("warmup-excluded")
            bad("warmup-excluded", f"mean = {m!r} is the mean over warm-up AND normal samples; the normal samples have mean {float(rm)!r}", reported=m, expected=float(rm))
        else:
            bad("mean", f"mean = {m!r} but the {n} normal values have mean {float(rm)!r}", reported=m, expected=float(rm))
    elif warm_matters and ref_mean(sa) != rm:
        ctx.clause("warmup-excluded")
    return probs


def throughput_problems(ctx, spec, ti, block):
    probs = []
    tname = spec["tasks"][ti]["name"]
    normal = samples_of(spec, ti, "throughput", 1)
    allv = samples_of(spec, ti, "throughput")
    n = len(normal)
    rep = {k: (block or {}).get(k) for k in ("min", "mean", "median", "max")}

    def bad(clause, msg, **focus):
        focus.update({"task": ti, "metric": "throughput", "n_normal": n, "n_all": len(allv), "reported": rep})
        probs.append((clause, f"task [{tname}] throughput: {msg}", focus))

    if n == 0:
        ctx.clause("no-normal-no-stats")
        if any(v is not None for v in rep.values()):
            bad("no-normal-no-stats", f"no normal throughput sample exists ({len(allv)} warm-up) but {rep} is reported")
        return probs
    sv, sa = sorted(normal), sorted(allv)
    scale = max(abs(fr(sv[0])), abs(fr(sv[-1])))
    exp = {"min": fr(sv[0]), "mean": ref_mean(sv), "median": fr(statistics.median(sv)), "max": fr(sv[-1])}
    ctx.clause("throughput-stats")
    if sv[-1] == 0:
        ctx.feature("throughput-all-zero")
    elif exp["median"] == 0:
        ctx.feature("throughput-median-zero")
    wrong = [k for k in exp if not close_to(rep[k], exp[k], scale if k in ("mean", "median") else 0)]
    if wrong:
        expf = {k: float(v) for k, v in exp.items()}
        scale_a = max(abs(fr(sa[0])), abs(fr(sa[-1])))
        exp_all = {"min": fr(sa[0]), "mean": ref_mean(sa), "median": fr(statistics.median(sa)), "max": fr(sa[-1])}
        if len(allv) > n and all(close_to(rep[k], exp_all[k], scale_a) for k in exp_all):
            ctx.clause("warmup-excluded")
            bad("warmup-excluded", f"{rep} are the statistics over warm-up AND normal samples; the {n} normal samples give {expf}", expected=expf)
        else:
            bad("throughput-stats", f"reported {rep} but the {n} normal samples {sv[:6]}{'...' if n > 6 else ''} give {expf}", expected=expf, normal_head=sv[:6])
    elif len(allv) > n and (sa[0] != sv[0] or sa[-1] != sv[-1]):
        ctx.clause("warmup-excluded")
    return probs


def error_rate_problems(ctx, spec, ti, reported):
    t = spec["tasks"][ti]
    recs = [r for r in spec["records"] if r["k"] == "req" and r["task"] == ti and r["name"] == "service_time"]
    normal = [r for r in recs if r["st"] == 1]
    ctx.clause("error-rate")
    if not normal:
        if reported not in (0, 0.0, None):
            return [("error-rate", f"task [{t['name']}]: error rate {reported!r} although the task has no normal service_time record", {"task": ti, "metric": "error_rate", "reported": reported})]
        return []
    failed = sum(1 for r in normal if r["ok"] is False)
    exp = Fraction(failed, len(normal))
    if failed:
        ctx.feature("failed-requests")
    if recs and len(recs) > len(normal):
        all_rate = Fraction(sum(1 for r in recs if r["ok"] is False), len(recs))
        if all_rate != exp:
            ctx.feature("error-rate-warmup-differs")
    if not gen.is_finite_number(reported) or abs(Fraction(reported) - exp) > Fraction(1, 10**12):
        return [("error-rate", f"task [{t['name']}]: error rate {reported!r} but {failed} of {len(normal)} normal requests failed ({float(exp)!r})",
                 {"task": ti, "metric": "error_rate", "reported": reported, "expected": float(exp), "failed": failed, "requests": len(normal)})]
    return []


def global_problems(ctx, spec, d):
    probs = []
    g = spec["globals"]

    def bad(clause, msg, **focus):
        focus["metric"] = focus.get("metric", "global")
        probs.append((clause, msg, focus))

    for attr in gen.SUM_METRICS:
        ctx.clause("global-sum")
        vals = g.get(attr)
        rep = d.get(attr)
        if not vals:
            if rep is not None:
                bad("global-sum", f"{attr} = {rep!r} although no record of it exists", metric=attr, reported=rep)
            continue
        exp = sum((fr(v) for v in vals), Fraction(0))
        if not close_to(rep, exp, sum((abs(fr(v)) for v in vals), Fraction(0))):
            bad("global-sum", f"{attr} = {rep!r} but the records {vals} sum up to {float(exp)!r}", metric=attr, reported=rep, expected=float(exp), values=vals)
    for attr in gen.SHARD_TIME_METRICS:
        ctx.clause("per-shard-stats")
        e = g.get(attr)
        rep, rep_ps = d.get(attr), d.get(attr + "_per_shard")
        if not e:
            if rep is not None or rep_ps:
                bad("per-shard-stats", f"{attr} = {rep!r} / per shard {rep_ps!r} although no record exists", metric=attr, reported=rep)
            continue
        ps = e["per_shard"]
        exp = {"min": min(ps), "median": statistics.median(ps), "max": max(ps)}
        got = {k: (rep_ps or {}).get(k) for k in exp}
        if rep != sum(e["value"]) or any(not close_to(got[k], fr(exp[k]), abs(fr(exp[k]))) for k in exp):
            bad("per-shard-stats", f"{attr} = {rep!r}, per shard {got} but the record has value {e['value']} and per-shard values {ps} ({exp})",
                metric=attr, reported=got, expected=exp, values=ps)
    for attr in gen.MEDIAN_METRICS:
        ctx.clause("global-median")
        vals = g.get(attr)
        rep = d.get(attr)
        if not vals:
            if rep is not None:
                bad("global-median", f"{attr} = {rep!r} although no record of it exists", metric=attr, reported=rep)
            continue
        exp = fr(statistics.median(vals))
        if attr == "segment_count":
            ok = isinstance(rep, int) and abs(Fraction(rep) - exp) < 1  # "fraction counts are senseless": an integer next to the median
        else:
            ok = close_to(rep, exp, max(abs(fr(v)) for v in vals))
        if not ok:
            bad("global-median", f"{attr} = {rep!r} but the records {vals} have median {float(exp)!r}", metric=attr, reported=rep, expected=float(exp), values=vals)

    def norm(items, key):
        return sorted((copy.deepcopy(dict(x)) for x in (items or [])), key=lambda x: [str(x.get(k)) for k in key])

    ctx.clause("section-passthrough")
    if norm(d.get("ml_processing_time"), ["job"]) != norm(g.get("ml_processing_time"), ["job"]):
        bad("section-passthrough", f"ml_processing_time {d.get('ml_processing_time')!r} != recorded {g.get('ml_processing_time')!r}", metric="ml_processing_time")
    for attr in gen.TRANSFORM_METRICS:
        ctx.clause("section-passthrough")
        if norm(d.get(attr), ["id"]) != norm(g.get(attr), ["id"]):
            bad("section-passthrough", f"{attr} {d.get(attr)!r} != recorded {g.get(attr)!r}", metric=attr)
    for attr in gen.DISK_USAGE_ATTRS:
        ctx.clause("section-passthrough")
        if norm(d.get(attr), ["index", "field"]) != norm(g.get(attr), ["index", "field"]):
            bad("section-passthrough", f"{attr} {d.get(attr)!r} != recorded {g.get(attr)!r}", metric=attr)
    return probs


def results_problems(ctx, spec, d, seen_sets):
    probs = []
    ops = d.get("op_metrics") or []
    by_task = {}
    for o in ops:
        by_task.setdefault(o.get("task"), []).append(o)
    names = {t["name"] for t in spec["tasks"]}
    for ti, t in enumerate(spec["tasks"]):
        items = by_task.get(t["name"], [])
        if t["report"]:
            ctx.clause("task-listed")
            if len(items) != 1:
                probs.append(("task-listed", f"task [{t['name']}] is part of the challenge and included in reporting but appears {len(items)} times in the results",
                              {"task": ti, "metric": "listing"}))
        for o in items[:1]:
            for name in gen.REQUEST_METRICS:
                probs.extend(stats_problems(ctx, spec, ti, name, o.get(name), seen_sets))
            probs.extend(throughput_problems(ctx, spec, ti, o.get("throughput")))
            probs.extend(error_rate_problems(ctx, spec, ti, o.get("error_rate")))
    ctx.clause("task-listed")
    stray = [o.get("task") for o in ops if o.get("task") not in names]
    if stray:
        probs.append(("task-listed", f"results list tasks {stray} that are not part of the challenge", {"metric": "listing"}))
    probs.extend(global_problems(ctx, spec, d))
    return probs


# --------------------------------------------------------------------------- storage round trip
def first_diff(a, b, path="results"):
    if isinstance(a, dict) and isinstance(b, dict):
        for k in list(a) + [k for k in b if k not in a]:
            if k not in a or k not in b:
                return f"{path}[{k!r}]: {'missing after read' if k not in b else 'new after read'}"
            if a[k] != b[k]:
                return first_diff(a[k], b[k], f"{path}[{k!r}]")
    if isinstance(a, list) and isinstance(b, list):
        if len(a) != len(b):
            return f"{path}: {len(a)} items before, {len(b)} after"
        for i, (x, y) in enumerate(zip(a, b)):
            if x != y:
                return first_diff(x, y, f"{path}[{i}]")
    return f"{path}: {a!r} before, {b!r} after"


def roundtrip_problems(ctx, race, cfg):
    """store_race -> find_by_race_id / list, as `esrally compare` and `esrally list races` read it."""
    probs = []
    before = copy.deepcopy(race.results.as_dict())
    flat_before = copy.deepcopy(race.results.as_flat_list())
    tasks_before = list(race.results.tasks())
    ctx.clause("store-roundtrip-dict")
    try:
        metrics.race_store(cfg).store_race(race)
        back = metrics.race_store(cfg).find_by_race_id(race.race_id)
    except Exception as e:  # NotFound is what a file that cannot be parsed ends up as
        return [("store-roundtrip-dict", f"race cannot be stored and read back: {describe(e)}", {"metric": "storage"})]
    after = metrics.GlobalStats(back.results)
    if after.as_dict() != before:
        probs.append(("store-roundtrip-dict", "results differ after store_race / find_by_race_id: " + first_diff(before, after.as_dict())[:300], {"metric": "storage"}))
    ctx.clause("store-roundtrip-flat")
    try:
        flat_after = after.as_flat_list()
    except Exception as e:
        flat_after = f"{type(e).__name__}: {e}"
    if flat_after != flat_before:
        probs.append(("store-roundtrip-flat", "as_flat_list() differs after the round trip: " + first_diff(flat_before, flat_after)[:300], {"metric": "storage"}))
    ctx.clause("store-roundtrip-reader-view")
    # what `esrally compare` reads for a task must be THAT task's record (looked up here independently by its task name)
    truth = {o.get("task"): o for o in before.get("op_metrics", [])}
    wrong = []
    for t in tasks_before:
        try:
            got = after.metrics(t)
        except Exception as e:
            got = f"{type(e).__name__}: {e}"
        if got != truth.get(t):
            wrong.append(t)
    view_ok = after.tasks() == tasks_before and not wrong
    if not view_ok or back.race_id != race.race_id or back.race_timestamp != race.race_timestamp:
        probs.append(("store-roundtrip-reader-view", f"tasks()/metrics(task) as the comparison reads them: tasks {tasks_before} before, {after.tasks()} after; metrics(task) returns another "
                      f"record than the task's own for {wrong}", {"metric": "storage"}))
    ctx.clause("store-roundtrip-list")
    listed = [r for r in metrics.race_store(cfg).list() if r.race_id == race.race_id]
    if len(listed) != 1 or metrics.GlobalStats(listed[0].results).as_dict() != before:
        probs.append(("store-roundtrip-list", f"list() returns {len(listed)} races with id {race.race_id}" + ("" if len(listed) != 1 else " with different results"), {"metric": "storage"}))
    return probs


# --------------------------------------------------------------------------- cases
class Env:
    """Scratch root shared by the cases of one shard; wiped regularly so that list() stays cheap but sees several races."""

    def __init__(self, scratch):
        self.root = scratch / "c08root"
        self.count = 0
        self.seen_sets = {}
        self.reported = {}

    def next_id(self):
        self.count += 1
        if self.count % 25 == 0:
            shutil.rmtree(self.root / "races", ignore_errors=True)
        return f"race-{self.count:06d}"


def describe(e):
    tb = traceback.extract_tb(e.__traceback__)
    where = next((f"{fr_.name}:{fr_.lineno}" for fr_ in reversed(tb) if "/esrally/" in fr_.filename), "")
    return f"{type(e).__name__}: {e} [{where}]"


def store_case_problems(ctx, env, spec):
    ctx.clause("results-computed")
    try:
        race, cfg = run_real(spec, env.root, env.next_id())
    except Exception as e:  # the calculator has no documented failure mode for well-formed records
        return [("results-computed", f"calculating the results raised {describe(e)}", {"metric": "crash"})]
    probs = results_problems(ctx, spec, race.results.as_dict(), env.seen_sets)
    probs.extend(roundtrip_problems(ctx, race, cfg))
    env.es_counter = getattr(env, "es_counter", 0) + 1
    if not probs and env.es_counter % 8 == 0 and len(spec["records"]) <= 3000:
        probs.extend(es_store_problems(ctx, spec, race, cfg))
    return probs


def es_store_problems(ctx, spec, race, cfg):
    """The same records in rally's real EsMetricsStore (over an in-process index that executes its queries) must give the same results."""
    from props import c08_es

    ctx.clause("es-store-agrees")
    trk, ch = build_track(spec)
    es_race = make_race(cfg, trk, ch)
    try:
        results, index = c08_es.es_results(metrics, cfg, spec, trk, ch, es_race, fill_store)
    except NotImplementedError as e:
        ctx.note(f"es-store class: query feature not modelled: {e}")
        return []
    except Exception as e:
        return [("es-store-agrees", f"calculating the results over the Elasticsearch metrics store raised {describe(e)}", {"metric": "crash"})]
    a, b = race.results.as_dict(), results.as_dict()
    if not same_numbers(a, b):
        return [("es-store-agrees", "results over the Elasticsearch metrics store differ from the results over the in-memory store for the same records: "
                 + first_diff_num(a, b).replace("before", "in-memory").replace("after", "Elasticsearch store"), {"metric": "es-store"})]
    return []


def same_numbers(a, b):
    if isinstance(a, dict) and isinstance(b, dict):
        return set(a) == set(b) and all(same_numbers(a[k], b[k]) for k in a)
    if isinstance(a, list) and isinstance(b, list):
        return len(a) == len(b) and all(same_numbers(x, y) for x, y in zip(a, b))
    if isinstance(a, (int, float)) and isinstance(b, (int, float)) and not isinstance(a, bool) and not isinstance(b, bool):
        return abs(a - b) <= 1e-9 * max(1.0, abs(a), abs(b))
    return a == b


def first_diff_num(a, b, path="results"):
    if isinstance(a, dict) and isinstance(b, dict):
        for k in list(a) + [k for k in b if k not in a]:
            if k not in a or k not in b:
                return f"{path}[{k!r}]: {'missing after' if k not in b else 'only after'}"
            if not same_numbers(a[k], b[k]):
                return first_diff_num(a[k], b[k], f"{path}[{k!r}]")
    if isinstance(a, list) and isinstance(b, list):
        if len(a) != len(b):
            return f"{path}: {len(a)} items before, {len(b)} after"
        for i, (x, y) in enumerate(zip(a, b)):
            if not same_numbers(x, y):
                return first_diff_num(x, y, f"{path}[{i}]")
    return f"{path}: {a!r} before, {b!r} after"


def structure_case_problems(ctx, env, d, names):
    cfg = make_cfg(env.root, env.next_id())
    trk = track.Track(names[0], challenges=[track.Challenge(names[1], default=True)])
    race = make_race(cfg, trk, trk.challenges[0])
    race.add_results(metrics.GlobalStats(copy.deepcopy(d)))
    return roundtrip_problems(ctx, race, cfg)


def spec_features(spec):
    feats = set("section:" + s for s in spec["sections"])
    recs = spec["records"]
    if any(r["k"] == "dep" for r in recs):
        feats.add("dependent-timing")
    if any(r["k"] == "node" for r in recs):
        feats.add("node-level-records")
    if spec["transfer"]:
        feats.add("transfer-externalizable")
    if int(spec["transfer"]) > 1:
        feats.add("transfer-after-every-step")
    if any(ord(c) > 127 for t in spec["tasks"] for c in t["name"]):
        feats.add("non-ascii-task")
    per = {}
    for r in recs:
        if r["k"] in ("req", "thr"):
            key = (r["task"], r.get("name", "throughput"))
            per.setdefault(key, [0, 0, 0.0])
            per[key][r["st"]] += 1
            if r["st"] == 1:
                per[key][2] = max(per[key][2], r["v"])
    for (ti, name), (w, n, mx) in per.items():
        if w and n:
            feats.add("warmup-and-normal")
        if w and not n:
            feats.add("only-warmup")
        if n and mx == 0 and name != "throughput":
            feats.add("latency-all-zero")
    return feats, per


def compact(spec):
    """A readable form of a small spec for samples."""
    return {
        "tasks": [{k: t[k] for k in ("name", "op_type", "report")} for t in spec["tasks"]],
        "records": [{k: v for k, v in r.items()} for r in spec["records"][:40]],
        "transfer": spec["transfer"],
    }


def focus_spec(spec, focus):
    """The part of a spec a violation is about: one task, one metric (plus service_time for the error rate)."""
    if "task" not in focus:
        return None
    ti, name = focus["task"], focus.get("metric")
    keep = []
    for r in spec["records"]:
        if r.get("task") != ti:
            continue
        if name == "throughput" and r["k"] == "thr":
            keep.append(dict(r, task=0))
        elif name == "error_rate" and r["k"] in ("req", "dep") and r.get("name", "service_time") == "service_time":
            keep.append(dict(r, task=0))
        elif r["k"] == "req" and r["name"] == name:
            keep.append(dict(r, task=0))
    s = {k: spec[k] for k in ("track", "challenge", "car", "user_tags")}
    s.update({"tasks": [dict(spec["tasks"][ti], parallel=False, report=True)], "records": keep, "globals": {}, "sections": [], "transfer": False})
    return s


def shrink(env, spec, clause, metric, budget=300):
    """Greedy removal of records while the same clause still fails for the same metric. Returns (spec, focus) or None."""

    def failing(s):
        try:
            probs = store_case_problems(_Null(), _clone_of(env), s)
        except Exception:
            return None
        for c, _, f in probs:
            if c == clause and f.get("metric") == metric:
                return f
        return None

    focus = failing(spec)
    if focus is None:
        return None
    recs = list(spec["records"])
    chunk = max(1, len(recs) // 2)
    tries = 0
    while tries < budget:
        i, changed = 0, False
        while i < len(recs) and tries < budget:
            cand = recs[:i] + recs[i + chunk:]
            tries += 1
            f = failing(dict(spec, records=cand))
            if f is not None:
                recs, focus, changed = cand, f, True
            else:
                i += chunk
        if chunk == 1 and not changed:
            break
        chunk = max(1, chunk // 2)
    return dict(spec, records=recs), focus


def _clone_of(env):
    e = Env.__new__(Env)
    e.root, e.count, e.seen_sets, e.reported = env.root / "shrink", 0, {}, {}
    return e


def report(ctx, env, spec, probs, gen_info):
    seen = set()
    for clause, msg, focus in probs:
        key = (clause, focus.get("metric"))
        if key in seen or len(seen) >= 4:
            continue
        seen.add(key)
        witness = {"gen": gen_info, "focus": focus}
        mech = classify({"clause": clause, "witness": witness, "msg": msg}) or clause
        env.reported[mech] = env.reported.get(mech, 0) + 1
        if env.reported[mech] <= 3 and spec is not None:  # the runner keeps three witnesses per mechanism; do not shrink more than those
            small = focus_spec(spec, focus) if clause != "percentile-set-by-count" else None
            if small is not None and len(small["records"]) <= 400:
                res = shrink(env, small, clause, focus.get("metric"))
                if res is not None and len(res[0]["records"]) <= 60:
                    witness["spec"], witness["focus"] = res
            if "spec" not in witness and gen.spec_size(spec) <= 60:
                witness["spec"] = spec
        ctx.violation(clause, witness, msg)


def store_case(ctx, env, rng, idx, explicit=None):
    if explicit is not None:
        spec, size = explicit, "explicit"
    else:
        r = rng.random()
        size = "big" if r < 0.03 else ("medium" if r < 0.10 else "small")
        spec = gen.gen_store_spec(rng, size)
    feats, per = spec_features(spec)
    probs = store_case_problems(ctx, env, spec)
    nontrivial = any(n >= 2 for (_, n, _) in per.values()) or bool(spec["sections"])
    canon = [spec["records"] if len(spec["records"]) <= 2000 else [len(spec["records"]), spec["records"][:200]], [t["name"] for t in spec["tasks"]]]
    ctx.case(canon, nontrivial, feats)
    if gen.spec_size(spec) <= 14 and len(spec["tasks"]) == 1:
        ctx.sample(compact(spec), tag="store:" + "+".join(sorted(f for f in feats if not f.startswith("section")))[:60])
    report(ctx, env, spec, probs, {"kind": "store", "case": idx, "size": size})
    return probs


def structure_case(ctx, env, rng, idx, explicit=None):
    if explicit is not None:
        d, feats = explicit, set()
    else:
        d, feats = gen.gen_results(rng, negative=False)
    names = (rng.choice(["geonames", "trâck"]), rng.choice(["append", "défi"])) if rng else ("geonames", "append")
    probs = structure_case_problems(ctx, env, d, names)
    feats = set("section:" + f if f in ("ml", "transform", "disk-usage", "per-shard", "ingest-pipeline") else f for f in feats)
    feats.add("structure-case")
    ctx.case(d, bool(d["op_metrics"]) or len(feats) > 1, feats)
    for clause, msg, focus in probs[:3]:
        ctx.violation(clause, {"gen": {"kind": "structure", "case": idx}, "focus": focus, "results": d if len(str(d)) < 6000 else None}, msg)
    return probs


def one_case(ctx, env, idx):
    rng = ctx.case_rng(idx)
    if rng.random() < 0.25:
        return structure_case(ctx, env, rng, idx)
    return store_case(ctx, env, rng, idx)


def run_shard(ctx):
    env = Env(ctx.scratch)
    i = 0
    while ctx.more():
        one_case(ctx, env, i)
        i += 1
    for n, (kset, _) in env.seen_sets.items():
        ctx.distinct("reported-percentile-sets", kset)
        ctx.distinct("normal-sample-counts", n)


def classify(v):
    f = (v.get("witness") or {}).get("focus") or {}
    if v["clause"] == "throughput-stats":
        rep, exp = f.get("reported") or {}, f.get("expected") or {}
        if rep and all(rep.get(k) is None for k in ("min", "mean", "median", "max")) and f.get("n_normal", 0) > 0 and (exp.get("mean") == 0 or exp.get("median") == 0):
            # GlobalStatsCalculator.summary_stats: `if mean and median and stats` - a mean or median of exactly 0 counts as "no data"
            return "summary-stats-zero-is-falsy"
    return None


def replay(ctx, rec):
    env = Env(ctx.scratch)
    w = rec["witness"]
    g = w.get("gen", {})
    if w.get("spec"):
        store_case(ctx, env, None, g.get("case"), explicit=w["spec"])
    elif g.get("kind") == "structure" and w.get("results"):
        structure_case(ctx, env, None, g.get("case"), explicit=w["results"])
    else:
        one_case(ctx, env, g["case"])


MANIFEST = {
    "text": "Exploration: up to 1.2*10^4 (quick) / 3*10^5 (thorough) cases (time-capped). Three in four are generated metric-record multisets written to a real "
    "InMemoryMetricsStore, summarised by the real GlobalStatsCalculator and compared number by number with reference statistics (fractions/statistics) over the normal "
    "samples; each race - and, in the remaining cases, a generated result structure - is stored with the real FileRaceStore and read back through find_by_race_id and "
    "[every eighth store case also goes through rally's real EsMetricsStore over an in-process index that executes its queries: the results must equal those over the in-memory store] "
    "list(). Records reach the summarising store directly, through one to_externalizable/bulk_add hand-over, or in 2..5 hand-overs (one per step, as a race does). Holds on the multisets generated, not beyond.",
    "note": "Trusts the reference (rank p/100*(n-1), linear interpolation, 40 lines), Python's statistics/fractions/json modules, and the assumption that a task's samples "
    "are the records carrying its name and operation type.",
    "technique": "runtime monitor: reference-model oracle over generated record multisets + structural round-trip equality through the real race store",
    "design_ref": "DESIGN.md section 4 C08",
}
